#!/usr/bin/env python3
"""Run /repo's pinned baseline (guard off: there are no hooks) and compare with /root/.vp/BASELINE.json stable_pass.
usage: tools/baseline_check.py [repo_dir]   exit 0 iff every stable-pass test still passes."""
import json, os, subprocess, sys, tempfile, xml.etree.ElementTree as ET
repo = sys.argv[1] if len(sys.argv) > 1 else "/repo"
base = json.load(open("/root/.vp/BASELINE.json"))
with tempfile.TemporaryDirectory() as d:
    x = os.path.join(d, "j.xml")
    env = dict(os.environ); env.pop("PYTHONPATH", None)
    if repo != "/repo":
        env["PYTHONPATH"] = repo
    subprocess.run(["/venv/bin/python", "-m", "pytest", "-ra", "-q", "-p", "no:cacheprovider", "--timeout=900",
                    "--continue-on-collection-errors", f"--junitxml={x}"], cwd=repo, env=env,
                   stdout=subprocess.DEVNULL, stderr=subprocess.DEVNULL)
    passed, failed = set(), set()
    for tc in ET.parse(x).getroot().iter("testcase"):
        tid = (tc.get("classname") or "") + "::" + (tc.get("name") or "")
        if tc.find("failure") is not None or tc.find("error") is not None: failed.add(tid)
        elif tc.find("skipped") is None: passed.add(tid)
    passed -= failed
missing = [t for t in base["stable_pass"] if t not in passed]
print(f"stable_pass={len(base['stable_pass'])} passed_now={len(passed)} missing={len(missing)}")
for m in missing[:20]: print("  MISSING", m)
sys.exit(1 if missing else 0)
