#!/usr/bin/env python3
"""tools/write_design7.py : regenerate the generated parts of DESIGN.md section 7 (the per-check table 7.2 and the seeded-change
table 7.5b) between the markers <!-- GEN:status --> ... <!-- /GEN:status --> and <!-- GEN:seeds --> ... <!-- /GEN:seeds -->."""
import os, re, subprocess
V = os.path.dirname(os.path.dirname(os.path.abspath(__file__)))
p = f"{V}/DESIGN.md"
s = open(p).read()
for key in ("status", "seeds"):
    out = subprocess.run(["python3", f"{V}/tools/design_status.py", key], capture_output=True, text=True).stdout
    out = "\n".join(l for l in out.splitlines() if l.startswith("|"))
    a, b = f"<!-- GEN:{key} -->", f"<!-- /GEN:{key} -->"
    if a in s and b in s:
        i, j = s.index(a) + len(a), s.index(b)
        s = s[:i] + "\n" + out + "\n" + s[j:]
    else:
        print("marker missing:", key)
open(p, "w").write(s)
print("DESIGN.md section 7 tables regenerated")
