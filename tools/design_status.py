#!/usr/bin/env python3
"""tools/design_status.py : print the markdown tables of DESIGN.md section 7.2 (per-check numbers from the committed
evidence files) and 7.5 (seeded changes and the recorded detection result from seeded/*/meta.json)."""
import json, os, sys
V = os.path.dirname(os.path.dirname(os.path.abspath(__file__)))
man = json.load(open(f"{V}/MANIFEST.json"))
which = sys.argv[1] if len(sys.argv) > 1 else "status"
if which == "status":
    print("| id | level | obligations (size-bounded / bounded stand-ins / finding instances) | functions under contract | solver s |")
    print("|---|---|---|---|---|")
    for c in man["checks"]:
        pid = c["property_id"]
        e = json.load(open(f"{V}/evidence/{pid}.json"))
        cov = e["coverage"]
        print(f"| {pid} | {e['level']} | {cov['obligations']} ({cov.get('size_bounded_obligations', 0)} / {cov.get('bounded_standins', 0)} / "
              f"{len(cov.get('known_finding_instances', []))}) | {len(cov.get('functions_under_contract', []))} | {cov.get('solver_time_s', 0):.0f} |")
else:
    rows = {}
    for nm in sorted(os.listdir(f"{V}/seeded")):
        try:
            m = json.load(open(f"{V}/seeded/{nm}/meta.json"))
        except Exception:  # pylint: disable=broad-except
            continue
        det = m.get("detected_by")
        if not det:
            ck = (m.get("confirmed_by_me") or {}).get("checks") or {}
            v = ck.get(m["property"])
            det = dict(exit=v.get("exit"), violations=v.get("violations")) if isinstance(v, dict) else dict(exit=None)
        files = m.get("files_changed") or []
        what = str(m.get("breaks") or "")[:150].replace("|", "/").replace("\n", " ")
        res = {1: "caught", 0: "MISSED", 2: "undecided", 3: "checker fault", None: "not run"}.get(det.get("exit"), str(det.get("exit")))
        if det.get("note"):
            res = det["note"]
        print(f"| {nm} | {', '.join(os.path.basename(f) for f in files)[:60]} | {res} ({det.get('violations', 0) or 0}) | {what} |")
