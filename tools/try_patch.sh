#!/bin/bash
# tools/try_patch.sh <patch.diff> <property id>...   : apply to the scratch worktree /tmp/wt_dev, run the checks there, revert
P="$1"; shift
WT=${WT:-/tmp/wt_dev}
git -C $WT checkout -q -- . && git -C $WT apply "$P" || { echo "patch does not apply"; exit 9; }
for id in "$@"; do
  VERIF_REPO=$WT PYTHONPATH=$WT /verif/check $id --tier ${TIER:-quick} 2>&1 | grep -E "^\[|VIOLATION|KNOWN|FAULT|refuted" | cut -c1-260
  echo "   -> exit ${PIPESTATUS[0]}"
done
git -C $WT checkout -q -- .
