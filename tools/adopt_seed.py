#!/usr/bin/env python3
"""tools/adopt_seed.py <pid> <i> [check ids...]
Confirm a sub-agent's seeded defect myself in a scratch worktree and store it under /verif/seeded/<pid>_<i>/:
 demo passes on the clean tree, fails with the patch; the pinned baseline still passes with the patch; then run my checks."""
import json, os, shutil, subprocess, sys, tempfile

pid, i = sys.argv[1], sys.argv[2]
checks = sys.argv[3:] or [pid]
src = f"/tmp/seed_{pid}_out"
patch, demo, meta = f"{src}/patch_{i}.diff", f"{src}/demo_{i}.py", f"{src}/meta_{i}.json"
wt = tempfile.mkdtemp(prefix=f"adopt_{pid}_{i}_", dir="/tmp")
os.rmdir(wt)
run = lambda *a, **k: subprocess.run(*a, capture_output=True, text=True, **k)
env = dict(os.environ, PYTHONPATH=wt, PYTHONWARNINGS="ignore")
out = dict(property=pid, index=int(i), ran=[])
try:
    r = run(["git", "-C", "/repo", "worktree", "add", "-q", "--detach", wt, "main"])
    assert r.returncode == 0, r.stderr
    r0 = run(["/venv/bin/python", demo], env=env, cwd=wt, timeout=1800)
    out["demo_clean_exit"] = r0.returncode
    out["ran"].append(f"PYTHONPATH={wt} /venv/bin/python demo.py  (clean tree) -> exit {r0.returncode}")
    r = run(["git", "-C", wt, "apply", patch])
    out["patch_applies"] = r.returncode == 0
    if r.returncode != 0:
        out["error"] = "patch does not apply to the current tree: " + r.stderr[:300]
    else:
        r1 = run(["/venv/bin/python", demo], env=env, cwd=wt, timeout=1800)
        out["demo_patched_exit"] = r1.returncode
        out["demo_patched_tail"] = (r1.stdout + r1.stderr)[-600:]
        out["ran"].append(f"git apply patch.diff; PYTHONPATH={wt} /venv/bin/python demo.py -> exit {r1.returncode}")
        rb = run(["python3", "/verif/tools/baseline_check.py", wt], timeout=3600)
        out["baseline_with_patch"] = rb.stdout.strip().split("\n")[0]
        out["baseline_ok"] = rb.returncode == 0
        out["ran"].append(f"tools/baseline_check.py {wt} -> {out['baseline_with_patch']}")
        res = {}
        for c in checks:
            if not os.path.exists(f"/verif/contracts/{c}.py"):
                res[c] = "no check built"
                continue
            rc = run(["/verif/check", c, "--tier", "quick"], env=dict(env, VERIF_REPO=wt), timeout=3600)
            viol = [l for l in rc.stdout.split("\n") if l.startswith("VIOLATION")]
            res[c] = dict(exit=rc.returncode, violations=len(viol), first=viol[0] if viol else None)
            out["ran"].append(f"VERIF_REPO={wt} PYTHONPATH={wt} ./check {c} --tier quick -> exit {rc.returncode}, {len(viol)} VIOLATION line(s)")
        out["checks"] = res
    ok = out.get("demo_clean_exit") == 0 and out.get("demo_patched_exit", 0) != 0 and out.get("baseline_ok")
    out["confirmed"] = bool(ok)
    if ok:
        d = f"/verif/seeded/{pid}_{i}"
        os.makedirs(d, exist_ok=True)
        shutil.copy(patch, f"{d}/patch.diff")
        shutil.copy(demo, f"{d}/demo.py")
        m = json.load(open(meta)) if os.path.exists(meta) else {}
        json.dump(dict(property=pid, breaks=m.get("what_it_breaks") or m.get("breaks"), needs_to_manifest=m.get("what_it_needs_to_manifest") or m.get("needs_to_manifest"),
                       files_changed=m.get("files_changed"), confirmed_by_me=out), open(f"{d}/meta.json", "w"), indent=1)
finally:
    subprocess.run(["git", "-C", "/repo", "worktree", "remove", "--force", wt], capture_output=True)
    shutil.rmtree(wt, ignore_errors=True)
print(json.dumps({k: out[k] for k in out if k not in ("ran", "demo_patched_tail")}))
