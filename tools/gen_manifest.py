#!/usr/bin/env python3
"""Regenerate MANIFEST.json from the table below (claimed checks) + notes/design_claims.json (n/a reasons).
A property is claimed only when contracts/<id>.py exists and is listed in CLAIMED."""
import json
import os

HERE = os.path.dirname(os.path.dirname(os.path.abspath(__file__)))

# id -> (category, technique, level text, level note (trusted base / assumptions), design ref, engine)
NO_THOROUGH = {"C30"}

CLAIMED = {
    "C01": ("proof",
            "per-representation contracts on the named gate classes, decided on the real methods with exact symbolic "
            "parameters: eigvals via power sums tr(M^p) == sum e^p (p = 1..dim), ordered eigvals == diagonal for "
            "diagonal-in-Z gates, diagonalizing gates D M D^dagger == diag(eigvals), decomposition product == M, generator "
            "through dM/dtheta == i c G M and M(0) == I, sparse matrix, Pauli representation, has_* flags vs produced / "
            "documented *UndefinedError; Laurent normal form; bounded float stand-ins where a representation falls back to "
            "numeric linear algebra",
            "For the ~50 fixed-arity named gates plus MultiRZ/PauliRot/PCPhase/MultiControlledX instances every exposed "
            "representation describes the same linear map as the dense matrix, for all parameter values (351 obligations); "
            "representations that the class only provides through numeric fallbacks (generic eigvals, scipy.sparse, "
            "float()-converting decompositions: 29 cases) are compared at seeded float points and reported as bounded.",
            "Trusts vf/symx, Newton identities, ODE uniqueness for the generator clause; numpy interface; templates, operator "
            "arithmetic (C03) and fractional powers are outside.",
            "DESIGN.md 4 C01", "E2"),
    "C02": ("proof",
            "contract on each gate's compute_matrix (ensures == documented formula); real kernel executed on exact "
            "symbolic scalars; Laurent-polynomial normal-form equality (decision procedure), float replay of refutations",
            "Every named gate's real compute_matrix is traced on exact symbolic parameters and proved equal, entry by "
            "entry and for all real parameter values, to the documented formula; unitarity is a lemma over the "
            "reference. Variable-arity gates, permuted wires and broadcasting are size-bounded and reported separately.",
            "Trusts vf/symx exact ring + Sym scalar, numpy/autoray structural ops on object arrays, the hand-transcribed "
            "reference table; float rounding not verified (A-float-as-real); numpy interface path only.",
            "DESIGN.md 4 C02", "E2"),
    "C07": ("proof",
            "attribute predicate as postcondition on each member's real matrix kernel, executed on exact symbolic "
            "scalars; Laurent-polynomial normal-form identities",
            "The seven attribute sets are read from the real module each run; for every member with a closed-form kernel "
            "the defining predicate (M.M=I, wire-permutation invariance, zero off-diagonal, U(a)U(b)=U(a+b), G.G^dagger~I, "
            "batched==stack) is proved for all parameter values. Variable-arity members are size-bounded; template members "
            "of supports_broadcasting and Rot's accumulation law are listed unverified.",
            "Trusts vf/symx, numpy/autoray structural ops; numpy interface; batch size 2; DiagonalQubitUnitary and "
            "templates outside reach (bounded stand-in / unverified).",
            "DESIGN.md 4 C07", "E2"),
    "C08": ("other",
            "contract on qp.is_commuting (positive answer => the matrices commute on the joint register; Pauli words: answer == "
            "matrix commutation): the REAL function is called on real operator instances (float twins at two generic parameter "
            "points) for every pair of instances and every overlapping relative wire placement; each positive answer is "
            "discharged by proving that the commutator of the two real matrix kernels, executed on exact SYMBOLIC parameters and "
            "embedded in the joint register, vanishes identically (Laurent normal form); Pauli-word exactness by complete "
            "enumeration on a 3-wire register; value-dependent branches (U2/U3/Rot/CRot, simplify at special angles) by a "
            "labelled bounded float stand-in",
            "~11000 positive answers over 68 operator instances (all named gates with <= 3 wires, MultiRZ, MultiControlledX, "
            "generic controlled operators) x overlapping placements with a joint register <= 4 wires are proved for ALL parameter "
            "values; the lookup tables (X/Y/Z/SWAP groups, 'ctrl' entries) and the control/target case split are thereby "
            "checked entry by entry; 9216 Pauli-word pairs exact in both directions.",
            "Size-bounded in wire placements; generic parameter values (positive answers produced at the special angles where "
            "qp.simplify rewrites a rotation are only covered by the bounded stand-in); unbounded-arity operators beyond 3 "
            "wires and templates outside. F24 (SWAP group on partially overlapping wires) fixed in repo.",
            "DESIGN.md 4 C08", "E2"),
    "C09": ("proof",
            "contract on each parametrized gate: exponent differences of exp(i*theta_k) in the exact Laurent normal form "
            "of the real matrix lie within the declared frequencies; violations need a DFT replay on the real operator. "
            "In addition the real generate_shift_rule/_get_shift_rule/process_shifts are run on every declared frequency "
            "tuple with default and seeded custom shifts and must satisfy sum_i c_i e^{i w s_i} = (i w)^order for all "
            "declared w and w = 0 (bounded stand-in, float tolerance 1e-8)",
            "For every parametrized named gate and parameter the set of exponent differences of the exact symbolic matrix "
            "(a superset of the spectrum of every expectation value, for every state, observable and surrounding circuit) "
            "is contained in the declared frequencies; all other parameters stay symbolic. The shift rules generated for "
            "the declared spectra are exact up to 1e-8 at the sampled shift sets (36 bounded obligations, never counted "
            "as proved).",
            "Trusts vf/symx and the bilinearity lemma; numpy interface path; MultiRZ/PauliRot/PCPhase size-bounded; PSWAP "
            "declares no frequencies (no claim); shift-rule coefficients come from float formulas / a float linear solve, "
            "so that part is bounded.",
            "DESIGN.md 4 C09, 7", "E2"),
    "C10": ("proof",
            "contract on every applicable registered rule: ordered product of the emitted operators' matrices == the "
            "operator's matrix; the real rule and the real matrix kernels run on exact symbolic parameters; "
            "Laurent-polynomial normal form; float replay of refutations; labelled bounded stand-ins for data-dependent rules",
            "Every registry entry that can be instantiated (named gates, Adjoint/Pow/C variants, variable-arity gates by "
            "size; ~270 rule/operator pairs, ~620 obligations) is proved for all parameter values, global phase included; "
            "zeroed+restored work wires via M.(I(x)|0>) == M_target(x)|0>. Size-bounded in wire counts / control "
            "configurations / integer powers; templates and data-carrying operators are listed as skipped.",
            "Trusts vf/symx, the textbook tensor embedding of gate matrices, is_applicable on a float twin; "
            "DiagonalQubitUnitary rules and the %-reducing U2/U3 adjoint rules only have bounded float stand-ins.",
            "DESIGN.md 4 C10", "E2"),
    "C11": ("proof",
            "contract on every applicable registered rule: emitted operator multiset == declared resources (or covered "
            "by declared types when inexact), allocated work wires <= declared; parameter-independence of the emitted "
            "skeleton established by running the real rule on symbolic parameters",
            "Same instance space as C10. A rule that runs on symbolic parameters cannot branch on their values, so the "
            "emitted skeleton compared with the declared resources holds for every parameter value; size-bounded in configuration.",
            "Trusts abstractify()/resource_rep equality as the notion of resource type; resource parameters from a float twin.",
            "DESIGN.md 4 C11", "E2"),
    "C13": ("proof",
            "contract on every registered rule that emits mid-circuit (Pauli) measurements + conditionals (found by scanning "
            "the traced rules each run): for ALL 2^k outcome branches the branch operator on a generic input state equals "
            "c_b * (U_target (x) |aux_b>), c_b != 0; projectors for outcomes, conditionals resolved by the real "
            "MeasurementValue.concretize; exact ring arithmetic",
            "The lattice-surgery PPM rules of CNOT/CY/CZ and the YY-measurement rule of Hadamard (the measurement-based "
            "rules whose operators can be instantiated): every outcome branch, every input state - complete per rule.",
            "Trusts vf/symx, the projector semantics of measurement outcomes; work wires assumed to start in |0>; device "
            "execution of the branches and template rules without instance builder (e.g. TemporaryAND) are not covered.",
            "DESIGN.md 4 C13", "E2"),
    "C16": ("proof",
            "sidecar contracts (pre/post, allowed exceptions, loop invariants) on the real methods of rings.py and "
            "norm_solver.py; ring elements are integer coefficient tuples with independently written polynomial products, "
            "dyadic/SO(3) matrices are tracked through their denoted value (1/sqrt2)^k*M via an iterated-sqrt2 spec "
            "function; every while-loop is cut by an invariant (value preservation for the normalize loops, common "
            "divisors for Euclid, r^2 - a*t = p*K over a modular-power spec function for Tonelli-Shanks, product "
            "invariant for the factorisation stack); callees are used through their verified contracts; ring laws and "
            "induction steps are z3 lemmas; VCs generated from the function ASTs on every run (all paths), z3 NIA; "
            "counter-models replayed natively",
            "Every ring operator of ZSqrtTwo/ZOmega (add, sub, rsub, mul, neg, eq, pow, exact and floor division, "
            "__mod__, conj, adj2, norm, abs, sqrt, conversions, normalize) equals an independently written spec in "
            "Z[x]/(x^2-2) resp. Z[w]/(w^4+1) for all integers; ring laws and norm multiplicativity hold over the spec; "
            "DyadicMatrix normalize/__init__/__add__/__matmul__/__mul__/conj/adj2/mult2k and SO3Matrix "
            "normalize/__matmul__/from_matrix preserve or compute the denoted value; ring _gcd keeps the common divisors; "
            "_legendre_symbol/_sqrt_modulo_p return None or a square root mod p for every p >= 2; the prime-factor "
            "helpers return divisors; every value returned by _solve_diophantine satisfies conj(t)*t == xi over those "
            "verified callee contracts. The primality test is a labelled bounded stand-in against sympy.isprime "
            "(stratified values up to 2^64).",
            "Trusts the pyvc encoder (Python subset semantics), z3; python ints are mathematical integers (exact); "
            "int(math.pow(2,e)) modelled exactly up to 2^1023, round(n/d) havocked; _integer_factorize, sorted, "
            "np.allclose on exact integers assumed; termination, the SO(3) homomorphism and from_matrix outside special- "
            "unitary shape are not covered.",
            "DESIGN.md 4 C16, 7", "E1"),
    "C44": ("proof",
            "sidecar contracts over the abstract view expand(spec) on the real methods of core/shots.py; sequences of "
            "SYMBOLIC length (z3 Seq) including sequences mixing ints and (shots, copies) pairs (contract-defined element "
            "codec), loop invariants for the merging loop / generators, modular callee contract for __all_tuple_init__, "
            "about fifty induction lemmas (base+step) for the laws of the recursively defined spec functions VALID, "
            "CANON, SCALED, MAP, NORM; z3",
            "Constructor on every input kind including mixed int/pair sequences of symbolic length, __iter__, bins, "
            "__bool__, has_partitioned_shots, num_copies, __add__, __mul__/__rmul__ (vectors of any length: per-execution "
            "list [int(s*k)], ValueError iff a product truncates to 0), __eq__ (<=> equal expansion on canonical "
            "vectors), __hash__ (function of the shot vector), canonical form of constructed vectors, "
            "valid_int/valid_tuple: proved for every input of every length.",
            "Trusts the pyvc encoder and z3 (Seq + LIA/NRA); A-concrete-inputs (abstract-array branches dropped); float "
            "scalar as real; hash(tuple) as an uninterpreted function of the value; abstract shot values and bools inside "
            "sequences are not covered.",
            "DESIGN.md 4 C44, 7", "E1"),
    "C03": ("proof",
            "wrapper contracts over a GENERIC base: a real Operator subclass whose matrix has symbolic complex entries is "
            "wrapped by the real Adjoint/Pow/Controlled/Prod/Sum/SProd/map_wires/simplify and the resulting matrices are "
            "proved equal (polynomial identities in the entries) to the matrix arithmetic of the operands; per-gate "
            "shortcuts adjoint()/pow(z)/ctrl of every named gate on symbolic parameters; structural induction for nesting",
            "Adjoint, integer Pow (0..4), Controlled (all control-value strings, <= 2 controls), Prod (same, disjoint and "
            "overlapping wires, both wire orders), Sum, SProd (symbolic complex scalar), map_wires, wire-order expansion, a "
            "nested expression and its simplify() have exactly the matrix of the corresponding matrix arithmetic for ANY "
            "operand matrices; the named gates' eager adjoint/pow/ctrl shortcuts agree with M^dagger, M^z, diag(I, M).",
            "Size-bounded in dimension (bases on 1-2 wires within 3 wires), complete in matrix entries; Exp, "
            "LinearCombination, fractional powers and templates as operands are outside; U2/U3.adjoint (angle reduction with "
            "%) only bounded.",
            "DESIGN.md 4 C03", "E2"),
    "C05": ("proof",
            "contracts on the cache-key functions: (a) every angle reduction `% P` in _process_data/_canonicalize_dynamic "
            "(read from the AST each run) requires the real gate matrix to be exactly P-periodic in every parameter "
            "(symbolic, Laurent normal form); (c) QuantumScript.hash's fingerprint construction (read from the AST) is "
            "injective in (ops, measurements, trainable, shots) over sequences of symbolic length (z3 Seq, 3-step argument); "
            "(b) rounding quantum recorded as known finding F16",
            "Soundness of the cache key, the part of the property a per-function contract can carry: after the two fix: "
            "commits (F1: SU(2) rotations hashed modulo 4*pi; F11: fingerprint components kept apart) all period obligations "
            "and the injectivity obligation are discharged; the 10-decimal rounding of parameters (F16) is reported as an open "
            "known finding with a replayed cached/uncached difference.",
            "Assumes python's hash collision-free on fingerprints; qp.execute plumbing and _cache_transform's hit/miss logic "
            "are not under contract; numpy interface.",
            "DESIGN.md 4 C05", "E2+E1"),
    "C25": ("proof",
            "sidecar contract on noise/mitigate.py fold_global / _divmod: the real bodies executed symbolically over abstract "
            "letters (operation list of SYMBOLIC length) and a real scale factor; floor, round-half-even, reversed slices, "
            "repetition and letterwise adjoint are spec-function terms; one program obligation fixes the exact shape of the "
            "folded list U (U^dagger U)^folds L^dagger L; gate count, |len - lambda*n| <= 1 and 'same product as U in every group "
            "where adjoint means inverse' are lemma consequences proved by explicit induction (base + step); z3",
            "For every list length and every real scale factor >= 1 (incl. the edge cases k == 0 and k == n): number of global "
            "folds floor((lambda-1)/2), partial fold count round_half_even(frac*n/2), exact shape and length of the folded "
            "circuit, and equality of its product with the original circuit's; channels are rejected. _polyfit / "
            "poly_extrapolate / richardson_extrapolate: the real bodies on exact symbolic abscissae and polynomial coefficients "
            "return the model polynomial's coefficients and f(0) as rational functions for 7 (points, order) shapes "
            "(size-bounded; pinv/inv as an assumed inverse contract valid for a round-off-level cut-off). Bounded native "
            "stand-ins (never counted as proved): fold_global on every fold-count cell for n <= 5, the four extrapolators in "
            "binary64 on model data, add_noise (requested channels at the selected positions, each measurement carried once, "
            "post-processing order, zero strength equals noiseless; 2544 real runs).",
            "A-float-as-real for lambda; adjoint(op) is the inverse of op (C03) and tape.copy(ops=...) are assumed; the "
            "reversed-slice model (any start/stop) is cross-checked against CPython (bounded); add_noise has no deductive "
            "obligation (lru_cache, make_qscript and closures are outside E1); insert, the conditionals themselves, "
            "exponential_extrapolate (symbolically) and mitigate_with_zne are not covered.",
            "DESIGN.md 4 C25", "E1"),
    "C28": ("proof",
            "(1) contract on each built-in channel's compute_kraus_matrices under its own domain guards as path "
            "condition: all radicands >= 0 and |sum K^dagger K - I| <= 16*eps (eps = the source's sqrt stabiliser); real "
            "kernel executed on sympy-backed scalars, obligations discharged by z3 NRA, float replay; "
            "ThermalRelaxationError in both branches with exp(-tg/t) abstracted to symbols constrained by the "
            "monotonicity facts of the branch. (2) the real default.mixed kernels (apply_operation_einsum, "
            "apply_operation_tensordot, the apply_operation dispatch with its fast paths, get_final_state, "
            "measure_final_state) run on a generic symbolic density tensor and generic symbolic Kraus matrices; every "
            "result entry is compared, as a polynomial, with an index-arithmetic Kraus sum. (3) trace and Hermiticity "
            "preservation are polynomial lemmas over that reference",
            "Kraus completeness of AmplitudeDamping, GeneralizedAmplitudeDamping, PhaseDamping, DepolarizingChannel, "
            "BitFlip, PhaseFlip, ResetError, PauliError (six words) and ThermalRelaxationError for every parameter of the "
            "documented domain, up to the stabilising epsilon the code itself adds; the simulator kernels apply sum_k K "
            "rho K^dagger for all states and all operator matrices (size-bounded: 1-3 target wires in every placement on "
            "3-4-wire states, 1-2 Kraus operators, batch None/1/2, idle measured wires); trace preserved for complete "
            "Kraus sets, Hermitian in => Hermitian out. Open known finding F32: ThermalRelaxationError with T1 < T2 <= "
            "2*T1 is not trace preserving for long gate times.",
            "Trusts vf/symx/sscalar.py, sympy expand, z3 nlsat, the autoray.astype patch that keeps object arrays "
            "symbolic during the trace; positive semidefiniteness is argued from the Kraus form, not machine-checked; "
            "QubitChannel's allclose validation, other interfaces and wire counts above the bound are not covered.",
            "DESIGN.md 4 C28, 7", "E2"),
    "C19": ("proof",
            "sidecar contract on the main loop of transforms/transpile.py:transpile (the `while len(list_op_copy) > 0` statement is "
            "cut from the real AST on every run and verified as a procedure over its free variables): operation list of "
            "SYMBOLIC length over abstract operation records, coupling graph an uninterpreted edge relation; outer invariant "
            "'every two-wire operation in gates is on an edge' (snoc-defined) + well-formedness of the remaining operations "
            "(cons-defined) with measure len(list_op_copy); inner SWAP-loop invariant on wire_map relative to the ASSUMED "
            "contract of nx.shortest_path; comprehensions as recursively defined maps with induction lemmas (base + step); z3",
            "Connectivity half: for all list lengths, labels and edge relations every two-qubit gate of the output acts on an "
            "edge of the coupling graph (either order), every inserted SWAP acts on consecutive nodes of the routing path, "
            "wire_map stays injective, the loop terminates.",
            "shortest_path (simple path, consecutive nodes adjacent), map_wires, SWAP construction and graph connectivity are "
            "assumed; equality with the input up to the final permutation, the preceding decompose, measurement re-mapping and "
            "state_transposition are not covered.",
            "DESIGN.md 4 C19", "E1"),
    "C20": ("other",
            "sidecar contracts on the bookkeeping core of transforms/split_non_commuting.py (_split_all_multi_term_obs_mps, "
            "_processing_fn_no_grouping, _processing_fn_with_grouping, _sum_terms) and the post-processing closure of "
            "split_to_single_terms.py: VCs from the real ASTs on enumerated tape / dictionary SHAPES with symbolic coefficients, "
            "offsets, results and observable identities (dictionaries with symbolic key identity fork on key equality); results "
            "compared with the sum formula over an uninterpreted result function val that is linear for expectation values; a "
            "composition lemma links splitter and post-processing; z3; counter-models replayed on real tapes",
            "For tapes of 1-3 measurements over 13 measurement shapes (sums of <= 3 terms with Identity anywhere, SProd, plain, "
            "non-expectation measurements): every original measurement j is recovered as offsets[j] + sum coeff*val(single-term "
            "measurement), in the original order, unwrapped for a single measurement; shared single-term measurements are "
            "re-used correctly; scalar coefficients, identity terms and constant offsets preserved. _split_operations (batch_params "
            "/ batch_input): for operator lists with 1-3 parameters per gate and EVERY subset of batched slots, output tape b "
            "carries the b-th slice of exactly the batched parameters and the others unchanged. diagonalize_measurements "
            "(_diagonalize_subset_of_pauli_obs and its helpers, incl. the default handler for non-Pauli observables): at most one "
            "basis change per wire, none on wires sampled in the computational basis (all tape wires for wire-less "
            "probs/sample/counts), leaves switched to Z exactly when their wire got their basis change, ValueError exactly for "
            "clashing inputs (symbolic wire labels and supported sets, lists of <= 3 measurements).",
            "Size-bounded in shapes, complete in values; linearity of expectation values and val(expval(I)) == 1 are assumed "
            "axioms; bind_new_parameters, diagonalizing_gates and singledispatch routing assumed; grouping strategies, tape "
            "construction, the pauli_rep path of diagonalize_measurements, sign_expand / broadcast_expand and execution are "
            "outside. F13 and F37 fixed in repo.",
            "DESIGN.md 4 C20", "E1"),
    "C21": ("other",
            "sidecar contracts on ops/mid_measure measurement_value.py (MeasurementValue._merge, _apply, _transform_bin_op, "
            "__invert__, concretize, items, branches, __getitem__, postselected_items, the 14 binary dunders and 4 reflected "
            "ones): VCs from the real ASTs on operands of enumerated DEPENDENCY SHAPE with symbolic outcomes and scalars and "
            "uninterpreted processing functions; the closure the real code returns is CALLED symbolically on a fresh outcome "
            "assignment sigma of the merged measurement list and compared with the pointwise denotation "
            "[[a op b]](sigma) == [[a]](sigma) op [[b]](sigma); branch enumerations executed for n <= 3; z3",
            "For every dependency shape with <= 2 measurements per operand (all orders / sharing patterns) plus shapes with 3: "
            "the merged list is duplicate-free and ordered by id, shared measurements are routed to both operands, every "
            "operator dunder (both operand orders, scalars either side) denotes pointwise arithmetic on outcomes, concretize == "
            "denotation, items / branches / [i] enumerate all 2^n branches with the documented bit order, postselected_items is "
            "the consistent sub-enumeration - for ALL outcomes, scalars and processing functions. variance_transform incl. its "
            "post-processing closure: every measurement-kind sequence of length <= 3 (thorough 4) plus selected longer ones, "
            "var(O) == <O^2> - <O>^2 and every other value unchanged. _postselection_postprocess: hw-like / default draw exactly "
            "one Binomial(s_i, <psi|psi>) per shot-vector entry in order, fill-shots draws nothing and raises exactly at P = 0, "
            "state renormalised (2 or 4 symbolic real components, shot vectors <= 3). defer_measurements: the real transform on 58 "
            "(thorough 142) circuit shapes with 1-2 mid-circuit measurements covering every reset / postselect combination and "
            "symbolic angles; the deferred circuit equals an independent branch enumeration exactly (reduced density matrix plus "
            "measurement-value statistics, Laurent normal form).",
            "Size-bounded in shapes; uniqueness of measurement ids assumed; qp.math logical / mod helpers are uninterpreted "
            "(routing checked, not numerics); numpy's binomial sampling itself, the device's execution of the deferred circuit, "
            "simulate_tree_mcm branching and pruning, one-shot execution, the jax prng path and more than 2 MCMs are NOT covered.",
            "DESIGN.md 4 C21", "E1"),
    "C22": ("proof",
            "sidecar contracts on transforms/resolve_dynamic_wires.py (_WireManager.__init__/get_wire/_get_zeroed/_get_any/"
            "_add_new_wire/return_wire, the generator _new_ops, resolve_dynamic_wires set-up) and the device call site "
            "devices/preprocess.device_resolve_dynamic_wires: VCs from the real ASTs on free stacks of SYMBOLIC length, a symbolic "
            "loan map and min_int, ghost sets Static / Given / Minted and a ghost predicate zero(w); setof / nodup spec functions "
            "through instances of their defining equations; _new_ops over a symbolic-length operation sequence with three loop "
            "cuts, modular through the verified get_wire / return_wire postconditions; z3; counter-models replayed natively",
            "For all stack contents, loan maps and allocation histories: well_formed is preserved; get_wire hands out a wire "
            "that is not on loan (LIFO pop or a freshly minted integer), zero on request (possibly through a returned reset "
            "measurement), a static wire only if it was handed in; AllocationError exactly when no wire can be supplied and NO "
            "other exception (F8: the unguarded pops are unreachable); return_wire restores the register recorded at loan "
            "time; _new_ops keeps wire_map injective into the loans and disjoint from the free stacks - no two live dynamic "
            "wires share a concrete wire. The device call site establishes the freshness precondition of min_int (size-bounded).",
            "Operators are abstract records (map_wires, measure(reset=True) assumed); 'same results as a fresh wire per "
            "allocation' needs a simulator and is not covered. F26 fixed in repo.",
            "DESIGN.md 4 C22", "E1"),
    "C23": ("proof",
            "sidecar contracts on core/transforms/compile_pipeline.py (+ the real BoundTransform accessors): (A) __call_tapes, "
            "_batch_postprocessing and _apply_postprocessing_stack executed from their ASTs with UNINTERPRETED tape transforms "
            "and post-processing functions for every enumerated fan-out table; the returned post-processing function, applied "
            "(twice) to symbolic results, equals the by-hand stage-by-stage composition (EUF, z3); (B) the list API executed on "
            "pipelines of enumerated shapes with symbolic marker levels / indices against the python-list model with markers as "
            "separators, exceptional postconditions for state-unchanged-on-error; counter-models replayed on real pipelines",
            "One stage with a batch of SYMBOLIC size and SYMBOLIC fan-out per circuit (no bound): the inner loop of __call_tapes, cut "
            "from the real AST, keeps the slices the contiguous ordered partition of the produced circuits with fns[k] the k-th "
            "circuit's post-processing function (snoc-defined predicate + base/step lemmas). "
            "Routing for 61 fan-out tables (1-3 stages, batches of 1-3 circuits, fan-out 0-3 incl. dropped circuits): results "
            "reach exactly the post-processing function of the circuit that produced them, in input order, and the function "
            "is re-usable. List API on 11 pipeline shapes (plain, equal, expand-carrying, terminal elements) x marker sets: "
            "len / [i] / [slice] / copy / == / in / append / extend / + / += / radd / * / insert / pop / remove / add_marker / "
            "remove_marker give the list-model result, markers keep their neighbours, levels stay within [0, len], errors are "
            "raised exactly when documented and leave the pipeline unchanged (~2000 obligations, 3228 VCs).",
            "Size-bounded in shapes / fan-out tables, complete in marker levels, indices, argument values and results; "
            "Transform objects are abstract records; cotransform cache, generic dispatch on QNodes/devices and the capture "
            "path are outside. Four defects (F4, F19, F20, F21) fixed in repo.",
            "DESIGN.md 4 C23", "E1"),
    "C46": ("proof",
            "sidecar contracts on resource/resource.py `_count_resources` (VCs from the real AST on tapes of SYMBOLIC length; "
            "operations a tagged union {Controlled, ControlledOp, other}; names uninterpreted; counting dictionaries as z3 arrays; "
            "loop invariants 'entry k is the number of elements so far with key k, present iff positive, sum of entries == "
            "index' through indexed count / sum spec functions used via instances of their defining equations), plus "
            "size-bounded checks of SpecsResources.__post_init__ and _flatten_dict; cache coherence of the circuit graph through "
            "QuantumScript.__init__ / graph / copy (the cached graph is None or the graph of the CURRENT circuit) and keyword "
            "precedence of the partial-args wrapper of qp.specs, both size-bounded; frame clauses (read-only) on every function; z3",
            "For all tape lengths and contents: gate counts by type with the controlled-prefix rule, measurement counts, the "
            "total == number of operations, wire and depth passthrough; SpecsResources totals on <= 3 entries / 2 nesting levels.",
            "Trusts the pyvc encoder + vf/pyvc/xmaps.py (tagged unions, defaultdict/Counter model), z3; _mp_to_str/_obs_to_str and "
            "graph depth uninterpreted; specs levels, trainable-parameter counts, Resources.subs not covered.",
            "DESIGN.md 4 C46", "E1"),
    "C47": ("proof",
            "sidecar contracts on estimator/{wires_manager,resources_base,resource_operator,estimate}.py (VCs from the real ASTs, "
            "z3): exact integers, gate-count dictionaries as z3 arrays with every per-gate statement proved at an ARBITRARY key, "
            "decompositions an uninterpreted function into action lists of symbolic length over a tagged union, loops cut by "
            "invariants, the self-recursive call replaced by the contract being proved, composition laws as lemmas over the contracts; "
            "the exact wire effect of REPEATED operations against the closed form of sequential repetition (size-bounded over "
            "decomposition shapes, induction lemmas over the allocate / release contracts); frame and exception-safety clauses on "
            "every mutating method",
            "For all inputs (unbounded integers, all map contents, all decomposition lengths): wire-manager invariant and "
            "grab/free accounting with ValueError exactly on the tight-budget shortfall / over-free; Resources add_/multiply_ "
            "series/parallel are pointwise sums/multiples with the series/parallel wire rules; "
            "_update_counts_from_compressed_res_op adds scalar*cnt(op,g) for every gate g (additive over the action list, "
            "multiplicative in the scalar); multiply_series(r,k+1) == add_series(multiply_series(r,k), r) and the parallel "
            "analogue, associativity/commutativity.",
            "Partial correctness (decomposition DAG termination assumed); sign well-formedness of decompositions assumed for the "
            "wire statements; estimate()/queue plumbing and concrete library decompositions are not checked individually.",
            "DESIGN.md 4 C47", "E1"),
    "C30": ("other",
            "sidecar contracts on measurements/counts.py (CountsMP.process_counts, _map_counts, _include_all_outcomes, "
            "_remove_unobserved_outcomes): VCs from the real ASTs on dictionaries with concrete outcome strings, SYMBOLIC integer "
            "counts and symbolic eigenvalues (string operations are run by the interpreter itself, symbolic-key dictionaries fork "
            "on key equality); every resulting dictionary is compared key by key with the restriction-sum formula; z3",
            "For <= 3 device wires, every (quick: every second) ordered selection of measured wires, identity and permuted wire "
            "orders and the enumerated key sets, with ALL count and eigenvalue values: mapped[s] is the sum of the counts whose "
            "restriction is s (totals preserved); all_outcomes gives exactly the 2^n strings with zeros for unobserved ones, "
            "otherwise exactly the non-zero ones; the eigenvalue branch sums per distinct eigenvalue. process_samples of "
            "sample / expval / var / counts / probs, incl. process_raw_samples, MeasurementProcess.eigvals / wires and "
            "MeasurementValue.items / wires / _merge: path-exhaustive execution of the REAL numpy code on every 0/1 sample array "
            "of the shapes (shots <= 3, wires <= 3, batch 2) with symbolic real eigenvalues and measurement-value coefficients "
            "(every comparison the code makes forks the path; path cover is checked); every result is compared with direct "
            "arithmetic, counter-models replayed on floats. F40 (degenerate eigenvalues lost shots) fixed in repo.",
            "Size-bounded throughout; named observables, concrete eigenvalue pools and MeasurementValue.wires are bounded native "
            "stand-ins; bin_size for every measurement type, SampleMP dtype, traced arrays, more than 3 wires are not covered.",
            "DESIGN.md 4 C30", "E1"),
    "C36": ("proof",
            "sidecar contract on gradients/finite_difference.py finite_diff_coeffs: the real body executed symbolically for ALL n "
            "and approx_order (symbolic ints) up to its linear solve with numpy abstracted (interval aranges, the Vandermonde "
            "matrix, the right-hand side): argument validation, the shift set and the system handed to the solver are the "
            "specified ones (z3); for n <= 4, order <= 6 and all strategies the REAL output is compared with an independent exact "
            "rational solution (Fraction arithmetic), which is checked to satisfy the moment conditions",
            "For all n, approx_order and each strategy: ValueError exactly on the documented invalid inputs; the shifts are N "
            "consecutive integers containing 0 with the strategy's range and the documented N; A is the Vandermonde matrix of "
            "the shifts and b == n! e_n - so, by the assumed contract of the linear solve, sum c_i s_i^k == n! [k == n] for k < "
            "N, i.e. exactness on polynomials of degree < n + approx_order. The returned array equals the exact solution "
            "(zero column dropped, ordered by |shift|) for the 60 enumerated triples. History independence of the memoised "
            "(functools.cache) result: static numpy-aware may-alias frame obligations on every write site of every in-repo caller "
            "(finite_diff, finite_diff_jvp, spsa_grad, re-enumerated from the ASTs each run) prove that no caller writes the shared "
            "cached array or a view of it, backed by bounded native stand-ins that run the real transforms and compare the "
            "memoised stencil with a recomputation.",
            "scipy.linalg.solve (A c == b; Vandermonde with distinct nodes non-singular) and the symmetry lemma for even n "
            "centred are ASSUMED; floats as reals; the returned coefficients are only checked for the enumerated sizes within a "
            "normwise 1e-9 tolerance; for the frame part numpy functions outside the writer list are assumed not to write their "
            "arguments; user-side writes into the writeable cached array are outside the check.",
            "DESIGN.md 4 C36, 7", "E1+E3"),
    "C39": ("other",
            "contract on compute_vjp_single/_multi, compute_jvp_single/_multi, vjp, jvp, batch_vjp, batch_jvp (result == explicit "
            "contraction of the Jacobian with the cotangent / tangent, shape included): the REAL functions are executed on numpy "
            "object arrays of independent symbolic scalars (one symbol per Jacobian / cotangent / tangent entry; the tape-level "
            "functions get a gradient_fn yielding the symbolic Jacobian) and compared with the contraction as polynomials "
            "(normal form); float replay",
            "For every enumerated shape class (scalar / vector measurements, 1-3 parameters, 1-3 measurements of mixed shapes, "
            "2-copy shot vectors, zero / partially zero cotangents, tapes without trainable parameters, batches of 2-3 tapes with "
            "both reductions, concrete integer (one-hot) cotangents against a symbolic Jacobian) and ALL values: the results are "
            "exactly the contractions the property names (116 obligations). classical_jacobian is covered only by a bounded "
            "native stand-in on the autograd interface (argnum None / int / sequences; never counted as proved).",
            "Size-bounded in shapes (dimensions <= 3), complete in values; numpy interface; classical_jacobian on other "
            "interfaces, other interfaces of the vjp/jvp utilities and gradient_fn itself are outside. F25 (batch_jvp reduction='extend' on scalar JVPs) open.",
            "DESIGN.md 4 C39", "E2"),
    "C40": ("other",
            "sidecar contracts over the parameter-list view P on the real methods of core/qscript.py (par_info, trainable_params "
            "getter/setter, num_params, get_operation, get_parameters, data, bind_new_parameters, copy): VCs generated from the "
            "function ASTs on every run for circuits of enumerated SHAPES with every parameter value, operator identity and "
            "index symbolic (quantifier-free, z3; counter-models replayed on real tapes); the per-operator bind_new_parameters "
            "dispatch as a callee contract that is itself checked by running the real dispatch on symbolic parameters for "
            "every operator configuration of the C10 instance space (Laurent normal form)",
            "For 9 circuit shapes (0-3 operations with 0-3 parameters, 0-2 measurements with/without parametrised observables; "
            "13 in the thorough tier) and all values: par_info[k] names the operator, position and slot of parameter k; the "
            "setter stores exactly the sorted duplicate-free index set and rejects everything outside [0, len(P)); "
            "get_parameters/get_operation/data follow trainable; bind_new_parameters (increasing indices, the call-site "
            "precondition) replaces exactly the named parameters, passes untouched operators through, keeps trainable and "
            "shots, leaves the original untouched; copy in all update combinations gives fresh lists, the documented sharing "
            "of operators, and trainable indices that are valid for the NEW parameter list; re-bound operators of ~450 "
            "operator configurations have the matrix/type/wires of the directly constructed operator for all parameter values.",
            "Size-bounded in circuit shape and operator configuration, complete in values; operators are abstract records in "
            "part A; decompose/expand preserving trainability is not covered; F2 fixed in repo, F3 (unsorted indices) open.",
            "DESIGN.md 4 C40", "E1+E2"),
    "C43": ("proof",
            "sidecar contracts on the capture-disabled paths of for_loop / while_loop / cond (VCs from the real ASTs, z3): user "
            "callables are uninterpreted stateful functions of (clock, arguments) with a ghost call log; loops run a SYMBOLIC "
            "number of iterations and are cut by the invariant state == ITER(k), log == CALLS(k), 0 <= k <= N with N the "
            "arithmetically defined range length (independent of the encoder's range) and ITER/CALLS spec functions used "
            "through instances of their unfolding equations; termination by the measure N-k; cond's branch selection against a "
            "nested-if specification; counter-models replayed natively",
            "For all start/stop/step (either sign; zero step raises), all iteration counts and all callable behaviours the "
            "tape-mode loops make exactly the calls of the Python loop, thread the carried values as documented (0, 1, >1 "
            "arguments, zero iterations, the no-argument ValueError), and return the last state; while_loop stops at the first "
            "false condition; for_loop's argument normalisation and cond's first-true-predicate / else selection with exactly "
            "one branch call. Number of carried arguments (0..3) and cond predicates (1..4) enumerated (size-bounded).",
            "Trusts the pyvc encoder, z3; capture/qjit paths, measurement-valued cond (deferral), keyword forwarding and "
            "while_loop termination are outside; pytrees.flatten and QueuingManager.remove are assumed contracts.",
            "DESIGN.md 4 C43", "E1"),
    "C41": ("proof",
            "sidecar contracts on core/queuing.py (VCs from the real ASTs, z3): the class-level context stack is threaded as "
            "symbolic-length state, calls on queues are checked as events; the generator context manager stop_recording is "
            "executed with an ARBITRARY, possibly raising, with-body substituted at its yield under full try/finally semantics "
            "with an exceptional postcondition; AnnotatedQueue methods against an assumed OrderedDict contract over a "
            "symbolic-length key sequence; composition lemmas for enter/exit and append order",
            "Stack discipline of the active contexts (push/pop, IndexError exactly on empty), __enter__/__exit__ restore on "
            "normal and exceptional exit without swallowing exceptions, append/remove/update_info/get_info act exactly once on "
            "the INNERMOST queue and not at all outside a context or under stop_recording, stop_recording restores the same "
            "list object afterwards (also after exceptions), apply copies and queues exactly once, AnnotatedQueue keeps "
            "insertion order == call order and removes exactly the named object -- for all stack depths and queue lengths. "
            "QuantumTape.__enter__/__exit__ pop once and release the lock once on every (also exceptional) exit path; the "
            "adjoint/ctrl qfunc wrappers and create_controlled_op2 remove each consumed operator exactly once and nothing else; "
            "pow, prod, sum, s_prod, exp and nested wrappers are covered by 20 bounded native scenarios only.",
            "Trusts the pyvc encoder, z3; OrderedDict, copy.copy, Operator.queue and the with-protocol are assumed; "
            "metadata kwargs, from_queue, capture mode and threads are outside.",
            "DESIGN.md 4 C41", "E1"),
    "C45": ("proof",
            "sidecar contracts over the label-sequence view on the real methods of pennylane/wires.py: label sequences of "
            "SYMBOLIC length over an uninterpreted label sort, python sets as arrays label->Bool, linked by an axiomatic "
            "finite-sequence theory (Dafny-prelude encoding, each axiom checked against the python list model on every run); "
            "VCs from the function ASTs on every run, loop invariants for the accumulating loops and comprehensions; z3 "
            "E-matching; counter-models replayed natively",
            "_process, __init__, __contains__, __len__, __eq__ (with and without cached hashes), __hash__, index, indices, "
            "__getitem__, contains_wires, toset/tolist/labels, map, subset (plain and periodic), the four named set operations "
            "and their eight operator forms for Wires / tuple / set operands, __add__/__radd__ are proved for label sequences "
            "of every length: results are duplicate-free, contain exactly the labels the set operation defines, keep the "
            "stated order, and WireError is raised exactly for duplicates / missing labels. all_wires and shared_wires are "
            "proved for any number of Wires objects (symbolic-length list of label sequences of symbolic length); string "
            "labels are one label; unique_wires is proved for lists of 1-3 Wires objects (size-bounded in the number of objects).",
            "Trusts the pyvc encoder, the sequence axioms (transcription-checked, not proved), z3; labels are an abstract "
            "hashable sort (numpy/jax inputs, select_random, all_wires(sort=True) are outside); itertools.chain and functools.reduce "
            "of set intersection are assumed contracts; iteration order of python sets is "
            "left unconstrained, so results built from sets are specified up to order.",
            "DESIGN.md 4 C45", "E1"),
    "C65": ("other",
            "sidecar contracts on concurrency/executors/native/{api,multiproc,serial}.py (VCs from the real ASTs, z3): "
            "PyNativeExec.submit/map/starmap, MPPoolExec.map and StdLibBackend executed for each of the four backends with the "
            "ExecBackendConfig literals read from the real constructors and the base-class helpers inlined; an UNINTERPRETED user "
            "function of arity 0-3 (with/without a keyword parameter) is compared elementwise with built-in call / map / "
            "itertools.starmap; the stdlib pools are replaced by their documented order-preserving contracts (assumed); "
            "counter-models replayed on the real executors incl. real process pools",
            "For every backend (Serial, ThreadPool, ProcPool, MPPool), worker count and persist flag, all argument VALUES and "
            "the enumerated length shapes (empty, single, many, uneven, 1-3 sequences; starmap data of 0-3 tuples): "
            "submit(fn,*a,**kw) == fn(*a,**kw), map == list(map(partial(fn,**kw), *seqs)), starmap == "
            "list(itertools.starmap(...)), in input order. Multi-call reading: the pool stubs carry a ghost closed flag "
            "(a closed pool rejects work as the stdlib does); every map / starmap / submit on a persistent executor leaves the "
            "backend open (the shutdown function runs exactly when not persistent), 20 two-call histories per backend return "
            "what the builtins return, shutdown / __exit__ close exactly a persistent backend; 8 bounded native five-call "
            "histories on real executors.",
            "Size-bounded in arity / length shapes; the constructor invariant (persist => an open backend object) is taken "
            "as established by PyNativeExec.__init__ (not executed); the scheduling quantifier is discharged by ASSUMING the stdlib contracts "
            "(Executor.map / Pool.map / starmap / apply return results in input order) - schedules are not explored. F10, F10b, "
            "F22 fixed in repo; F23 (MPPoolExec.map rejects uneven lengths, documented precondition) open.",
            "DESIGN.md 4 C65", "E1"),
    "C66": ("other",
            "frame / aliasing contracts on decomposition/decomposition_rule.py (local_decomps, add_decomps, _fix_decomp, "
            "get_fixed_decomp, list_decomps, has_decomp, DecompCollection.__init__/copy/append/extend): the real code is executed "
            "from its AST on enumerated registry shapes with object identity tracked across snapshots; local_decomps runs with "
            "an ADVERSARIAL, possibly raising, with-body substituted at its yield under full try/finally semantics, with normal "
            "and exceptional postconditions on identities and deep contents; ContextVar get/set/reset is an assumed stdlib "
            "contract (a per-context token cell)",
            "Inside the context both ContextVars hold fresh registries none of whose mutable parts alias the outer ones, with "
            "the outer contents visible; whatever the body mutates or raises, afterwards both variables hold the outer objects "
            "again with identities and deep contents unchanged; mutators write only through *_var.get(); list_decomps hands "
            "out copies - on three registry shapes (0-2 operators, <= 2 rules each, 0-1 fixed rule).",
            "Size-bounded (level other); isolation between threads / tasks rests solely on the contextvars assumption - no "
            "schedule is explored.",
            "DESIGN.md 4 C66", "E1+E3"),
    "C73": ("proof",
            "sidecar contracts on devices/tracker.py, devices/modifiers/simulator_tracking.py (the seven wrapper closures and "
            "the decorator) and qubit/sampling.get_num_shots_and_executions (VCs from the real ASTs, all paths, z3): history "
            "lists of SYMBOLIC length, unbounded totals; the post-state must equal the fold of an independently written update "
            "specification over the updates the property prescribes; the wrapped device method is uninterpreted (exactly one "
            "call, same arguments, result returned unchanged); inactive tracker => frame; batches of any length by loop "
            "invariants over prefix spec functions with a shape-forking havoc for dicts that change inside the loop",
            "Tracker.update/reset/record/__enter__/__exit__: history appended, totals accumulated for Numbers only, latest "
            "replaced; every tracking wrapper counts one batch per call, one entry per circuit in batch order with "
            "simulations/executions/shots as computed for that circuit (shots only for shot-based circuits), records results in "
            "order, calls the wrapped method exactly once and returns its result; no tracker write when inactive - for all "
            "values and all history / batch lengths on the enumerated dictionary key-sets.",
            "circuits carry a symbolic len() (a bare circuit is not a batch of one); update keyword sets, float-result batches and "
            "the group count of the counting helper are size-bounded; floats as "
            "reals; the undecorated device method, callbacks and _group_measurements are uninterpreted; devices without the "
            "decorator and QNode-level batching are outside.",
            "DESIGN.md 4 C73", "E1"),
    "C50": ("other",
            "path-exhaustive bit-level symbolic execution (E2b): the REAL numpy functions of math/binary_linalg.py run on object "
            "arrays of symbolic GF(2) bits, forking on every truth test by re-execution, with a check that the path conditions "
            "cover the whole input space; per path z3 proves RREF-ness, row-space equality, pivots == rank and solver "
            "correctness against exhaustively expanded GF(2) specifications; functions that inspect every bit are enumerated "
            "completely per shape against brute-force span references; int_to_binary for all integers per width",
            "binary_finite_reduced_row_echelon (all 2^(mn) matrices of every shape up to 3x4; 4x5 thorough), "
            "binary_solve_linear_system (n <= 3: x returned => A regular and A x == b; LinAlgError => singular), "
            "binary_matrix_rank / binary_is_independent / binary_select_basis (complete enumeration, mn <= 12), int_to_binary "
            "(every integer incl. negatives, widths 0..8).",
            "Size-bounded, complete per shape - no proof for all sizes; numpy is assumed to treat object arrays of bit scalars "
            "like integer arrays (re-checked by the integer-dtype enumerations).",
            "DESIGN.md 4 C50", "E2b"),
    "C51": ("proof",
            "contracts on pauli/pauli_arithmetic.py: the module's multiplication / anticommutation / matrix / sparse-data tables "
            "(read from the real module each run) against independent reference matrices in exact cyclotomic arithmetic "
            "(complete over 4 letters / 16 pairs); the real bodies of PauliWord._matmul, commutes_with, _commutator and "
            "PauliSentence.__add__/__iadd__ executed symbolically on finite maps of SYMBOLIC size over an uninterpreted wire "
            "sort (z3 arrays + axiomatic key sequences, loop invariants) against per-wire table contracts; the remaining "
            "sentence arithmetic run on generic sentences with free symbolic coefficients and compared as exact polynomial "
            "matrices with the reference denotation",
            "Word products (letters and phase, both iteration orientations), commutation parity and sentence addition for words "
            "/ sentences on ANY number of wires; all 16+16 table entries and the sparse letter data; sentence products, "
            "commutators, scalar operations, trace, copy and dense matrices for all words on <= 3 wires with arbitrary "
            "coefficients (size-bounded); qp.matrix(w1@w2) == qp.matrix(w1)@qp.matrix(w2) for all words on <= 2 wires.",
            "Kronecker mixed-product property and the even-anticommutation lemma are stated, not machine-checked; buffered "
            "sparse matrix builders only sampled (bounded); pauli_decompose / pauli_sentence / dot / simplify not covered.",
            "DESIGN.md 4 C51", "E1+E2"),
    "C74": ("proof",
            "contracts on ftqc/pauli_tracker.py: conjugation tables of H, S and CNOT on Pauli frames are DERIVED in exact "
            "arithmetic from independent reference matrices with P(x,z) := X^x Z^z; the real pauli_to_xz / xz_to_pauli / "
            "pauli_prod / _commute_h / _commute_s / _commute_cnot / commute_clifford_op are executed symbolically (z3; all "
            "integer inputs; lists of symbolic length for pauli_prod with a XOR-fold invariant) against those tables; every "
            "frame of the finite frame domain is also run natively through the real code with exact matrix confirmation",
            "Tracking half: for every Pauli frame C P(x,z) C^dagger is proportional to P(commute_*(x,z)) for C in {H, S, CNOT}; "
            "encoding round-trips; pauli_prod == XOR-fold == matrix product up to phase for every list length; the dispatcher "
            "uses the right table with control first and raises exactly as documented. Conversion half: the real MBQC pattern "
            "functions of ftqc/decomposition.py (queue_single_qubit_gate/queue_corrections for RZ and RotXZX with symbolic angles, "
            "H, S; queue_cnot/cnot_corrections; default and diagonalized paths) are run and the queued programs are interpreted by "
            "an independent exact interpreter on EVERY outcome branch (16 / 8192): the out wire carries U|psi>, all released "
            "auxiliary wires are |0>, only the in-wire and pool wires are touched; the real body of convert_to_mbqc_formalism is "
            "run with callee contracts for these patterns over enumerated tape shapes (size-bounded: <=3 wires, <=3 operations, "
            "all wire assignments and read-out orders): same gates on tracked wire chains, read-out in the requested order.",
            "Independent interpreter semantics (graph state, XY measurement bases, reset, Conditional) and QubitMgr are assumed; "
            "the composition argument (patterns + composition => whole circuit) is stated, not mechanised; "
            "convert_to_mbqc_gateset, the capture path and longer tapes are covered by a bounded sampled end-to-end stand-in only; "
            "operators abstracted to their class; commute_clifford_op size-bounded in xz length (0..3).",
            "DESIGN.md 4 C74", "E1+E2"),
    "C52": ("other",
            "contracts on pauli/grouping/group_observables.py: the adjacency construction is enumerated on all word pairs of <= 3 "
            "qubits x 3 grouping types against relations computed from exact Kronecker matrices (per-qubit formula decided by z3); "
            "the grouping bookkeeping (colour classes -> index / item partitions, the wire-less shortcut, the first-match "
            "coefficient loop) is executed symbolically from the real ASTs per number of observables with all colourings, "
            "adjacencies, indices and identity patterns symbolic, under the ASSUMED contract of rustworkx.graph_greedy_color "
            "(total, proper); the public functions run end to end on small word lists with exact-matrix confirmation",
            "Groups are a partition of the indices (each exactly once, order kept), members of a group are pairwise related "
            "(qwc / commuting / anticommuting), custom indices travel by position, coefficients travel with their observable, "
            "wire-less observables are handled per grouping type (F27) - for <= 4 observables (5 thorough) and all symbolic "
            "colourings; adjacency exact for <= 3 qubits. diagonalize_pauli_word / diagonalize_qwc_pauli_words / "
            "diagonalize_qwc_groupings: for every word on <= 3 wires (explicit Identity factors, cancelling factors, scalar "
            "multiples) D has Z exactly on the non-identity wires with the same coefficient and U P U^dagger == D exactly "
            "(cyclotomic arithmetic) for the returned gates; one gate set diagonalises every member of a qwc pair, non-qwc pairs "
            "raise ValueError (all pairs on 2 wires).",
            "Size-bounded (level other); graph colouring assumed (confirmed on all graphs with <= 4 nodes, bounded); "
            "recursive_largest_first, binary conversions, groups of more than 2 words or more than 3 wires in the "
            "diagonalisation are not covered. F27 and F41 fixed in repo.",
            "DESIGN.md 4 C52", "E1+E2b"),
    "C18": ("other",
            "E3 frame checking: a flow-sensitive may-alias analysis of the real transform ASTs (68 transforms enumerated "
            "from the AST on every run, plus CompilePipeline.__call_tapes and _group_measurements), one named frame "
            "obligation per write site (setattr, setitem, mutating method call, augmented assignment, call that mutates "
            "an argument): the written object must not be, or be reachable from, a parameter; helper effects come from "
            "summaries computed from the helpers' own bodies, the QuantumScript accessor contracts "
            "(operations/measurements return the internal list, copy, bind_new_parameters) are re-derived from their "
            "bodies each run; a bounded native stand-in compares a fingerprint of the input tape before and after",
            "Every write site in the 68 tape transforms and the pipeline writes only to objects the function created "
            "itself (199 sites; 14 unclassified sites are counted and listed in the evidence); the native stand-in runs "
            "each transform on 3 tapes with default arguments (bounded). Findings F30 (merge_rotations), F31 "
            "(commute_controlled, hence compile), F7 (__call_tapes) and F6 (_group_measurements) were found by these "
            "obligations, reproduced natively and repaired in /repo.",
            "183 call sites of callees without a reachable body are assumed pure (frequencies listed in the evidence); "
            "operators and measurements are treated as immutable unless a write site says otherwise; shots/wires/data are "
            "scalar-like; expand/map_wires/map_to_standard_wires may return self (by name). Writes hidden inside assumed "
            "callees, aliasing through operator internals, QNode-level application and re-execution results are not "
            "covered.",
            "DESIGN.md 4 C18, 7", "E3"),
    "C59": ("other",
            "E1 on python sets of enumerated size with symbolic real elements: the real join_spectra and the "
            "processing_fn closure returned by the real circuit_spectrum are executed symbolically; postconditions are "
            "membership formulas (every a+b and |a-b| present, nothing else); join_spectra is used inside processing_fn "
            "through its verified contract with its non-negativity precondition proved at each call; z3",
            "join_spectra returns exactly {a+b, |a-b|} for non-negative spectra (sizes 0..3 x 0..3, both == {0} "
            "shortcuts, 0 preserved); circuit_spectrum's processing_fn accumulates, per marked parameter, every |f1 +- f2 "
            "+- ... +- fk| of the marked one-parameter gates and nothing else, returns a strictly increasing list "
            "symmetric around 0, honours encoding_gates and raises ValueError for multi-parameter encoding gates (8 "
            "circuit layouts, at most 2 independent marked gates, 3 with a common frequency): the reported spectrum is a "
            "superset of the true one by the product rule (lemma stated, not proved).",
            "Size-bounded throughout (level other); get_spectrum is assumed to return a non-negative set containing 0; "
            "sorted(set); floats as reals; qnode_spectrum, coefficients, reconstruct and rounding are not covered.",
            "DESIGN.md 4 C59, 7", "E1"),
    "C49": ("other",
            "E2: the real reduce_dm, partial_trace, reduce_statevector, dm_from_state_vector, purity, expectation_value, "
            "marginal_prob (math/quantum.py) and expand_matrix/_permute_dense_matrix (math/matrix_manipulation.py) run on "
            "object arrays of generic symbolic complex entries (no normalisation or hermiticity assumed); every result "
            "entry and the result shape are compared as polynomials with the definition written as explicit bit-string "
            "index arithmetic, so equality holds for all complex entries",
            "Reduced density matrices, partial traces, marginal probabilities, purity, expectation values and matrix "
            "expansion to a larger wire order agree with explicit index contraction / tensor re-indexing for all complex "
            "entries on registers of 1-3 qubits, every ordered subset of kept/traced wires, unbatched and batch of 2 "
            "(size-bounded, level other).",
            "Harness assumptions: autoray.astype keeps object arrays of symbols, real/imag entrywise. Everything resting "
            "on eig/log/sqrtm (entropies, fidelity, trace distance, relative entropy, mutual information, sqrt_matrix), "
            "registers above 3 qubits, non-numpy interfaces, check_state=True and sparse expand_matrix are not covered.",
            "DESIGN.md 7", "E2"),
    "C35": ("other",
            "exactness of a rule {(c_i, s_i)} for a spectrum W at order n is the finite linear system sum_i c_i e^{i w "
            "s_i} = (i w)^n for w in W, -W and 0. The real closed-form body of _get_shift_rule (taken from the working "
            "tree's AST, decorators stripped) runs on exact scalars through a numpy shim (symbolic f_min > 0, sin(k "
            "pi/4R) as (z^k - z^-k)/2i) and is decided modulo the cyclotomic polynomial Phi_8R(z); the real "
            "_iterate_shift_rule, _iterate_shift_rule_with_multipliers and _combine_shift_rules run on sympy symbols and "
            "are decided by polynomial expansion (power law, tensor product, modular shift reduction under the proved "
            "period condition w*T in 2 pi Z from the real frequencies_to_period); float behaviour is a stratified bounded "
            "sweep of generate_shift_rule / generate_multi_shift_rule and process_shifts",
            "Equidistant closed form exact for R = 1..5 and every f_min > 0; iterated rules (2 and 4 terms, orders 2-3, "
            "with and without period) equal the n-th power of the first-order rule, multi-parameter rules equal the "
            "product of the per-axis rules (2x2, 2x4, 2x2x2) - size-bounded exact proofs; 13 bounded float stand-ins (5 "
            "strata of spectra, orders 1-3, custom shifts, process_shifts). Fixed findings F33 (equidistant "
            "misclassification) and F36 (truncated period); open finding F34: default shifts that make the sine matrix "
            "singular, e.g. (1,3), (0.5,1.5), (1,2,4), only warn and return a wrong rule.",
            "Trusted: the numpy shim (pi, arange, concatenate, stack, sin, allclose, sort), sympy, np.gcd; exactness is "
            "stated on exponentials (trigonometric polynomials are their linear combinations); the non-equidistant linalg "
            "solve is covered only by the sweep; R > 5, spectra with more than 5 decimals at order > 1, "
            "generate_shifted_tapes/param_shift are not covered.",
            "DESIGN.md 7", "E2"),
    "C60": ("other",
            "E2-style exact check: the real ClassicalShadow kernels (local_snapshots, global_snapshots, expval / "
            "pauli_expval, median_of_means) are run on the COMPLETE ensemble of recipe/outcome records of an n-qubit "
            "register (3^n x 2^n records); their exact dyadic outputs are weighted with the Born probability of each "
            "record for a generic symbolic density matrix rho (every entry an independent complex symbol; no hermiticity, "
            "positivity or trace assumption), written independently from reference unitaries; sum p*snapshot == rho and "
            "sum p*estimate == tr(rho P) for all 4^n Pauli words are decided as polynomial identities in normal form; the "
            "batching structure of median_of_means is enumerated",
            "Every local snapshot is 3 U^dagger|b><b|U - 1; the snapshot average over all recipes and outcomes with exact "
            "probabilities is exactly rho; the k=1 expectation estimator averages to tr(rho P) for every Pauli word "
            "(incl. identity factors), is linear on Hamiltonians and elementwise on lists; median_of_means takes "
            "consecutive, disjoint, non-empty batches covering all T records (fixed finding F35: empty trailing batches "
            "gave nan) - size-bounded: n <= 2 (3 in thorough), T <= 12. Device shadow measurements (documented form of "
            "bits/recipes, Born statistics within 6 sigma at 30000 shots) are bounded stand-ins only.",
            "Trusts vf/symx normal form, refs/gates.py reference unitaries; RNGs assumed, not modelled; the sampling loop "
            "of process_state_with_shots and its density-matrix variant, entropy, median of means with k > 1 as an "
            "estimator, snapshots=/wires= sub-selection, other interfaces and shot vectors are not covered.",
            "DESIGN.md 7", "E2"),
    "C32": ("other",
            "E1 on the real result-packing code with per-measurement results as uninterpreted markers R(measurement, "
            "state, batched, shot copy), so position and order are checked: measure_final_state, simulate (non-MCM path), "
            "simulate_tree_mcm's shot-vector split (simulate.py); measure_with_samples with _group_measurements havocked "
            "to ANY ordered partition and the four measuring helpers uninterpreted (preconditions proved at the call "
            "sites), the packing ends of those helpers (sampling.py); _to_autograd, _to_jax, _res_to_torch (interfaces); "
            "_zero_jvp, _compute_jvps, _compute_vjps (jacobian_products.py); modular callee contracts; native marker "
            "replay on real QuantumScript/Shots objects",
            "For every enumerated request shape (1-4 measurements, analytic and 5 shot patterns, 0-2 MCM samples, every "
            "grouping of up to 3 measurements, batches of 1-2 circuits) and all values: a single measurement is "
            "unwrapped, several become a tuple in measurement order, a shot vector adds the OUTER tuple, MCM samples come "
            "last, interface converters keep the nesting, jvp/vjp assembling follows the same nesting (560 named "
            "obligations, all size-bounded). A bounded native stand-in executes default.qubit through device.execute and "
            "qp.execute with numpy / autograd / jax / torch (360 executions). Open known finding F38: broadcasted counts "
            "are a list under numpy / torch and a tuple under autograd / jax.",
            "Leaves are uninterpreted (array shapes inside a leaf are not modelled); Shots.__iter__/bins through the C44 "
            "contracts; jax.random.split, sample_state assumed; _group_measurements, get_final_state, the one-shot MCM "
            "path, execution.py / run.py / qnode.py, other devices, Jacobian nesting produced by gradient transforms and "
            "the custom-vjp plumbing are not covered beyond the stand-in.",
            "DESIGN.md 7", "E1"),
    "C72": ("proof",
            "E1 deductive verification of the real bodies of qaoa/cost.py (bit_driver, edge_driver, maxcut, "
            "max_independent_set, min_vertex_cover, max_clique), x_mixer and LinearCombination.__add__/__mul__ for graphs "
            "of SYMBOLIC size (node and edge sequences of symbolic length) and every bitstring (ghost set of nodes): the "
            "diagonal value EV(coeffs, ops) = sum_k coeffs[k]*diag(ops[k]) is a snoc-defined spec function, loop "
            "invariants relate it to independent colour / vertex counters, per-edge energy tables and additivity are "
            "base+step lemma pairs, the problem builders run modularly through the callee contracts; native replay on "
            "real networkx / rustworkx graphs; bounded qp.matrix stand-ins for all builders, mixers and the rustworkx "
            "paths",
            "For every graph and bitstring: bit_driver == (-1)^(b+1)(|V| - 2*ones); edge_driver == sum over edges of "
            "(|R|/4 - [colouring in R]) for every admissible reward set (ValueError exactly for the rejected ones); "
            "maxcut == -(cut edges); constrained / unconstrained max_independent_set, min_vertex_cover, max_clique equal "
            "the objective written independently in terms of chosen vertices, violated / uncovered edges (complement "
            "graph for max_clique); returned mixers are the documented builders on the documented arguments; EV(a+b) == "
            "EV(a)+EV(b), EV(c*a) == c*EV(a) on the real LinearCombination arithmetic. networkx fully; edge_driver / MIS "
            "/ MVC also on rustworkx. Docstring defect F39 (prefactor 3 vs 3/4) repaired.",
            "A-float-as-real; the LinearCombination constructor, Z/Identity/X and @ are stub records (Pauli words); "
            "models of qp.math.concatenate/multiply/copy/cast_like, nx.complement (same nodes, uninterpreted edges), "
            "sorted(edge_list()) assumed; reward lists without duplicates; cycle.py (max_weight_cycle, loss_hamiltonian, "
            "cycle_mixer, flow constraints), xy_mixer / bit_flip_mixer and maxcut / max_clique on rustworkx are bounded "
            "or not covered.",
            "DESIGN.md 7", "E1"),
    "C06": ("other",
            "E1 deductive verification of the real __copy__ / __deepcopy__ / _flatten / _unflatten bodies (Operator, "
            "Operator2, CompositeOp, SymbolicOp, Sum, Adjoint, Controlled, Pow, SProd, Exp, MeasurementProcess) and of 14 "
            "bind_new_parameters overloads on records with object identity: constructor calls observed, stdlib copy / "
            "deepcopy modelled on abstract values with identity and memo, loop invariant plus a partition lemma for the "
            "composite parameter slicing (any number of operands), the recursive bind call through a modular contract; "
            "every case paired with a native replay scenario; bounded native round trips (copy / deepcopy / pickle / "
            "pytree / rebind) on 58 real operators and 1500 pytree nestings",
            "Copies are fresh objects with the stated sharing (memo registered and passed on, a twice-referenced object "
            "copied once, original deeply untouched); _unflatten(*_flatten(op)) reproduces data, wires, hyperparameters "
            "and operand order; rebinding yields exactly the new parameters in order with every other attribute unchanged "
            "and the input untouched - proved on the model for symbolic-length parameters (composites: any operand count; "
            "otherwise 1-3 operands, data tuples of 0/1/3 parameters: size-bounded). Constructors, pickle and the pytrees "
            "recursion are bounded-native only (never counted as proved). Open known findings F42 (legacy Pow round trip "
            "changes class), F43 (Conditional cannot be unflattened), F44 (bind_new_parameters on "
            "ControlledQubitUnitary).",
            "Trusts the pyvc encoder, z3; copy.copy / copy.deepcopy models; constructors reproducing an operator from "
            "their own arguments are checked natively only; Operator2._flatten/_unflatten, the singledispatch base and "
            "the remaining overloads (LinearCombination, parametric controlled ops, projector, QSVT, Select, ...), JAX "
            "registration and the capture path are not covered.",
            "DESIGN.md 7", "E1"),
    "C61": ("proof",
            "contract on step/step_and_cost/apply_grad/compute_grad of the six gradient optimizers: outputs == documented "
            "update rule; real methods executed on sympy-backed symbolic scalars from an arbitrary accumulator state with an "
            "uninterpreted gradient; rational-function normal form (sqrt / symbolic powers as atoms); float replay",
            "Inductive step and first step of GradientDescent, Momentum, NesterovMomentum, Adagrad, RMSProp and Adam: new "
            "trainable arguments, untouched non-trainable argument, new accumulator state, the point at which the gradient "
            "is evaluated (Nesterov shift) and the cost returned by step_and_cost (objective at the PRE-step arguments) equal "
            "the docstring formulas for all hyperparameters, states and gradients; induction over steps covers histories.",
            "Trusts vf/symx/sscalar.py + sympy; gradients supplied through grad_fn (autograd not verified); scalar arguments; "
            "QNG/SPSA/Rotosolve/Rotoselect/ShotAdaptive/Riemannian optimizers not covered.",
            "DESIGN.md 4 C61", "E2"),
}


def main():
    claims = {c["id"]: c for c in json.load(open(os.path.join(HERE, "notes", "design_claims.json")))["claims"]}
    props = [json.loads(l) for l in open(os.path.join(HERE, "properties.jsonl"))]
    checks, na = [], []
    for p in props:
        pid = p["id"]
        if pid in CLAIMED and os.path.exists(os.path.join(HERE, "contracts", f"{pid}.py")):
            cat, tech, text, note, ref, eng = CLAIMED[pid]
            entry = dict(
                property_id=pid, quick_cmd=f"./check {pid} --tier quick", thorough_cmd=f"./check {pid} --tier thorough",
                evidence_file=f"evidence/{pid}.json", replay_cmd_template=f"./check {pid} --replay {{path}}",
                engine=eng, level_claimed=dict(category=cat, text=text, design_ref=ref), level_note=note, technique=tech)
            if pid in NO_THOROUGH:
                # the thorough tier of this check was not seen to finish within 18 minutes on the loaded build machine: not registered
                del entry["thorough_cmd"]
                entry["level_note"] = note + " The thorough tier (more shapes, string labels) exists in the contract file but is not registered: it did not finish within 18 minutes on the build machine."
            checks.append(entry)
        else:
            c = claims.get(pid, {})
            if c.get("status") == "not_applicable":
                reason = c["reason"]
            else:
                reason = ("within reach of contract-based verification per DESIGN.md section 4 "
                          f"({c.get('slice', 'see design')}) but the check is not built yet; not claimed")
            na.append(dict(property_id=pid, reason=reason))
    man = dict(
        version=1,
        setup_cmd="./setup.sh",
        hooks=dict(guard="PENNYLANE_VERIF", enable="no hooks: contracts are sidecar files under /verif, /repo is read and "
                   "executed as it is (the guard name is reserved, nothing in /repo reads it)",
                   baseline_off_cmd="cd /repo && /venv/bin/python -m pytest -ra -q -p no:cacheprovider --timeout=900 "
                                    "--continue-on-collection-errors",
                   source_commits=[], add_only=True),
        engines=[
            dict(name="E2 symx", path="vf/symx", serves_properties=sorted(k for k, v in CLAIMED.items() if "E2" in v[5]),
                 kind_free_text="real numeric kernels executed on exact symbolic scalars; obligations = Laurent-polynomial "
                                "identities decided by normal form; refutations replayed natively with floats"),
            dict(name="E1 pyvc", path="vf/pyvc", serves_properties=sorted(k for k, v in CLAIMED.items() if "E1" in v[5]),
                 kind_free_text="AST of the real function -> per-path verification conditions with sidecar contracts and "
                                "loop invariants, discharged by z3 (cvc5 for unknowns); counter-models replayed on the real code"),
            dict(name="E3 frame", path="vf/frame", serves_properties=sorted(k for k, v in CLAIMED.items() if "E3" in v[5]),
                 kind_free_text="flow-sensitive may-alias analysis of the real function ASTs: one frame obligation per write site "
                                "(the written object must not be, or be reachable from, a protected object: a parameter, or the "
                                "result of a memoised call); callee effects from summaries computed from the callees' bodies; "
                                "unresolvable callees assumed pure and counted; violations replayed natively"),
        ],
        checks=checks,
        notes="Contract-based deductive verification; see DESIGN.md. Exit codes: 0 held, 1 violation, 2 undecided, 3 checker fault.",
        not_applicable=na,
    )
    with open(os.path.join(HERE, "MANIFEST.json"), "w") as fh:
        json.dump(man, fh, indent=1)
    try:
        import jsonschema
        jsonschema.validate(man, json.load(open("/root/.vp/MANIFEST.schema.json")))
        print("MANIFEST.json valid:", len(checks), "checks,", len(na), "not_applicable")
    except ImportError:
        print("written (jsonschema not available to validate)")


if __name__ == "__main__":
    main()
