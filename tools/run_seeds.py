#!/usr/bin/env python3
"""tools/run_seeds.py [seed-dir-names...]  : apply every /verif/seeded/<id>/patch.diff to the scratch worktree (WT, default
/tmp/wt_dev, kept at /repo's HEAD), run the property's quick check against it, revert; record the outcome in meta.json
under "detected_by" and print one line per seed."""
import json, os, re, subprocess, sys
V = os.path.dirname(os.path.dirname(os.path.abspath(__file__)))
WT = os.environ.get("WT", "/tmp/wt_dev")
run = lambda *a, **k: subprocess.run(*a, capture_output=True, text=True, **k)
head = run(["git", "-C", "/repo", "rev-parse", "HEAD"]).stdout.strip()
if not os.path.isdir(WT):
    run(["git", "-C", "/repo", "worktree", "add", "--detach", WT, head])
run(["git", "-C", WT, "checkout", "-q", "--detach", head])
checks = {c["property_id"] for c in json.load(open(f"{V}/MANIFEST.json"))["checks"]}
names = sys.argv[1:] or sorted(os.listdir(f"{V}/seeded"))
for nm in names:
    d = f"{V}/seeded/{nm}"
    meta = json.load(open(f"{d}/meta.json"))
    pid = meta["property"]
    run(["git", "-C", WT, "checkout", "-q", "--", "."])
    ap = run(["git", "-C", WT, "apply", f"{d}/patch.diff"])
    if ap.returncode:
        print(nm, "PATCH DOES NOT APPLY", ap.stderr.strip()[:100]); continue
    if pid not in checks and not os.path.exists(f"{V}/contracts/{pid}.py"):
        res = dict(check=pid, exit=None, note="no check built")
    else:
        env = dict(os.environ, VERIF_REPO=WT, PYTHONPATH=WT)
        p = run([f"{V}/check", pid, "--tier", "quick"], env=env)
        viol = [l for l in p.stdout.splitlines() if l.startswith("VIOLATION")]
        res = dict(check=pid, exit=p.returncode, violations=len(viol), first=(viol[0] if viol else None), at_repo_commit=head[:10])
    run(["git", "-C", WT, "checkout", "-q", "--", "."])
    meta["detected_by"] = res
    json.dump(meta, open(f"{d}/meta.json", "w"), indent=1)
    print(nm, "exit", res.get("exit"), "violations", res.get("violations"), (res.get("first") or res.get("note") or "")[-110:])
