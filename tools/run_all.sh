#!/bin/bash
# run every registered quick (or $1=thorough) check against /repo, one after another; print a summary
cd "$(dirname "$0")/.."
TIER=${1:-quick}
for id in $(python3 -c "import json; print(' '.join(c['property_id'] for c in json.load(open('MANIFEST.json'))['checks']))"); do
  s=$(date +%s)
  out=$(./check $id --tier $TIER 2>&1); rc=$?
  echo "$id exit=$rc $(( $(date +%s) - s ))s :: $(echo "$out" | grep -E '^\[' | tail -1)"
  echo "$out" | grep -E "VIOLATION|KNOWN-FINDING|FAULT|UNDECIDED" | head -5
done
