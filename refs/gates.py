"""Independent reference table for the named gates (C02): the DOCUMENTED formulas, transcribed by hand from the class
docstrings (see notes/gate_docstring_formulas.md) / the textbook definition, first listed wire most significant.
Nothing here is derived from the code under test.  Entries are exact (`Sym` over the cyclotomic/Laurent ring).

REF[name] = (number of parameters, number of wires, builder(*params) -> object ndarray of Sym)
"""
from fractions import Fraction

import numpy as np

from vf.symx.scalar import Sym
from vf.symx.ring import Poly, Cyc, I_, SQRT2

ONE = Sym(Poly.const(1))
ZERO = Sym(Poly())
J = Sym(Poly.const(I_))
RT2 = Sym(Poly.const(SQRT2))
PI = Sym(Poly.gen(("pi",)))


def q(a, b=1):
    return Sym(Poly.const(Fraction(a, b)))


def cos(x):
    return x.cos()


def sin(x):
    return x.sin()


def e(x):
    """exp(i*x)"""
    return (J * x).exp()


def M(rows):
    n = len(rows)
    out = np.empty((n, len(rows[0])), dtype=object)
    for i, r in enumerate(rows):
        for j, x in enumerate(r):
            out[i, j] = x if isinstance(x, Sym) else Sym(x)
    return out


def eye(n):
    return M([[ONE if i == j else ZERO for j in range(n)] for i in range(n)])


def block_diag(*blocks):
    n = sum(b.shape[0] for b in blocks)
    out = M([[ZERO] * n for _ in range(n)])
    o = 0
    for b in blocks:
        k = b.shape[0]
        out[o:o + k, o:o + k] = b
        o += k
    return out


def kron(a, b):
    n, m = a.shape
    p, r = b.shape
    out = np.empty((n * p, m * r), dtype=object)
    for i in range(n):
        for j in range(m):
            for k in range(p):
                for l in range(r):
                    out[i * p + k, j * r + l] = a[i, j] * b[k, l]
    return out


def controlled(u, n_ctrl=1):
    """|1..1><1..1| (x) u  + (1 - |1..1><1..1|) (x) I  : control wires first (most significant)"""
    d = u.shape[0]
    return block_diag(eye(d * (2 ** n_ctrl - 1)), u)


def perm(n, mapping):
    """permutation matrix sending basis state |k> to |mapping(k)>"""
    out = M([[ZERO] * n for _ in range(n)])
    for k in range(n):
        out[mapping(k), k] = ONE
    return out


# ---- single-qubit fixed gates ---------------------------------------------------------------------------------------
X = M([[0, 1], [1, 0]])
Y = M([[ZERO, -J], [J, ZERO]])
Z = M([[1, 0], [0, -1]])
H = M([[ONE / RT2, ONE / RT2], [ONE / RT2, -ONE / RT2]])
S = M([[ONE, ZERO], [ZERO, J]])
T = M([[ONE, ZERO], [ZERO, e(PI / 4)]])
SX = M([[(ONE + J) / 2, (ONE - J) / 2], [(ONE - J) / 2, (ONE + J) / 2]])
I2 = eye(2)


def RX(p):
    return M([[cos(p / 2), -J * sin(p / 2)], [-J * sin(p / 2), cos(p / 2)]])


def RY(p):
    return M([[cos(p / 2), -sin(p / 2)], [sin(p / 2), cos(p / 2)]])


def RZ(p):
    return M([[e(-p / 2), ZERO], [ZERO, e(p / 2)]])


def PhaseShift(p):
    return M([[ONE, ZERO], [ZERO, e(p)]])


def U2(p, d):
    return M([[ONE / RT2, -e(d) / RT2], [e(p) / RT2, e(p + d) / RT2]])


def U3(t, p, d):
    return M([[cos(t / 2), -e(d) * sin(t / 2)], [e(p) * sin(t / 2), e(p + d) * cos(t / 2)]])


def Rot(p, t, w):
    return M([[e(-(p + w) / 2) * cos(t / 2), -e((p - w) / 2) * sin(t / 2)],
              [e(-(p - w) / 2) * sin(t / 2), e((p + w) / 2) * cos(t / 2)]])


# ---- two-qubit fixed gates ------------------------------------------------------------------------------------------
CNOT = M([[1, 0, 0, 0], [0, 1, 0, 0], [0, 0, 0, 1], [0, 0, 1, 0]])
CZ = M([[1, 0, 0, 0], [0, 1, 0, 0], [0, 0, 1, 0], [0, 0, 0, -1]])
CY = M([[1, 0, 0, 0], [0, 1, 0, 0], [ZERO, ZERO, ZERO, -J], [ZERO, ZERO, J, ZERO]])
CH = M([[1, 0, 0, 0], [0, 1, 0, 0], [ZERO, ZERO, ONE / RT2, ONE / RT2], [ZERO, ZERO, ONE / RT2, -ONE / RT2]])
SWAP = M([[1, 0, 0, 0], [0, 0, 1, 0], [0, 1, 0, 0], [0, 0, 0, 1]])
ISWAP = M([[ONE, ZERO, ZERO, ZERO], [ZERO, ZERO, J, ZERO], [ZERO, J, ZERO, ZERO], [ZERO, ZERO, ZERO, ONE]])
SISWAP = M([[ONE, ZERO, ZERO, ZERO], [ZERO, ONE / RT2, J / RT2, ZERO], [ZERO, J / RT2, ONE / RT2, ZERO],
            [ZERO, ZERO, ZERO, ONE]])
ECR = M([[ZERO, ZERO, ONE / RT2, J / RT2], [ZERO, ZERO, J / RT2, ONE / RT2],
         [ONE / RT2, -J / RT2, ZERO, ZERO], [-J / RT2, ONE / RT2, ZERO, ZERO]])

# ---- three-qubit fixed gates ----------------------------------------------------------------------------------------
CSWAP = perm(8, lambda k: {5: 6, 6: 5}.get(k, k))
TOFFOLI = perm(8, lambda k: {6: 7, 7: 6}.get(k, k))
CCZ = M([[(-ONE if (i == j == 7) else ONE) if i == j else ZERO for j in range(8)] for i in range(8)])


# ---- parametrized two-qubit gates -----------------------------------------------------------------------------------
def CRX(p):
    return block_diag(I2, RX(p))


def CRY(p):
    return block_diag(I2, RY(p))


def CRZ(p):
    return block_diag(I2, RZ(p))


def CRot(p, t, w):
    return block_diag(I2, Rot(p, t, w))


def ControlledPhaseShift(p):
    return M([[ONE, ZERO, ZERO, ZERO], [ZERO, ONE, ZERO, ZERO], [ZERO, ZERO, ONE, ZERO], [ZERO, ZERO, ZERO, e(p)]])


def CPhaseShift00(p):
    return M([[e(p), ZERO, ZERO, ZERO], [ZERO, ONE, ZERO, ZERO], [ZERO, ZERO, ONE, ZERO], [ZERO, ZERO, ZERO, ONE]])


def CPhaseShift01(p):
    return M([[ONE, ZERO, ZERO, ZERO], [ZERO, e(p), ZERO, ZERO], [ZERO, ZERO, ONE, ZERO], [ZERO, ZERO, ZERO, ONE]])


def CPhaseShift10(p):
    return M([[ONE, ZERO, ZERO, ZERO], [ZERO, ONE, ZERO, ZERO], [ZERO, ZERO, e(p), ZERO], [ZERO, ZERO, ZERO, ONE]])


def IsingXX(p):
    c, s = cos(p / 2), -J * sin(p / 2)
    return M([[c, ZERO, ZERO, s], [ZERO, c, s, ZERO], [ZERO, s, c, ZERO], [s, ZERO, ZERO, c]])


def IsingYY(p):
    c, s = cos(p / 2), J * sin(p / 2)
    return M([[c, ZERO, ZERO, s], [ZERO, c, -s, ZERO], [ZERO, -s, c, ZERO], [s, ZERO, ZERO, c]])


def IsingZZ(p):
    return M([[e(-p / 2), ZERO, ZERO, ZERO], [ZERO, e(p / 2), ZERO, ZERO], [ZERO, ZERO, e(p / 2), ZERO],
              [ZERO, ZERO, ZERO, e(-p / 2)]])


def IsingXY(p):
    c, s = cos(p / 2), J * sin(p / 2)
    return M([[ONE, ZERO, ZERO, ZERO], [ZERO, c, s, ZERO], [ZERO, s, c, ZERO], [ZERO, ZERO, ZERO, ONE]])


def PSWAP(p):
    return M([[ONE, ZERO, ZERO, ZERO], [ZERO, ZERO, e(p), ZERO], [ZERO, e(p), ZERO, ZERO], [ZERO, ZERO, ZERO, ONE]])


def SingleExcitation(p):
    c, s = cos(p / 2), sin(p / 2)
    return M([[ONE, ZERO, ZERO, ZERO], [ZERO, c, -s, ZERO], [ZERO, s, c, ZERO], [ZERO, ZERO, ZERO, ONE]])


def SingleExcitationMinus(p):
    c, s = cos(p / 2), sin(p / 2)
    return M([[e(-p / 2), ZERO, ZERO, ZERO], [ZERO, c, -s, ZERO], [ZERO, s, c, ZERO], [ZERO, ZERO, ZERO, e(-p / 2)]])


def SingleExcitationPlus(p):
    c, s = cos(p / 2), sin(p / 2)
    return M([[e(p / 2), ZERO, ZERO, ZERO], [ZERO, c, -s, ZERO], [ZERO, s, c, ZERO], [ZERO, ZERO, ZERO, e(p / 2)]])


def FermionicSWAP(p):
    g = e(p / 2)
    c, s = cos(p / 2), sin(p / 2)
    return M([[ONE, ZERO, ZERO, ZERO], [ZERO, g * c, -J * g * s, ZERO], [ZERO, -J * g * s, g * c, ZERO],
              [ZERO, ZERO, ZERO, e(p)]])


# ---- four-qubit excitation gates (documented as maps of basis states) ----------------------------------------------
def _double_excitation(p, outside):
    """|0011> -> cos|0011> + sin|1100>,  |1100> -> cos|1100> - sin|0011>,  |x> -> outside*|x> otherwise
    (basis index of |0011> is 3, of |1100> is 12; column = input state)."""
    c, s = cos(p / 2), sin(p / 2)
    out = M([[ZERO] * 16 for _ in range(16)])
    for k in range(16):
        out[k, k] = outside
    out[3, 3] = c
    out[12, 3] = s
    out[12, 12] = c
    out[3, 12] = -s
    return out


def DoubleExcitation(p):
    return _double_excitation(p, ONE)


def DoubleExcitationPlus(p):
    return _double_excitation(p, e(p / 2))


def DoubleExcitationMinus(p):
    return _double_excitation(p, e(-p / 2))


def on_wires(u, wires, n):
    """embed the matrix u acting on `wires` (its own order, first = most significant) into n qubits (wire 0 most
    significant), by explicit index arithmetic"""
    k = len(wires)
    dim = 2 ** n
    out = M([[ZERO] * dim for _ in range(dim)])
    for col in range(dim):
        bits = [(col >> (n - 1 - w)) & 1 for w in range(n)]
        sub_in = 0
        for w in wires:
            sub_in = (sub_in << 1) | bits[w]
        for sub_out in range(2 ** k):
            a = u[sub_out, sub_in]
            if a.p.is_zero():
                continue
            nb = list(bits)
            for pos, w in enumerate(wires):
                nb[w] = (sub_out >> (k - 1 - pos)) & 1
            row = 0
            for b in nb:
                row = (row << 1) | b
            out[row, col] = out[row, col] + a
    return out


def matmul(a, b):
    n, k = a.shape
    m = b.shape[1]
    out = M([[ZERO] * m for _ in range(n)])
    for i in range(n):
        for r in range(k):
            if a[i, r].p.is_zero():
                continue
            for j in range(m):
                if b[r, j].p.is_zero():
                    continue
                out[i, j] = out[i, j] + a[i, r] * b[r, j]
    return out


def OrbitalRotation(p):
    """Documented through its circuit (docstring figure + text): fSWAP(pi) on wires (1,2), the single-excitation Givens
    rotation G(phi) on (0,1) and on (2,3), fSWAP(pi) on (1,2)."""
    f = on_wires(FermionicSWAP(PI), [1, 2], 4)
    g = matmul(on_wires(SingleExcitation(p), [0, 1], 4), on_wires(SingleExcitation(p), [2, 3], 4))
    return matmul(f, matmul(g, f))


# ---- variable-arity gates -------------------------------------------------------------------------------------------
def GlobalPhase(p, n_wires=1):
    d = 2 ** n_wires
    return M([[e(-p) if i == j else ZERO for j in range(d)] for i in range(d)])


def Identity(n_wires=1):
    return eye(2 ** n_wires)


def MultiRZ(p, n_wires):
    """exp(-i p/2 Z^{(x)n}): diagonal, phase -p/2 on even-parity states and +p/2 on odd-parity states"""
    d = 2 ** n_wires
    return M([[(e(-p / 2) if bin(i).count("1") % 2 == 0 else e(p / 2)) if i == j else ZERO for j in range(d)]
              for i in range(d)])


_PAULI = {"I": I2, "X": X, "Y": Y, "Z": Z}


def pauli_word(word):
    m = _PAULI[word[0]]
    for ch in word[1:]:
        m = kron(m, _PAULI[ch])
    return m


def PauliRot(p, word):
    """exp(-i p/2 P) = cos(p/2) I - i sin(p/2) P   (P^2 = I)"""
    P = pauli_word(word)
    d = P.shape[0]
    c, s = cos(p / 2), -J * sin(p / 2)
    if set(word) == {"I"}:
        # exp(-i p/2 I)
        return M([[e(-p / 2) if i == j else ZERO for j in range(d)] for i in range(d)])
    return M([[(c if i == j else ZERO) + s * P[i, j] for j in range(d)] for i in range(d)])


def MultiControlledX(n_ctrl, control_values):
    """X on the last wire iff the control wires (first n_ctrl, most significant) hold control_values"""
    n = n_ctrl + 1
    cv = 0
    for b in control_values:
        cv = (cv << 1) | int(b)

    def mp(k):
        return k ^ 1 if (k >> 1) == cv else k
    return perm(2 ** n, mp)


def PCPhase(p, dim, n_wires):
    d = 2 ** n_wires
    return M([[(e(p) if i < dim else e(-p)) if i == j else ZERO for j in range(d)] for i in range(d)])


REF = {
    # name: (n_params, n_wires, builder)
    "Identity": (0, 1, lambda: I2), "I": (0, 1, lambda: I2),
    "PauliX": (0, 1, lambda: X), "X": (0, 1, lambda: X),
    "PauliY": (0, 1, lambda: Y), "Y": (0, 1, lambda: Y),
    "PauliZ": (0, 1, lambda: Z), "Z": (0, 1, lambda: Z),
    "Hadamard": (0, 1, lambda: H), "H": (0, 1, lambda: H),
    "S": (0, 1, lambda: S), "T": (0, 1, lambda: T), "SX": (0, 1, lambda: SX),
    "CNOT": (0, 2, lambda: CNOT), "CZ": (0, 2, lambda: CZ), "CY": (0, 2, lambda: CY), "CH": (0, 2, lambda: CH),
    "SWAP": (0, 2, lambda: SWAP), "ISWAP": (0, 2, lambda: ISWAP), "SISWAP": (0, 2, lambda: SISWAP),
    "SQISW": (0, 2, lambda: SISWAP), "ECR": (0, 2, lambda: ECR),
    "CSWAP": (0, 3, lambda: CSWAP), "Toffoli": (0, 3, lambda: TOFFOLI), "CCZ": (0, 3, lambda: CCZ),
    "RX": (1, 1, RX), "RY": (1, 1, RY), "RZ": (1, 1, RZ), "PhaseShift": (1, 1, PhaseShift), "U1": (1, 1, PhaseShift),
    "U2": (2, 1, U2), "U3": (3, 1, U3), "Rot": (3, 1, Rot),
    "CRX": (1, 2, CRX), "CRY": (1, 2, CRY), "CRZ": (1, 2, CRZ), "CRot": (3, 2, CRot),
    "ControlledPhaseShift": (1, 2, ControlledPhaseShift), "CPhase": (1, 2, ControlledPhaseShift),
    "CPhaseShift00": (1, 2, CPhaseShift00), "CPhaseShift01": (1, 2, CPhaseShift01),
    "CPhaseShift10": (1, 2, CPhaseShift10),
    "IsingXX": (1, 2, IsingXX), "IsingYY": (1, 2, IsingYY), "IsingZZ": (1, 2, IsingZZ), "IsingXY": (1, 2, IsingXY),
    "PSWAP": (1, 2, PSWAP),
    "SingleExcitation": (1, 2, SingleExcitation), "SingleExcitationMinus": (1, 2, SingleExcitationMinus),
    "SingleExcitationPlus": (1, 2, SingleExcitationPlus), "FermionicSWAP": (1, 2, FermionicSWAP),
    "DoubleExcitation": (1, 4, DoubleExcitation), "DoubleExcitationPlus": (1, 4, DoubleExcitationPlus),
    "DoubleExcitationMinus": (1, 4, DoubleExcitationMinus), "OrbitalRotation": (1, 4, OrbitalRotation),
}
