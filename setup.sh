#!/bin/bash
# Build the overlay interpreter used by every check: python 3.12 venv with z3-solver, cvc5,
# jsonschema (+deal/crosshair for bounded stand-ins) from the offline wheelhouse, plus a .pth
# that exposes /venv's site-packages (pennylane editable install -> /repo, numpy, sympy ...).
# Idempotent; offline; nothing under /tmp.
set -e
cd "$(dirname "$0")"
V=.venv
WH=/opt/veriftools/wheels
if [ ! -x "$V/bin/python" ] || ! "$V/bin/python" -c "import z3, jsonschema, pennylane, sympy" 2>/dev/null; then
  rm -rf "$V"
  /venv/bin/python -m venv "$V"
  export PIP_NO_INDEX=1 PIP_DISABLE_PIP_VERSION_CHECK=1
  "$V/bin/pip" install -q --no-index --find-links "$WH" --no-deps \
      z3-solver cvc5 jsonschema attrs referencing rpds_py jsonschema_specifications typing_extensions
  # optional tools for bounded stand-ins; failure to install them is not fatal
  "$V/bin/pip" install -q --no-index --find-links "$WH" --no-deps \
      deal crosshair-tool typeshed_client importlib_metadata zipp packaging typing_inspect mypy_extensions pygls lsprotocol cattrs 2>/dev/null || true
  SP=$("$V/bin/python" -c "import sysconfig; print(sysconfig.get_paths()['purelib'])")
  echo "import site; site.addsitedir('/venv/lib/python3.12/site-packages')" > "$SP/zz_venv_overlay.pth"
fi
"$V/bin/python" -c "import z3, jsonschema, pennylane, sympy, numpy; print('overlay ok: z3', z3.get_version_string(), 'pennylane', pennylane.__version__, 'numpy', numpy.__version__)"
mkdir -p evidence replays
