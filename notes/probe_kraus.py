import sys; sys.path.insert(0,'/tmp/exp')
exec(open('/verif/notes/probe_sym_scalar.py').read().split("def sym(name)")[0])
def sym(name, **kw): return S(sp.Symbol(name, real=True, **kw))
# domain oracle for the probe: every comparison the channel makes is its domain guard -> answer "inside the domain"
LOG=[]
def _cmp(opname, truth):
    def f(s,o):
        LOG.append((opname, str(s.e), str(getattr(o,'e',o)))); return truth
    return f
S.__le__=_cmp("<=",True); S.__ge__=_cmp(">=",True); S.__lt__=_cmp("<",False); S.__gt__=_cmp(">",False)
import pennylane as qp
from pennylane.ops import channel as ch
eps = sp.Symbol("eps", positive=True)
EPSV = ch._SQRT_STABILITY_EPS
print("eps in module:", EPSV)
cases = {
 "AmplitudeDamping": lambda: qp.AmplitudeDamping.compute_kraus_matrices(sym("g", positive=True)),
 "GeneralizedAmplitudeDamping": lambda: qp.GeneralizedAmplitudeDamping.compute_kraus_matrices(sym("g", positive=True), sym("p", positive=True)),
 "PhaseDamping": lambda: qp.PhaseDamping.compute_kraus_matrices(sym("g", positive=True)),
 "DepolarizingChannel": lambda: qp.DepolarizingChannel.compute_kraus_matrices(sym("p", positive=True)),
 "BitFlip": lambda: qp.BitFlip.compute_kraus_matrices(sym("p", positive=True)),
 "PhaseFlip": lambda: qp.PhaseFlip.compute_kraus_matrices(sym("p", positive=True)),
 "ResetError": lambda: qp.ResetError.compute_kraus_matrices(sym("p", positive=True), sym("q", positive=True)),
 "PauliError": lambda: qp.PauliError.compute_kraus_matrices("XY", sym("p", positive=True)),
}
for name, f in cases.items():
    LOG.clear()
    try:
        K = f()
        tot = None
        for k in K:
            k = np.asarray(k, dtype=object)
            kk = np.conj(k).T @ k
            tot = kk if tot is None else tot + kk
        n = tot.shape[0]
        dev = [[sp.simplify(sp.nsimplify(getattr(tot[i,j],'e',tot[i,j]) - (1 if i==j else 0), [sp.Float(EPSV)], rational=False).subs(sp.Float(EPSV), eps)) for j in range(n)] for i in range(n)]
        flat = [x for row in dev for x in row]
        print(f"{name:28s} nK={len(K)} max deviation entries: {sorted(set(map(str,flat)))[:6]}  guards asked: {len(LOG)}")
    except Exception as e:
        import traceback; tb=traceback.extract_tb(e.__traceback__)[-1]
        print(f"{name:28s} FAIL {type(e).__name__}: {str(e)[:90]} @ {tb.filename.split('/')[-1]}:{tb.lineno}")
