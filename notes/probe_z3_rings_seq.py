import z3, time
def mul(x, y):
    a,b,c,d = x; _a,_b,_c,_d = y
    return (a*_d + b*_c + c*_b + d*_a, b*_d + c*_c + d*_b - a*_a, c*_d + d*_c - a*_b - b*_a, d*_d - a*_c - b*_b - c*_a)
def absw(x):
    a,b,c,d = x
    return (a*a+b*b+c*c+d*d)*(a*a+b*b+c*c+d*d) - 2*(a*b+b*c+c*d-d*a)*(a*b+b*c+c*d-d*a)
X = z3.Ints("a b c d"); Y = z3.Ints("e f g h"); Z = z3.Ints("i j k l")
for name, goal in [
  ("assoc", z3.And(*[p == q for p,q in zip(mul(mul(X,Y),Z), mul(X,mul(Y,Z)))])),
  ("comm", z3.And(*[p == q for p,q in zip(mul(X,Y), mul(Y,X))])),
  ("abs-mult", absw(mul(X,Y)) == absw(X)*absw(Y)),
  ("wrong", z3.And(*[p == q for p,q in zip(mul(X,Y), (mul(X,Y)[0], mul(X,Y)[1]+2*X[0]*Y[0], mul(X,Y)[2], mul(X,Y)[3]))])),
]:
    s = z3.Solver(); s.set("timeout", 60000); s.add(z3.Not(goal)); t=time.time(); r = s.check(); print(name, r, round(time.time()-t,2), s.model() if r==z3.sat else "")
# Seq + rec function sanity
Pair = z3.Datatype("Pair"); Pair.declare("mk", ("sh", z3.IntSort()), ("cp", z3.IntSort())); Pair = Pair.create()
IS = z3.SeqSort(z3.IntSort())
rep = z3.RecFunction("rep", z3.IntSort(), z3.IntSort(), IS)
a_, c_ = z3.Ints("a_ c_")
z3.RecAddDefinition(rep, [a_, c_], z3.If(c_ <= 0, z3.Empty(IS), z3.Concat(rep(a_, c_-1), z3.Unit(a_))))
E, EX = z3.Consts("E EX", IS); cs, cc, s1 = z3.Ints("cs cc s1")
L2 = rep(cs, cc+s1) == z3.Concat(rep(cs,cc), rep(cs,s1))
s = z3.Solver(); s.set("timeout", 30000)
s.add(cc >= 1, s1 >= 1, z3.Concat(E, rep(cs,cc)) == EX, L2)
s.add(z3.Not(z3.Concat(E, rep(cs, cc+s1)) == z3.Concat(EX, rep(cs, s1))))
t=time.time(); print("merge-branch VC", s.check(), round(time.time()-t,2))
# induction step for L2: assume L2(s1), prove L2(s1+1)
s = z3.Solver(); s.set("timeout", 30000)
s.add(cc >= 0, s1 >= 0, L2)
s.add(z3.Not(rep(cs, cc+s1+1) == z3.Concat(rep(cs,cc), rep(cs,s1+1))))
t=time.time(); print("L2 induction step", s.check(), round(time.time()-t,2))
