import os; exec(open(os.path.join(os.path.dirname(os.path.abspath(__file__)), 'probe_sym_scalar.py')).read().split("def sym(name)")[0])
def sym(name, **kw): return S(sp.Symbol(name, real=True, **kw))
import pennylane as qp
from pennylane.decomposition.utils import _get_decomp_args
from pennylane.core.operator import Operator1
def mk(kind, a, b, c, z):
    return {
 "C(RX)": lambda: qp.ctrl(qp.RX(a,0), control=[1,2]),
 "Pow(RX)": lambda: qp.pow(qp.RX(a,0), z, lazy=True),
 "Adjoint(RX)": lambda: qp.adjoint(qp.RX(a,0), lazy=True),
 "C(Rot)": lambda: qp.ctrl(qp.Rot(a,b,c,0), control=[1,2], control_values=[0,1]),
 "MultiRZ": lambda: qp.MultiRZ(a, wires=[0,1,2]),
 "PauliRot": lambda: qp.PauliRot(a, "XYZ", wires=[0,1,2]),
 "IsingXY": lambda: qp.IsingXY(a, wires=[0,1]),
 "U3": lambda: qp.U3(a,b,c,0),
 "CRot": lambda: qp.CRot(a,b,c,wires=[0,1]),
 "Toffoli": lambda: qp.Toffoli(wires=[0,1,2]),
    }[kind]()
for name in ["C(RX)","Pow(RX)","Adjoint(RX)","C(Rot)","MultiRZ","PauliRot","IsingXY","U3","CRot","Toffoli"]:
    try:
        twin = mk(name, 0.3, 0.4, 0.5, 2.0)
        symop = mk(name, sym("a"), sym("b"), sym("c"), sym("z"))
        params, _, _ = _get_decomp_args(twin)
        if isinstance(symop, Operator1): args, kwargs = symop.data, {"wires": symop.wires, **symop.hyperparameters}
        else: args, kwargs = (), symop.arguments
        rules = qp.list_decomps(twin)
        print(name, type(symop).__name__, len(rules), "rules")
        for r in rules:
            try:
                if not r.is_applicable(**params): print("    ", r.name, "n/a"); continue
                with qp.queuing.AnnotatedQueue() as q: r(*args, **kwargs)
                print("    ", r.name, "->", [str(o)[:38] for o in q.queue][:6], "| declared", sum(r.compute_resources(**params).gate_counts.values()), "emitted", len(q.queue))
            except Exception as e:
                import traceback; tb = traceback.extract_tb(e.__traceback__)[-1]
                print("     FAIL", r.name, type(e).__name__, str(e)[:90], "@", tb.filename.split('/')[-1], tb.lineno)
    except Exception as e:
        import traceback; tb = traceback.extract_tb(e.__traceback__)[-1]
        print(name, "FAIL", type(e).__name__, str(e)[:120], "@", tb.filename.split('/')[-1], tb.lineno)
