"""Throw-away micro-prototype of the E1 idea (NOT the framework): extract one real method from
/repo with `ast`, execute it symbolically path by path into z3 terms, check a sidecar
postcondition, and replay a counter-model on the real class.  Handles only what
`ZSqrtTwo.__mul__` / `ZSqrtTwo.__abs__` / `ZOmega.conj` need: isinstance dispatch on a record tag,
attribute reads, integer arithmetic, constructor calls, return, raise.
Usage: python probe_e1_micro.py [path-to-rings.py]   (default: /repo/.../rings.py)"""
import ast, sys, z3, importlib.util, time
PATH = sys.argv[1] if len(sys.argv) > 1 else "/repo/pennylane/ops/op_math/decompositions/rings.py"
tree = ast.parse(open(PATH).read())
def find(qual):
    cls, meth = qual.split(".")
    for n in tree.body:
        if isinstance(n, ast.ClassDef) and n.name == cls:
            for m in n.body:
                if isinstance(m, ast.FunctionDef) and m.name == meth: return m
    raise KeyError(qual)
FIELDS = {"ZSqrtTwo": ("a", "b"), "ZOmega": ("a", "b", "c", "d")}
class Rec:                      # symbolic record of a known class
    def __init__(s, cls, vals): s.cls, s.vals = cls, dict(zip(FIELDS[cls], vals))
class SymInt:                   # symbolic python int
    def __init__(s, t): s.t = t
class Raise(Exception):
    def __init__(s, exc): s.exc = exc
class Return(Exception):
    def __init__(s, v): s.v = v
def ev(e, env):
    if isinstance(e, ast.Name): return env[e.id]
    if isinstance(e, ast.Constant): return SymInt(z3.IntVal(e.value)) if isinstance(e.value, int) else e.value
    if isinstance(e, ast.Attribute):
        o = ev(e.value, env); return SymInt(o.vals[e.attr])
    if isinstance(e, ast.UnaryOp) and isinstance(e.op, ast.USub): return SymInt(-ev(e.operand, env).t)
    if isinstance(e, ast.BinOp):
        l, r = ev(e.left, env).t, ev(e.right, env).t
        if isinstance(e.op, ast.Add): return SymInt(l + r)
        if isinstance(e.op, ast.Sub): return SymInt(l - r)
        if isinstance(e.op, ast.Mult): return SymInt(l * r)
        if isinstance(e.op, ast.Pow) and isinstance(e.right, ast.Constant) and e.right.value == 2: return SymInt(l * l)
    if isinstance(e, ast.Call) and isinstance(e.func, ast.Name):
        if e.func.id in FIELDS: return Rec(e.func.id, [ev(a, env).t for a in e.args])
        if e.func.id == "int": return ev(e.args[0], env)            # int() of an int
        if e.func.id == "isinstance":
            o = ev(e.args[0], env); names = [n.id for n in (e.args[1].elts if isinstance(e.args[1], ast.Tuple) else [e.args[1]])]
            return (isinstance(o, Rec) and o.cls in names) or (isinstance(o, SymInt) and "int" in names)
        if e.func.id in ("TypeError", "ValueError"): return e.func.id
    if isinstance(e, ast.BoolOp):                       # short-circuit, concrete (tag-level) operands only
        for v in e.values:
            val = ev(v, env)
            if not isinstance(val, bool): raise NotImplementedError("symbolic boolean operand")
            if isinstance(e.op, ast.Or) and val: return True
            if isinstance(e.op, ast.And) and not val: return False
        return isinstance(e.op, ast.And)
    if isinstance(e, ast.JoinedStr): return "<msg>"
    raise NotImplementedError(ast.dump(e)[:80])
def run(fn, env):
    try:
        for st in fn.body:
            if isinstance(st, ast.Expr) and isinstance(st.value, ast.Constant): continue   # docstring
            step(st, env)
    except Return as r: return ("return", r.v)
    except Raise as r: return ("raise", r.exc)
    return ("return", None)
def step(st, env):
    if isinstance(st, ast.Return): raise Return(ev(st.value, env))
    if isinstance(st, ast.Raise): raise Raise(ev(st.exc, env) if not isinstance(st.exc, ast.Call) else st.exc.func.id)
    if isinstance(st, ast.If):
        c = ev(st.test, env)
        if not isinstance(c, bool): raise NotImplementedError("symbolic branch")   # micro-prototype: only tag-level branches
        for s in (st.body if c else st.orelse): step(s, env)
        return
    if isinstance(st, ast.Assign) and isinstance(st.targets[0], ast.Name): env[st.targets[0].id] = ev(st.value, env); return
    if isinstance(st, ast.Assign) and isinstance(st.targets[0], ast.Tuple):
        vals = st.value.elts; 
        for t, v in zip(st.targets[0].elts, vals): env[t.id] = ev(v, env)
        return
    raise NotImplementedError(ast.dump(st)[:80])
# ---- sidecar contract (spec written from x^2 = 2, independently of the code) -----------------
def spec_mul2(x, y): return (x[0]*y[0] + 2*x[1]*y[1], x[0]*y[1] + x[1]*y[0])
def obligations():
    a, b, e, f, k = z3.Ints("a b e f k")
    fn = find("ZSqrtTwo.__mul__")
    out = []
    # path 1: other is ZSqrtTwo
    kind, res = run(fn, {"self": Rec("ZSqrtTwo", [a, b]), "other": Rec("ZSqrtTwo", [e, f])})
    exp = spec_mul2((a, b), (e, f))
    out.append(("C16/rings:ZSqrtTwo.__mul__/post#ZSqrtTwo", kind == "return" and z3.And(res.vals["a"] == exp[0], res.vals["b"] == exp[1]), [a, b, e, f],
                lambda m, R: (R.ZSqrtTwo(m[a], m[b]) * R.ZSqrtTwo(m[e], m[f]), spec_mul2((m[a], m[b]), (m[e], m[f])))))
    # path 2: other is int
    kind, res = run(fn, {"self": Rec("ZSqrtTwo", [a, b]), "other": SymInt(k)})
    out.append(("C16/rings:ZSqrtTwo.__mul__/post#int", kind == "return" and z3.And(res.vals["a"] == a*k, res.vals["b"] == b*k), [a, b, k],
                lambda m, R: (R.ZSqrtTwo(m[a], m[b]) * m[k], (m[a]*m[k], m[b]*m[k]))))
    # lemma over the contract: norm is multiplicative
    n = lambda x: x[0]*x[0] - 2*x[1]*x[1]
    out.append(("C16/ZSqrtTwo/lemma:abs-multiplicative", n(spec_mul2((a, b), (e, f))) == n((a, b))*n((e, f)), [a, b, e, f], None))
    return out
spec = importlib.util.spec_from_file_location("rings_under_test", PATH); R = importlib.util.module_from_spec(spec); spec.loader.exec_module(R)
bad = 0
for name, goal, vars_, replay in obligations():
    t = time.time(); s = z3.Solver(); s.set("timeout", 10000)
    if goal is False: print("REFUTED (path did not return)", name); bad += 1; continue
    s.add(z3.Not(goal)); r = s.check()
    if r == z3.unsat: print(f"discharged  {name}  [{time.time()-t:.2f}s]")
    elif r == z3.sat:
        m = {v: s.model().eval(v, model_completion=True).as_long() for v in vars_}
        got, want = replay(m, R) if replay else (None, None)
        got = (got.a, got.b) if got is not None else None
        print(f"REFUTED     {name}  model={ {str(k): v for k, v in m.items()} }  replay on real code: got={got} expected={want} -> {'VIOLATION confirmed' if got != want else 'spurious (engine fault)'}"); bad += 1
    else: print("undecided  ", name)
sys.exit(1 if bad else 0)
