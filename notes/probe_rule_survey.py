import os, sys, re, time, traceback, collections
exec(open('/verif/notes/probe_sym_scalar.py').read().split("def sym(name)")[0])
def sym(name, **kw): return S(sp.Symbol(name, real=True, **kw))
import pennylane as qp
from pennylane.decomposition import decomposition_rule as dr
from pennylane.decomposition.utils import _get_decomp_args
from pennylane.core.operator import Operator1
reg = dr._decompositions_private
def find_cls(name):
    for mod in (qp, qp.ops, qp.templates, qp.ops.op_math):
        if hasattr(mod, name): return getattr(mod, name)
    return None
def build(name, P):
    """P: function i -> parameter value (float or Sym)."""
    m = re.fullmatch(r"(Adjoint|Pow|C)\((\w+)\)", name)
    if m:
        kind, base = m.groups()
        b = build(base, P)
        if b is None: return None
        nw = len(b.wires)
        if kind == "Adjoint": return qp.adjoint(b, lazy=True)
        if kind == "Pow": return qp.pow(b, P(9), lazy=True)
        return qp.ops.op_math.Controlled(b, control_wires=[nw, nw+1], control_values=[1, 0]) if False else qp.ctrl(b, control=[nw, nw+1], control_values=[True, False])
    cls = find_cls(name)
    if cls is None: return None
    nw = getattr(cls, "num_wires", None)
    if not isinstance(nw, int): return None
    npar = getattr(cls, "num_params", 0)
    if not isinstance(npar, int): return None
    try:
        return cls(*[P(i) for i in range(npar)], wires=list(range(nw)))
    except Exception:
        return None
stats = collections.Counter(); details = []
t0 = time.time()
for name in sorted(reg):
    try:
        twin = build(name, lambda i: 0.3 + 0.1*i)
    except Exception as e:
        twin = None
    if twin is None:
        stats["no-generic-instance"] += len(reg[name]); continue
    try:
        symop = build(name, lambda i: sym("p%d" % i))
        params, _, _ = _get_decomp_args(twin)
        if isinstance(symop, Operator1): args, kwargs = symop.data, {"wires": symop.wires, **symop.hyperparameters}
        else: args, kwargs = (), symop.arguments
        rules = qp.list_decomps(twin)
    except Exception as e:
        stats["instance-ok-but-setup-failed"] += len(reg[name]); details.append((name, "setup", type(e).__name__, str(e)[:80])); continue
    for r in rules:
        try:
            if not r.is_applicable(**params): stats["not-applicable"] += 1; continue
            with qp.queuing.AnnotatedQueue() as q: r(*args, **kwargs)
            stats["traced"] += 1
        except Exception as e:
            stats["trace-failed"] += 1; tb = traceback.extract_tb(e.__traceback__)[-1]
            details.append((name, r.name, type(e).__name__, str(e)[:70], tb.filename.split('/')[-1], tb.lineno))
print(dict(stats), "total rules", sum(len(v) for v in reg.values()), "time", round(time.time()-t0,1))
for d in details: print(d)
