import numpy as np, sympy as sp, autoray
import pennylane as qp

class S:
    __array_priority__ = 1000
    def __init__(self, e): self.e = sp.sympify(e)
    @staticmethod
    def _w(o):
        if isinstance(o, S): return o.e
        if isinstance(o, np.ndarray):
            if o.ndim == 0: return S._w(o[()])
            return NotImplemented
        if isinstance(o, (np.floating, np.integer, np.complexfloating)): o = o.item()
        if isinstance(o, float): return sp.nsimplify(o, rational=True) if o == round(o, 6) else sp.Float(o)
        if isinstance(o, complex): return S._w(o.real) + sp.I*S._w(o.imag)
        return sp.sympify(o)
    def _bin(s, o, f):
        w = S._w(o)
        if w is NotImplemented: return NotImplemented
        return S(f(s.e, w))
    def __add__(s,o): return s._bin(o, lambda a,b: a+b)
    __radd__ = __add__
    def __sub__(s,o): return s._bin(o, lambda a,b: a-b)
    def __rsub__(s,o): return s._bin(o, lambda a,b: b-a)
    def __mul__(s,o): return s._bin(o, lambda a,b: a*b)
    __rmul__ = __mul__
    def __truediv__(s,o): return s._bin(o, lambda a,b: a/b)
    def __rtruediv__(s,o): return s._bin(o, lambda a,b: b/a)
    def __neg__(s): return S(-s.e)
    def __pow__(s,o): return s._bin(o, lambda a,b: a**b)
    def cos(s): return S(sp.cos(s.e))
    def sin(s): return S(sp.sin(s.e))
    def exp(s): return S(sp.exp(s.e))
    def sqrt(s): return S(sp.sqrt(s.e))
    def conjugate(s): return S(sp.conjugate(s.e))
    conj = conjugate
    @property
    def real(s): return S(sp.re(s.e))
    @property
    def imag(s): return S(sp.im(s.e))
    ndim = 0; shape = (); dtype = np.dtype("float64"); size=1
    def __bool__(s): raise TypeError("branch on symbolic value")
    def __float__(s): raise TypeError("float() of symbolic value")
    def __complex__(s): raise TypeError("complex() of symbolic value")
    def __int__(s): raise TypeError("int() of symbolic value")
    def __repr__(s): return f"S({s.e})"
autoray.register_backend(S, "numpy")

def sym(name): return S(sp.Symbol(name, real=True))

ok=fail=0
import inspect
cands = [qp.RX,qp.RY,qp.RZ,qp.PhaseShift,qp.Rot,qp.U1,qp.U2,qp.U3,qp.CRX,qp.CRY,qp.CRZ,qp.CRot,qp.ControlledPhaseShift,qp.CPhaseShift00,qp.CPhaseShift01,qp.CPhaseShift10,qp.IsingXX,qp.IsingYY,qp.IsingZZ,qp.IsingXY,qp.PSWAP,qp.SingleExcitation,qp.SingleExcitationPlus,qp.SingleExcitationMinus,qp.DoubleExcitation,qp.DoubleExcitationPlus,qp.DoubleExcitationMinus,qp.OrbitalRotation,qp.FermionicSWAP,qp.GlobalPhase]
for cls in cands:
    n = cls.num_params
    try:
        ps=[sym(x) for x in "abc"[:n]]
        kw = {"n_wires":1} if cls is qp.GlobalPhase else {}
        m = cls.compute_matrix(*ps, **kw)
        m = np.asarray(m, dtype=object)
        print("OK  ", cls.__name__, m.shape); ok+=1
    except Exception as e:
        import traceback
        tb = traceback.extract_tb(e.__traceback__)[-1]
        print("FAIL", cls.__name__, type(e).__name__, str(e)[:100], "@", tb.filename.split('/')[-1], tb.lineno); fail+=1
print(ok, fail)
# operator construction + decomposition with symbolic parameter
try:
    op = qp.RX(sym("a"), wires=0)
    print(op, op.matrix())
    print(qp.CRX(sym("a"), wires=[0,1]).decomposition())
    print(qp.Rot(sym("a"),sym("b"),sym("c"), wires=0).decomposition())
except Exception as e:
    import traceback; traceback.print_exc()
try:
    for r in qp.list_decomps(qp.CRX):
        with qp.queuing.AnnotatedQueue() as q:
            r(sym("a"), wires=[0,1])
        print(r.name, q.queue)
    for r in qp.list_decomps(qp.Rot):
        with qp.queuing.AnnotatedQueue() as q:
            r(sym("a"),sym("b"),sym("c"), wires=[0])
        print(r.name, q.queue)
    print(qp.matrix(qp.CRX(sym("a"), wires=[0,1]), wire_order=[1,0]))
    print(qp.generator(qp.RX(sym("a"),0)))
    print(qp.gradients.parameter_frequencies(qp.RX(sym("a"),0)), qp.adjoint(qp.RX(sym("a"),0)))
    print(qp.matrix(qp.adjoint(qp.RX(sym("a"),0))))
    print(qp.matrix(qp.ctrl(qp.RX(sym("a"),0), control=[1,2])).shape)
    print(qp.matrix(qp.prod(qp.RX(sym("a"),0), qp.RY(sym("b"),0))))
except Exception as e:
    import traceback; traceback.print_exc()
