import sys; sys.path.insert(0,'/tmp/exp')
exec(open('/verif/notes/probe_sym_scalar.py').read().split("def sym(name)")[0])
import pennylane as qp
from pennylane.operation import Operation
class GenericOp(Operation):
    """real Operator subclass whose matrix is a generic symbolic 2^n x 2^n matrix"""
    num_params = 0
    def __init__(self, wires, tag="b"):
        self._tag = tag
        super().__init__(wires=wires)
        self._hyperparameters = {"tag": tag}
    @staticmethod
    def compute_matrix(tag="b", n=None):
        raise NotImplementedError
    def matrix(self, wire_order=None):
        n = 2**len(self.wires)
        M = np.empty((n,n), dtype=object)
        for i in range(n):
            for j in range(n): M[i,j] = S(sp.Symbol(f"{self._tag}{i}{j}"))
        if wire_order is None or list(wire_order)==list(self.wires): return M
        return qp.math.expand_matrix(M, self.wires, wire_order)
    @property
    def has_matrix(self): return True
g = GenericOp(wires=[0], tag="b"); h = GenericOp(wires=[1], tag="c"); g2 = GenericOp(wires=[0,1], tag="d")
tests = {
 "adjoint": lambda: qp.matrix(qp.adjoint(g)),
 "pow2": lambda: qp.matrix(qp.pow(g, 2)),
 "sprod": lambda: qp.matrix(qp.s_prod(S(sp.Symbol("k")), g)),
 "prod same wire": lambda: qp.matrix(qp.prod(g, GenericOp(wires=[0], tag="c"))),
 "prod diff wires": lambda: qp.matrix(qp.prod(g, h), wire_order=[0,1]),
 "sum": lambda: qp.matrix(qp.sum(g, h), wire_order=[0,1]),
 "ctrl": lambda: qp.matrix(qp.ctrl(g, control=1), wire_order=[1,0]),
 "ctrl cv0": lambda: qp.matrix(qp.ctrl(g, control=1, control_values=[0]), wire_order=[1,0]),
 "expand perm": lambda: qp.matrix(g2, wire_order=[1,0]),
 "map_wires": lambda: qp.matrix(qp.map_wires(g2, {0:"a",1:"b"}), wire_order=["b","a"]),
 "nested": lambda: qp.matrix(qp.adjoint(qp.prod(qp.ctrl(g, control=1), qp.s_prod(2.0, h))), wire_order=[1,0]),
}
for k,f in tests.items():
    try:
        M = np.asarray(f(), dtype=object)
        print(k, M.shape, "sample entry:", M.flat[1] if M.size>1 else M)
    except Exception as e:
        import traceback; tb=traceback.extract_tb(e.__traceback__)[-1]
        print(k, "FAIL", type(e).__name__, str(e)[:100], "@", tb.filename.split('/')[-1], tb.lineno)
