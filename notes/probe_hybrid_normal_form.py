import sys, time; sys.path.insert(0,'/tmp/exp')
exec(open('/verif/notes/probe_sym_scalar.py').read().split("def sym(name)")[0])
import pennylane as qp
from pennylane.decomposition.utils import _get_decomp_args
from pennylane.core.operator import Operator1
UNIT=16
syms = [sp.Symbol("p%d"%i, real=True) for i in range(3)]
def sym(i): return S(syms[i])
class LP:
    __slots__=("d",)
    def __init__(s,d): s.d={k:v for k,v in d.items() if v!=0}
    def __add__(s,o):
        if not isinstance(o,LP): o=LP({(0,0,0):o}) if o!=0 else LP({})
        d=dict(s.d)
        for k,v in o.d.items(): d[k]=d.get(k,0)+v
        return LP(d)
    __radd__=__add__
    def __neg__(s): return LP({k:-v for k,v in s.d.items()})
    def __sub__(s,o): return s+(-o if isinstance(o,LP) else LP({(0,0,0):-o}))
    def __mul__(s,o):
        if not isinstance(o,LP): return LP({k:v*o for k,v in s.d.items()})
        d={}
        for k1,v1 in s.d.items():
            for k2,v2 in o.d.items():
                k=(k1[0]+k2[0],k1[1]+k2[1],k1[2]+k2[2]); d[k]=d.get(k,0)+v1*v2
        return LP(d)
    __rmul__=__mul__
    def iszero(s): return all(sp.simplify(v)==0 for v in s.d.values())
def to_lp(x):
    e = x.e if isinstance(x,S) else sp.sympify(x)
    e = sp.expand(sp.nsimplify(e, rational=True, tolerance=1e-15).rewrite(sp.exp))
    d={}
    for term in sp.Add.make_args(e):
        coeff, expo = term.as_independent(*syms) if term.free_symbols else (term, sp.Integer(1))
        k=[0,0,0]
        if expo != 1:
            for f in sp.Mul.make_args(expo):
                b, p = f.as_base_exp()
                assert b == sp.E or isinstance(f, sp.exp), (f, term)
                arg = sp.expand(f.args[0] if isinstance(f, sp.exp) else p)
                for i,sv in enumerate(syms):
                    c = arg.coeff(sv)
                    if c != 0:
                        q = sp.nsimplify(c/sp.I*UNIT); assert q.is_integer, (c, f); k[i]+=int(q)
                rest = arg - sum(arg.coeff(sv)*sv for sv in syms)
                if rest != 0: coeff = coeff*sp.exp(rest)
        d[tuple(k)] = d.get(tuple(k),0)+coeff
    return LP({k: sp.nsimplify(v) for k,v in d.items()})
def mat_lp(op, wo):
    m = np.asarray(qp.matrix(op, wire_order=wo), dtype=object)
    out = np.empty(m.shape, dtype=object)
    for idx, x in np.ndenumerate(m): out[idx] = to_lp(x)
    return out
def check(name, mk, wo):
    twin, symop = mk(lambda i: 0.3+0.1*i), mk(sym)
    params,_,_ = _get_decomp_args(twin)
    if isinstance(symop, Operator1): args, kwargs = symop.data, {"wires": symop.wires, **symop.hyperparameters}
    else: args, kwargs = (), symop.arguments
    t=time.time(); target = mat_lp(symop, wo); t_target=time.time()-t
    for r in qp.list_decomps(twin):
        if not r.is_applicable(**params): continue
        t=time.time()
        with qp.queuing.AnnotatedQueue() as q: r(*args, **kwargs)
        mats=[mat_lp(o, wo) for o in q.queue]; t1=time.time()-t
        M = mats[0]
        for m in mats[1:]: M = m @ M
        D = M - target
        nz = sum(0 if x.iszero() else 1 for x in D.flat); 
        print(f"{name:18s} {r.name:28s} gates={len(q.queue):3d} dim={2**len(wo):2d} differing_entries={nz} trace+convert={t1:.1f}s total={time.time()-t:.1f}s (target {t_target:.1f}s)")
for name, mk, wo in [
  ("CRot", lambda p: qp.CRot(p(0),p(1),p(2), wires=[0,1]), [0,1]),
  ("DoubleExcitation", lambda p: qp.DoubleExcitation(p(0), wires=[0,1,2,3]), [0,1,2,3]),
  ("OrbitalRotation", lambda p: qp.OrbitalRotation(p(0), wires=[0,1,2,3]), [0,1,2,3]),
]:
    try: check(name, mk, wo)
    except Exception as e:
        import traceback; traceback.print_exc(limit=4)
