import numpy as np, pennylane as qp
# (a) ControlledQubitUnitary cannot be rebound
op = qp.ControlledQubitUnitary(np.array([[0, 1], [1, 0]], dtype=complex), wires=[0, 1])
try:
    print(qp.ops.functions.bind_new_parameters(op, [np.eye(2, dtype=complex)]))
except Exception as e:
    print("bind_new_parameters(ControlledQubitUnitary):", type(e).__name__, e)
# (b) Conditional does not survive flatten/unflatten
c = qp.ops.Conditional(qp.measure(0), qp.RX(0.3, 1))
try:
    print(type(c)._unflatten(*c._flatten()))
except Exception as e:
    print("Conditional._unflatten(*_flatten()):", type(e).__name__, e)
try:
    print(qp.pytrees.unflatten(*qp.pytrees.flatten(c)))
except Exception as e:
    print("pytrees round trip of Conditional:", type(e).__name__, e)
# (c) legacy Pow round trip changes class and hash
from pennylane.ops.op_math import Pow
p = Pow(qp.RX(0.3, 0), 2.5); n = Pow._unflatten(*p._flatten())
print("Pow round trip:", type(p).__name__, "->", type(n).__name__, "hash equal:", hash(p) == hash(n), "qp.equal:", qp.equal(p, n))
