import os; exec(open(os.path.join(os.path.dirname(os.path.abspath(__file__)), 'probe_sym_scalar.py')).read().split("def sym(name)")[0])
def sym(name, **kw): return S(sp.Symbol(name, real=True, **kw))
S.requires_grad = True
import pennylane as qp
x, y = sym("x"), sym("y")
for Opt in [qp.GradientDescentOptimizer, qp.MomentumOptimizer, qp.NesterovMomentumOptimizer, qp.AdagradOptimizer, qp.RMSPropOptimizer, qp.AdamOptimizer]:
    try:
        opt = Opt(stepsize=sym("eta"))
        for attr in ("momentum","decay","beta1","beta2","eps"):
            if hasattr(opt, attr): setattr(opt, attr, sym(attr, positive=True))
        # arbitrary prior accumulator state
        if Opt is qp.AdamOptimizer: opt.accumulation = {"fm":[sym("m1"),sym("m2"),0], "sm":[sym("v1", positive=True),sym("v2", positive=True),0], "t": sp.Symbol("t", integer=True, positive=True)}
        elif Opt in (qp.MomentumOptimizer, qp.NesterovMomentumOptimizer): opt.accumulation = [sym("A1"), sym("A2"), 0]
        elif Opt in (qp.AdagradOptimizer, qp.RMSPropOptimizer): opt.accumulation = [sym("A1", positive=True), sym("A2", positive=True), 0]
        new = opt.apply_grad((sym("g1"), sym("g2")), (x, 3.0, y))
        print(Opt.__name__, "->", [getattr(n,'e',n) for n in new])
        acc = opt.accumulation if hasattr(opt,"accumulation") else None
        print("     acc:", acc if not isinstance(acc,dict) else {k:[getattr(v,'e',v) for v in vs] if isinstance(vs,list) else vs for k,vs in acc.items()})
    except Exception as e:
        import traceback; tb = traceback.extract_tb(e.__traceback__)[-1]
        print("FAIL", Opt.__name__, type(e).__name__, str(e)[:150], "@", tb.filename.split('/')[-1], tb.lineno)
