import sys, time, itertools; sys.path.insert(0,'/tmp/exp')
src = open(__import__('os').path.join(__import__('os').path.dirname(__import__('os').path.abspath(__file__)),'probe_hybrid_normal_form.py')).read().split("def check(name, mk, wo):")[0]
exec(src)
from pennylane.ops.qubit import attributes as A
def find_cls(name):
    for mod in (qp, qp.ops, qp.templates):
        if hasattr(mod, name): return getattr(mod, name)
def inst(cls, P, offset=0):
    nw = cls.num_wires; npar = cls.num_params
    if not isinstance(nw,int) or not isinstance(npar,int): return None
    return cls(*[P(i+offset) for i in range(npar)], wires=list(range(nw)))
def iszero(M): return all(x.iszero() for x in M.flat)
def eye(n):
    E=np.empty((n,n),dtype=object)
    for i in range(n):
        for j in range(n): E[i,j]=LP({(0,0,0):sp.Integer(1)}) if i==j else LP({})
    return E
def perm_matrix(n, perm):   # wires relabel: matrix in wire_order perm
    return None
res={}
for setname in ["self_inverses","symmetric_over_all_wires","symmetric_over_control_wires","diagonal_in_z_basis","composable_rotations"]:
    for name in sorted(getattr(A,setname)):
        cls = find_cls(name)
        t=time.time()
        try:
            op = inst(cls, sym) if cls else None
            if op is None: print(f"{setname:30s} {name:24s} skipped (no fixed arity)"); continue
            wo = list(op.wires); n=2**len(wo)
            M = mat_lp(op, wo)
            if setname=="self_inverses": ok = iszero(M@M - eye(n))
            elif setname=="diagonal_in_z_basis": ok = all(M[i,j].iszero() for i in range(n) for j in range(n) if i!=j)
            elif setname=="symmetric_over_all_wires":
                ok = all(iszero(mat_lp(op, list(p)) - M) for p in itertools.permutations(wo))
            elif setname=="symmetric_over_control_wires":
                cw = wo[:-1]
                ok = all(iszero(mat_lp(op, list(p)+[wo[-1]]) - M) for p in itertools.permutations(cw))
            elif setname=="composable_rotations":
                if op.num_params != 1: print(f"{setname:30s} {name:24s} skipped (multi-parameter: {op.num_params})"); continue
                a = cls(S(syms[0]), wires=wo); b = cls(S(syms[1]), wires=wo); ab = cls(S(syms[0]+syms[1]), wires=wo)
                ok = iszero(mat_lp(b,wo)@mat_lp(a,wo) - mat_lp(ab,wo))
            print(f"{setname:30s} {name:24s} {'HOLDS' if ok else 'FAILS'}  {time.time()-t:.1f}s")
        except Exception as e:
            import traceback; tb=traceback.extract_tb(e.__traceback__)[-1]
            print(f"{setname:30s} {name:24s} ERROR {type(e).__name__}: {str(e)[:70]} @ {tb.filename.split('/')[-1]}:{tb.lineno}")
