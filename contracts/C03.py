"""C03 Operator arithmetic agrees with matrix arithmetic.

Each wrapper (Adjoint, Pow, Controlled, Prod, Sum, SProd, ChangeOpBasis, map_wires, simplify) gets a contract that holds for
ANY base: the base is a real `Operator` subclass (GenericOp, defined here) whose matrix consists of generic symbolic complex
entries x_ij + i*y_ij.  Because every wrapper's matrix is then proved equal to the matrix arithmetic of its operands' matrices
for generic operands, nested expressions follow by structural induction (the modular-contract rule).  Plus the per-gate
shortcuts `op.adjoint()`, `op.pow(z)`, `qp.ctrl(op)` of the named gates.
"""
import itertools
import random
import zlib

import numpy as np
import pennylane as qp
from pennylane.operation import Operation

from vf.common import Plan, Obligation, Outcome, DISCHARGED, REFUTED, UNDECIDED, FAULT
from vf.symx.ring import Poly, Cyc, Unsupported, I_
from vf.symx.scalar import Sym, sym, poly_matrix, pm_matmul, pm_dagger, pm_eye, pm_diff_entries, pm_eval, pm_kron
from vf.symx.oblig import identity_obligation, sample_point
from vf.symx import rules as R
from contracts.C02 import FIXED
from refs import gates as G


class GenericOp(Operation):
    """a real Operator subclass whose matrix is a generic symbolic 2^n x 2^n complex matrix (or numeric, for replays)"""
    num_params = 0
    grad_method = None

    def __init__(self, wires, tag="b", env=None):
        self._tag, self._env = tag, env
        super().__init__(wires=wires)
        self._hyperparameters = {"tag": tag, "env": None}

    @property
    def has_matrix(self):
        return True

    def entries(self):
        n = 2 ** len(self.wires)
        M = np.empty((n, n), dtype=object if self._env is None else complex)
        for i in range(n):
            for j in range(n):
                if self._env is None:
                    M[i, j] = sym(f"{self._tag}x{i}{j}") + 1j * sym(f"{self._tag}y{i}{j}")
                else:
                    M[i, j] = self._env[f"{self._tag}x{i}{j}"] + 1j * self._env[f"{self._tag}y{i}{j}"]
        return M

    def matrix(self, wire_order=None):
        M = self.entries()
        if wire_order is None or list(wire_order) == list(self.wires):
            return M
        return qp.math.expand_matrix(M, self.wires, wire_order)

    def label(self, *a, **k):
        return self._tag

    def __repr__(self):
        return f"GenericOp({self._tag}, wires={list(self.wires)})"

    def _flatten(self):
        return (), (self.wires, self._tag, self._env is None)

    @classmethod
    def _unflatten(cls, data, meta):
        return cls(meta[0], tag=meta[1])

    def map_wires(self, wire_map):
        return GenericOp([wire_map.get(w, w) for w in self.wires], tag=self._tag, env=self._env)


def names_of(tag, n):
    d = 2 ** n
    return [f"{tag}{c}{i}{j}" for i in range(d) for j in range(d) for c in "xy"]


def gen(tag, wires, env=None):
    return GenericOp(wires, tag=tag, env=env)


def ent(tag, n, S):
    d = 2 ** n
    M = np.empty((d, d), dtype=object)
    for i in range(d):
        for j in range(d):
            M[i, j] = S[f"{tag}x{i}{j}"] + 1j * S[f"{tag}y{i}{j}"]
    return M


def emb(M, wires, n):
    """independent embedding of a small matrix on `wires` into n wires (index arithmetic, refs.gates.on_wires)"""
    a = np.empty(M.shape, dtype=object)
    for idx, x in np.ndenumerate(M):
        a[idx] = x if isinstance(x, Sym) else Sym(x)
    return G.on_wires(a, wires, n)


def mm(*ms):
    out = poly_matrix(ms[0])
    for m in ms[1:]:
        out = pm_matmul(out, poly_matrix(m))
    return out


def build(tier, seed):
    plan = Plan("C03", level="proof")
    plan.explanation = ("Wrapper matrices are computed by the real classes over a base with GENERIC symbolic complex entries and compared "
                        "with matrix arithmetic on those entries (polynomial identities); nested expressions follow by structural induction.")
    plan.trusted_base = ["vf/symx exact ring", "refs.gates.on_wires (independent tensor embedding)", "structural induction over operator expressions"]
    plan.assumptions = ["numpy interface", "bases of 1 and 2 wires inside at most 3 wires (size-bounded in dimension, complete in entries)"]
    plan.unverified = ["Exp / Evolution, LinearCombination", "fractional powers", "templates as operands", "sparse matrices of wrappers"]
    obs = []

    # shortcuts that reduce angles with `% (2*pi)` are piecewise in the parameter: outside the fragment, bounded stand-in only
    OUT_OF_REACH = {"U2.adjoint() has the conjugate-transposed matrix", "U3.adjoint() has the conjugate-transposed matrix"}

    def add(name, names, traced, reference, native=None, native_ref=None, sb=True, func=None):
        obs.append(identity_obligation(f"C03/{name}", "post", names, traced, reference, native, native_ref=native_ref, seed=seed,
                                       size_bounded=sb, func=func, sample=name, bounded=name in OUT_OF_REACH))
    b1, c1, d2 = names_of("b", 1), names_of("c", 1), names_of("d", 2)
    ADJ = ("pennylane/ops/op_math/adjoint.py", "Adjoint.matrix")
    # ---- Adjoint
    add("Adjoint(generic 1w).matrix == dagger", b1, lambda S: qp.matrix(qp.adjoint(gen("b", [0]), lazy=True)),
        lambda S: pm_dagger(poly_matrix(ent("b", 1, S))),
        lambda env: qp.matrix(qp.adjoint(gen("b", [0], env), lazy=True)), lambda env: np.conj(ent_np("b", 1, env)).T, func=ADJ)
    add("Adjoint(generic 2w).matrix(wire_order reversed) == dagger embedded", d2,
        lambda S: qp.matrix(qp.adjoint(gen("d", [0, 1]), lazy=True), wire_order=[1, 0]),
        lambda S: emb(pm_to_sym(pm_dagger(poly_matrix(ent("d", 2, S)))), [1, 0], 2),
        lambda env: qp.matrix(qp.adjoint(gen("d", [0, 1], env), lazy=True), wire_order=[1, 0]),
        lambda env: emb_np(np.conj(ent_np("d", 2, env)).T, [1, 0], 2), func=ADJ)
    # ---- Pow (integer exponents)
    POW = ("pennylane/ops/op_math/pow.py", "Pow.matrix")
    for z in (0, 1, 2, 3, 4):
        add(f"Pow(generic 1w, {z}).matrix == M^{z}", b1, lambda S, z=z: qp.matrix(qp.pow(gen("b", [0]), z, lazy=True)),
            lambda S, z=z: mpow(poly_matrix(ent("b", 1, S)), z),
            lambda env, z=z: qp.matrix(qp.pow(gen("b", [0], env), z, lazy=True)),
            lambda env, z=z: np.linalg.matrix_power(ent_np("b", 1, env), z), func=POW)
    # ---- SProd / Sum / Prod
    add("SProd(k, generic).matrix == k*M", b1 + ["kx", "ky"],
        lambda S: qp.matrix(qp.s_prod(S["kx"] + 1j * S["ky"], gen("b", [0]))),
        lambda S: scal(S["kx"] + 1j * S["ky"], ent("b", 1, S)),
        lambda env: qp.matrix(qp.s_prod(env["kx"] + 1j * env["ky"], gen("b", [0], env))),
        lambda env: (env["kx"] + 1j * env["ky"]) * ent_np("b", 1, env), func=("pennylane/ops/op_math/sprod.py", "SProd.matrix"))
    add("Prod(A, B same wire).matrix == A.B", b1 + c1,
        lambda S: qp.matrix(qp.prod(gen("b", [0]), gen("c", [0]))), lambda S: mm(ent("b", 1, S), ent("c", 1, S)),
        lambda env: qp.matrix(qp.prod(gen("b", [0], env), gen("c", [0], env))), lambda env: ent_np("b", 1, env) @ ent_np("c", 1, env),
        func=("pennylane/ops/op_math/prod.py", "Prod.matrix"))
    for wo in ([0, 1], [1, 0]):
        add(f"Prod(A on 0, B on 1).matrix(wire_order={wo}) == A (x) B embedded", b1 + c1,
            lambda S, wo=wo: qp.matrix(qp.prod(gen("b", [0]), gen("c", [1])), wire_order=wo),
            lambda S, wo=wo: mm(emb(ent("b", 1, S), [wo.index(0)], 2), emb(ent("c", 1, S), [wo.index(1)], 2)),
            lambda env, wo=wo: qp.matrix(qp.prod(gen("b", [0], env), gen("c", [1], env)), wire_order=wo),
            lambda env, wo=wo: emb_np(ent_np("b", 1, env), [wo.index(0)], 2) @ emb_np(ent_np("c", 1, env), [wo.index(1)], 2),
            func=("pennylane/ops/op_math/prod.py", "Prod.matrix"))
    add("Prod(D on (0,1), B on 1).matrix == D.(I (x) B)  (overlapping wires)", d2 + b1,
        lambda S: qp.matrix(qp.prod(gen("d", [0, 1]), gen("b", [1])), wire_order=[0, 1]),
        lambda S: mm(ent("d", 2, S), emb(ent("b", 1, S), [1], 2)),
        lambda env: qp.matrix(qp.prod(gen("d", [0, 1], env), gen("b", [1], env)), wire_order=[0, 1]),
        lambda env: ent_np("d", 2, env) @ emb_np(ent_np("b", 1, env), [1], 2), func=("pennylane/ops/op_math/prod.py", "Prod.matrix"))
    add("Sum(A on 0, B on 1).matrix == A(x)I + I(x)B", b1 + c1,
        lambda S: qp.matrix(qp.sum(gen("b", [0]), gen("c", [1])), wire_order=[0, 1]),
        lambda S: madd(emb(ent("b", 1, S), [0], 2), emb(ent("c", 1, S), [1], 2)),
        lambda env: qp.matrix(qp.sum(gen("b", [0], env), gen("c", [1], env)), wire_order=[0, 1]),
        lambda env: emb_np(ent_np("b", 1, env), [0], 2) + emb_np(ent_np("c", 1, env), [1], 2), func=("pennylane/ops/op_math/sum.py", "Sum.matrix"))
    # ---- Controlled: every control-value string for 1 and 2 controls, base on 1 wire; control wires listed first
    CTRL = ("pennylane/ops/op_math/controlled.py", "Controlled.matrix")
    for nc in (1, 2):
        for cv in itertools.product([0, 1], repeat=nc):
            cw = list(range(1, nc + 1))
            order = cw + [0]
            add(f"Controlled(generic, control_values={list(cv)}).matrix == projector-block structure", b1,
                lambda S, cw=cw, cv=cv, order=order: qp.matrix(qp.ctrl(gen("b", [0]), control=cw, control_values=list(cv)), wire_order=order),
                lambda S, nc=nc, cv=cv: ctrl_ref(ent("b", 1, S), nc, cv),
                lambda env, cw=cw, cv=cv, order=order: qp.matrix(qp.ctrl(gen("b", [0], env), control=cw, control_values=list(cv)), wire_order=order),
                lambda env, nc=nc, cv=cv: ctrl_ref_np(ent_np("b", 1, env), nc, cv), func=CTRL)
    # ---- map_wires and wire-order expansion
    add("map_wires(generic 2w).matrix on relabelled, reversed wires == embedded", d2,
        lambda S: qp.matrix(qp.map_wires(gen("d", [0, 1]), {0: "p", 1: "q"}), wire_order=["q", "p"]),
        lambda S: emb(ent("d", 2, S), [1, 0], 2),
        lambda env: qp.matrix(qp.map_wires(gen("d", [0, 1], env), {0: "p", 1: "q"}), wire_order=["q", "p"]),
        lambda env: emb_np(ent_np("d", 2, env), [1, 0], 2), func=("pennylane/ops/functions/map_wires.py", "map_wires"))
    add("generic 1w expanded to 3 wires (middle position) == I (x) M (x) I", b1,
        lambda S: qp.matrix(gen("b", [5]), wire_order=[3, 5, 7]), lambda S: emb(ent("b", 1, S), [1], 3),
        lambda env: qp.matrix(gen("b", [5], env), wire_order=[3, 5, 7]), lambda env: emb_np(ent_np("b", 1, env), [1], 3),
        func=("pennylane/math/matrix_manipulation.py", "expand_matrix"))
    # ---- a nested expression and simplify
    def nested(mk):
        return qp.adjoint(qp.prod(qp.ctrl(mk("b", [0]), control=1), qp.s_prod(2.0, mk("c", [1]))), lazy=True)
    add("nested adjoint(prod(ctrl(A), 2*B)).matrix == matrix arithmetic", b1 + c1,
        lambda S: qp.matrix(nested(lambda t, w: gen(t, w)), wire_order=[1, 0]),
        lambda S: pm_dagger(mm(ctrl_ref(ent("b", 1, S), 1, (1,)), scal(2, emb(ent("c", 1, S), [0], 2)))),
        lambda env: qp.matrix(nested(lambda t, w: gen(t, w, env)), wire_order=[1, 0]),
        lambda env: np.conj(ctrl_ref_np(ent_np("b", 1, env), 1, (1,)) @ (2 * emb_np(ent_np("c", 1, env), [0], 2))).T)
    add("simplify(nested expression) keeps the matrix", b1 + c1,
        lambda S: qp.matrix(qp.simplify(nested(lambda t, w: gen(t, w))), wire_order=[1, 0]),
        lambda S: qp.matrix(nested(lambda t, w: gen(t, w)), wire_order=[1, 0]),
        lambda env: qp.matrix(qp.simplify(nested(lambda t, w: gen(t, w, env))), wire_order=[1, 0]),
        lambda env: qp.matrix(nested(lambda t, w: gen(t, w, env)), wire_order=[1, 0]), func=("pennylane/ops/functions/simplify.py", "simplify"))
    # ---- per-gate shortcuts of the named gates: adjoint(), pow(z), ctrl dispatch
    for name in FIXED:
        npar, nw, _ = G.REF[name]
        cls = getattr(qp, name)
        pn = ["a", "b", "c"][:npar]
        w = list(range(nw))

        def M_(ps, cls=cls, w=w):
            return qp.matrix(cls(*ps, wires=w), wire_order=w)
        add(f"{name}.adjoint() has the conjugate-transposed matrix", pn,
            lambda S, cls=cls, w=w, pn=pn: qp.matrix(qp.adjoint(cls(*[S[p] for p in pn], wires=w), lazy=False), wire_order=w),
            lambda S, pn=pn, M_=M_: pm_dagger(poly_matrix(M_([S[p] for p in pn]))),
            lambda env, cls=cls, w=w, pn=pn: qp.matrix(qp.adjoint(cls(*[env[p] for p in pn], wires=w), lazy=False), wire_order=w),
            lambda env, pn=pn, M_=M_: np.conj(np.asarray(M_([env[p] for p in pn]))).T, sb=False)
        for z in (2, 3):
            add(f"qp.pow({name}, {z}) (eager) has the matrix power", pn,
                lambda S, cls=cls, w=w, pn=pn, z=z: qp.matrix(R.lift_float_params(qp.pow(cls(*[S[p] for p in pn], wires=w), z, lazy=False)), wire_order=w),
                lambda S, pn=pn, M_=M_, z=z: mpow(poly_matrix(M_([S[p] for p in pn])), z),
                lambda env, cls=cls, w=w, pn=pn, z=z: qp.matrix(qp.pow(cls(*[env[p] for p in pn], wires=w), z, lazy=False), wire_order=w),
                lambda env, pn=pn, M_=M_, z=z: np.linalg.matrix_power(np.asarray(M_([env[p] for p in pn]), dtype=complex), z), sb=False)
        if nw <= 2:
            cw = [nw]
            add(f"qp.ctrl({name}, 1 control) has the block matrix diag(I, M)", pn,
                lambda S, cls=cls, w=w, pn=pn, cw=cw: qp.matrix(qp.ctrl(cls(*[S[p] for p in pn], wires=w), control=cw), wire_order=cw + w),
                lambda S, pn=pn, M_=M_: ctrl_ref_p(poly_matrix(M_([S[p] for p in pn]))),
                lambda env, cls=cls, w=w, pn=pn, cw=cw: qp.matrix(qp.ctrl(cls(*[env[p] for p in pn], wires=w), control=cw), wire_order=cw + w),
                lambda env, pn=pn, M_=M_: ctrl_np_block(np.asarray(M_([env[p] for p in pn]), dtype=complex)), sb=False)
    for ob in obs:
        plan.add(ob)
    for f in {o.func for o in obs if o.func}:
        plan.fn_under_contract(*f)
    plan.size_bounds = ["generic bases on 1-2 wires, <= 2 controls, placements within 3 wires", "integer powers 0..4 (generic), 2..3 (named gates)"]
    return plan


# ---- helpers ---------------------------------------------------------------------------------------------------------------------
def ent_np(tag, n, env):
    d = 2 ** n
    return np.array([[env[f"{tag}x{i}{j}"] + 1j * env[f"{tag}y{i}{j}"] for j in range(d)] for i in range(d)], dtype=complex)


def emb_np(m, pw, n):
    from contracts.C07 import _embed_np
    return _embed_np(np.asarray(m, dtype=complex), pw, n)


def pm_to_sym(P):
    out = np.empty(P.shape, dtype=object)
    for idx, x in np.ndenumerate(P):
        out[idx] = Sym(x)
    return out


def mpow(P, z):
    out = pm_eye(P.shape[0])
    for _ in range(z):
        out = pm_matmul(P, out)
    return out


def scal(k, M):
    out = np.empty(np.shape(M), dtype=object)
    for idx, x in np.ndenumerate(np.asarray(M, dtype=object)):
        out[idx] = k * x
    return out


def madd(A, B):
    out = np.empty(A.shape, dtype=object)
    for idx, x in np.ndenumerate(A):
        out[idx] = x + B[idx]
    return out


def ctrl_ref(M, nc, cv):
    """control wires first (most significant): M on the block selected by cv, identity elsewhere"""
    d = M.shape[0]
    n = d * 2 ** nc
    out = np.empty((n, n), dtype=object)
    sel = 0
    for b in cv:
        sel = (sel << 1) | int(b)
    for i in range(n):
        for j in range(n):
            bi, bj = i // d, j // d
            if bi != bj:
                out[i, j] = Sym(Poly())
            elif bi == sel:
                out[i, j] = M[i % d, j % d] if isinstance(M[i % d, j % d], Sym) else Sym(M[i % d, j % d])
            else:
                out[i, j] = Sym(Poly.const(1)) if i == j else Sym(Poly())
    return out


def ctrl_ref_p(P):
    return ctrl_ref(pm_to_sym(P), 1, (1,))


def ctrl_ref_np(M, nc, cv):
    d = M.shape[0]
    n = d * 2 ** nc
    sel = 0
    for b in cv:
        sel = (sel << 1) | int(b)
    out = np.eye(n, dtype=complex)
    out[sel * d:(sel + 1) * d, sel * d:(sel + 1) * d] = M
    return out


def ctrl_np_block(M):
    return ctrl_ref_np(M, 1, (1,))
