"""C65 Executor backends behave like map and starmap.

Code under contract (real ASTs, read on every run): concurrency/executors/native/api.py PyNativeExec.{submit, map, starmap},
native/multiproc.py MPPoolExec.map, native/serial.py StdLibBackend.{submit, map, starmap}, the helpers of base.py they go
through (RemoteExec.{_get_backend, _submit_fn, _map_fn}) and each backend's `_exec_backend`; the ExecBackendConfig of every
backend is READ from its real constructor.

Postconditions are the property statement: map(fn, *seqs, **kw) == list(map(partial(fn, **kw), *seqs)),
starmap(fn, data, **kw) == list(itertools.starmap(partial(fn, **kw), data)), submit(fn, *a, **kw) == fn(*a, **kw), for every backend,
with `fn` an UNINTERPRETED function (arity 0..3, optional keyword parameter) over an abstract value sort.

The schedule quantifier ("whatever order the worker tasks complete in") is NOT explored: the stdlib pools are replaced by their
documented contracts (results in input order irrespective of completion order, Future.result() = the call's value), written as
executable stub classes below and listed as assumed contracts.
"""
import ast
import itertools
from functools import partial

import z3

from vf.common import Plan, Obligation, Outcome, DISCHARGED, REFUTED, find_def, parse_repo_file
from vf.pyvc.engine import (World, T, Int, Bool, Label, LabelSort, RecT, TupleT, ListT, Rec, PyList, FuncRef, ClassInfo, fresh, Unsupp,
                            RaiseExc)
from vf.pyvc.contract import FnContract, Case, obligations_for
from vf.pyvc.interp import Interp
from vf.pyvc.spec import And, Implies

NATIVE = "pennylane/concurrency/executors/native/"
API, SERIAL, CONC, MULTI = NATIVE + "api.py", NATIVE + "serial.py", NATIVE + "conc_futures.py", NATIVE + "multiproc.py"
BASE = "pennylane/concurrency/executors/base.py"

DEFAULT_K = "DEFAULT_K"


# ---- the user's function, natively: a free term algebra (picklable module-level functions: process pools import this module) -------
def nat_p0():
    return ("F_p0",)


def nat_p1(x):
    return ("F_p1", x)


def nat_p2(x, y):
    return ("F_p2", x, y)


def nat_p3(x, y, z):
    return ("F_p3", x, y, z)


def nat_p1k(x, k=DEFAULT_K):
    return ("F_p1k", x, k)


def nat_p2k(x, y, k=DEFAULT_K):
    return ("F_p2k", x, y, k)


FNS = {"p0": dict(pos=(), kws=(), native=nat_p0), "p1": dict(pos=("x",), kws=(), native=nat_p1),
       "p2": dict(pos=("x", "y"), kws=(), native=nat_p2), "p3": dict(pos=("x", "y", "z"), kws=(), native=nat_p3),
       "p1k": dict(pos=("x",), kws=("k",), native=nat_p1k), "p2k": dict(pos=("x", "y"), kws=("k",), native=nat_p2k)}

# ---- assumed contracts of the standard-library pools, as executable specifications ----------------------------------------------
STUBS_SRC = '''
class Future:
    def result(self, timeout=None):
        return self.value


class ThreadPoolExecutor:
    def __init__(self, *args, **kwargs):
        self.closed = False

    def submit(self, fn, *args, **kwargs):
        if self.closed:
            raise RuntimeError("cannot schedule new futures after shutdown")
        return Future(fn(*args, **kwargs))

    def map(self, fn, *iterables, timeout=None, chunksize=1):
        if self.closed:
            raise RuntimeError("cannot schedule new futures after shutdown")
        return [fn(*t) for t in zip(*iterables)]

    def shutdown(self, wait=True):
        self.closed = True


class ProcessPoolExecutor:
    def __init__(self, *args, **kwargs):
        self.closed = False

    def submit(self, fn, *args, **kwargs):
        if self.closed:
            raise RuntimeError("cannot schedule new futures after shutdown")
        return Future(fn(*args, **kwargs))

    def map(self, fn, *iterables, timeout=None, chunksize=1):
        if self.closed:
            raise RuntimeError("cannot schedule new futures after shutdown")
        return [fn(*t) for t in zip(*iterables)]

    def shutdown(self, wait=True):
        self.closed = True


class Pool:
    def __init__(self, *args, **kwargs):
        self.closed = False

    def apply(self, func, args=(), kwds={}):
        if self.closed:
            raise ValueError("Pool not running")
        return func(*args, **kwds)

    def map(self, func, iterable, chunksize=None):
        if self.closed:
            raise ValueError("Pool not running")
        return [func(x) for x in iterable]

    def starmap(self, func, iterable, chunksize=None):
        if self.closed:
            raise ValueError("Pool not running")
        return [func(*x) for x in iterable]

    def close(self):
        self.closed = True


class SpawnContext:
    pass


class Signature:
    pass
'''


class SuperProxy(tuple):
    """value of `super()` inside a method of the executor: (the instance,)"""


class OpaqueValuesInterp(Interp):
    """the user's arguments and results are opaque values: the executor may not use any attribute of them (e.g. calling .result()
    on a plain result) -- such an access is an AttributeError, which the replay confirms on real values"""

    def getattr(self, obj, attr, node=None):
        if isinstance(obj, z3.ExprRef) and obj.sort() == LabelSort:
            raise RaiseExc("AttributeError", node)
        return super().getattr(obj, attr, node)


def read_config(file, cls):
    """the keyword arguments of the LAST `self._cfg = ExecBackendConfig(...)` in the real constructor"""
    _, node = find_def(file, f"{cls}.__init__")
    found = None
    for n in ast.walk(node):
        if isinstance(n, ast.Assign) and len(n.targets) == 1 and isinstance(n.targets[0], ast.Attribute) and n.targets[0].attr == "_cfg" \
                and isinstance(n.value, ast.Call) and getattr(n.value.func, "id", None) == "ExecBackendConfig":
            found = n.value
    if found is None:
        raise KeyError(f"{file}:{cls}.__init__ does not assign self._cfg = ExecBackendConfig(...)")
    cfg = dict(submit_fn=None, map_fn=None, starmap_fn=None, shutdown_fn=None, submit_unpack=None, map_unpack=None, blocking=None)
    for k in found.keywords:
        cfg[k.arg] = ast.literal_eval(k.value)
    return cfg


BACKENDS = {"SerialExec": dict(file=SERIAL, backend="StdLibBackend", map_entry=(API, "PyNativeExec.map")),
            "ThreadPoolExec": dict(file=CONC, backend="ThreadPoolExecutor", map_entry=(API, "PyNativeExec.map")),
            "ProcPoolExec": dict(file=CONC, backend="ProcessPoolExecutor", map_entry=(API, "PyNativeExec.map")),
            "MPPoolExec": dict(file=MULTI, backend="Pool", map_entry=(MULTI, "MPPoolExec.map"))}


def build(tier, seed):
    plan = Plan("C65", level="other")        # every obligation is size-bounded (all values, enumerated shapes): not a proof of the unbounded statement
    plan.explanation = (
        "PyNativeExec.{submit,map,starmap}, MPPoolExec.map and StdLibBackend.{submit,map,starmap} are executed symbolically from their real "
        "ASTs (the base-class helpers _get_backend/_submit_fn/_map_fn and each backend's _exec_backend are inlined from base.py / the "
        "backend file, inheritance emulated by copying the real method nodes down the MRO), for each of the four backends with the "
        "ExecBackendConfig literal read from its real constructor. The user function is an uninterpreted z3 function over an abstract "
        "sort; results are compared elementwise with the builtin's result written as an independent specification. The stdlib pool "
        "objects are executable stubs of their documented contracts (this is where the schedule quantifier is discharged by assumption).")
    plan.trusted_base = ["vf/pyvc encoder (Python subset semantics)", "z3 EUF",
                         "semantic models of the builtins used by the code under contract: map / zip(strict) / list / itertools.starmap / "
                         "functools.partial / inspect.signature(fn).parameters / getattr / hasattr (this file)"]
    plan.assumptions = ["A-user-function: fn is a pure function of its arguments (uninterpreted), picklable where the backend needs it",
                        "A-values: arguments are opaque values (abstract sort); sequences are python lists, starmap data is a list of tuples",
                        "worker count and persistence flag are symbolic and provably irrelevant under the assumed pool contracts"]
    plan.assumed_contracts = [
        "concurrent.futures.ThreadPoolExecutor / ProcessPoolExecutor.map(fn, *iterables): results of fn(*t) for t in zip(*iterables) IN INPUT ORDER "
        "irrespective of completion order (docs); .submit(fn, *a, **kw).result() == fn(*a, **kw)",
        "multiprocessing.pool.Pool.map(func, iterable) == [func(x) for x in iterable], Pool.starmap(func, iterable) == [func(*x) for x in iterable] "
        "(input order), Pool.apply(func, args=(), kwds={}) == func(*args, **kwds)",
        "multiprocessing.get_context('spawn').Pool / ProcessPoolExecutor(mp_context=...) construct such pools for any worker count",
        "pickling round trip of functools.partial(fn, **kw) and of the arguments preserves their meaning (process backends)",
    ]
    plan.dropped = ["docstrings, annotations", "PyNativeExec.__init__/shutdown/__del__ (resource management; the configuration is read from the "
                    "constructor's literal instead of executing super().__init__)"]

    # =====================================================================================================================
    # models of builtins
    DEFK = z3.Const("default_k", LabelSort)
    FUN = {nm: z3.Function("F_" + nm, *([LabelSort] * (len(d["pos"]) + len(d["kws"]) + 1))) for nm, d in FNS.items()}

    def is_lab(v):
        return isinstance(v, z3.ExprRef) and v.sort() == LabelSort

    def user_fn(nm):
        d = FNS[nm]
        names = list(d["pos"]) + list(d["kws"])

        def model(it, args, kw):
            if len(args) > len(names):
                raise RaiseExc("TypeError")
            bound = dict(zip(names, args))
            for k, v in kw.items():
                if k not in names or k in bound:
                    raise RaiseExc("TypeError")
                bound[k] = v
            if any(p not in bound for p in d["pos"]):
                raise RaiseExc("TypeError")
            vals = [bound.get(p, DEFK) for p in names]
            if all(is_lab(v) for v in vals):
                return FUN[nm](*vals)
            # applied to something that is not one of the caller's atomic values (e.g. a whole list): SOME value
            return z3.Const(it.ctx.fresh_name("fn_of_nonatomic"), LabelSort)
        return model

    def b_map(it, args, kw):
        if len(args) < 2 or kw:
            raise RaiseExc("TypeError")
        f = args[0]
        seqs = [it.iter_concrete(s) for s in args[1:]]
        n = min(len(s) for s in seqs)
        return PyList([it.call(f, [s[i] for s in seqs], {}) for i in range(n)])

    def b_starmap(it, args, kw):
        f, data = args
        return PyList([it.call(f, list(it.iter_concrete(t)), {}) for t in it.iter_concrete(data)])

    def b_list(it, args, kw):
        if kw:
            raise RaiseExc("TypeError")          # list() takes no keyword arguments
        return it.b_list(args, kw, None)

    def b_hasattr(it, args, kw):
        o, name = args
        if isinstance(o, Rec):
            return name in o.f or name in o.cls.methods or name in o.cls.props
        raise Unsupp("hasattr of a non-record")

    def b_getattr(it, args, kw):
        if len(args) != 2 or not isinstance(args[1], str):
            raise Unsupp("getattr with a default / computed name")
        return it.getattr(args[0], args[1])

    holder = {}

    def make_world(file, bname):
        b = BACKENDS[bname]
        xb = {"map": b_map, "starmap": b_starmap, "list": b_list, "hasattr": b_hasattr, "getattr": b_getattr}
        for nm in FNS:
            xb["user_" + nm] = user_fn(nm)
        stub_names = ["Future", "ThreadPoolExecutor", "ProcessPoolExecutor", "Pool", "SpawnContext", "Signature"]
        classes = {"ExecBackendConfig": (BASE, {}), "StdLibBackend": (SERIAL, {})}
        if bname != "StdLibBackend":
            classes[bname] = (b["file"], {})
        w = World(file, classes=classes, stubs={nm: (STUBS_SRC, {"value": Label} if nm == "Future" else {}) for nm in stub_names},
                  extra_builtins=xb)
        w.strict_finally = True          # a `finally:` clause also runs when the body returns / raises (resource release paths)

        def b_partial(it, args, kw):
            f, pre = args[0], list(args[1:])
            name = it.ctx.fresh_name("partial")
            kw0 = dict(kw)
            w.extra_builtins[name] = lambda it2, a2, k2: it2.call(f, pre + list(a2), {**kw0, **k2})
            return FuncRef("builtin", name)

        def b_signature(it, args, kw):
            f = args[0]
            if not (isinstance(f, FuncRef) and f.name.startswith("user_")):
                raise Unsupp("inspect.signature of a non-user function")
            d = FNS[f.name[5:]]
            return Rec(w.classes["Signature"], {"parameters": tuple([None] * (len(d["pos"]) + len(d["kws"])))})

        def b_get_context(it, args, kw):
            return Rec(w.classes["SpawnContext"], {"Pool": FuncRef("class", "Pool", w.classes["Pool"])})

        def b_super(it, args, kw):
            return SuperProxy((holder["self"],))

        def m_map(it, args, kw):
            o = args[0]
            rec = o[0] if isinstance(o, SuperProxy) else getattr(o, "obj", None)      # this file's proxy / the engine's own super() proxy
            if not isinstance(rec, Rec):
                raise Unsupp("method map of a builtin value")
            # super().map inside MPPoolExec.map: the next class in the MRO that defines map is PyNativeExec
            return it.call_user(find_def(API, "PyNativeExec.map")[1], [rec] + list(args[1:]), kw, rec.cls, qual="PyNativeExec.map")
        xb.update({"partial": b_partial, "inspect.signature": b_signature, "get_context": b_get_context, "super": b_super, "method:map": m_map})
        if bname != "StdLibBackend":
            # emulated MRO: the real method nodes of PyNativeExec, then RemoteExec, where the subclass does not define them
            ci = w.classes[bname]
            for pf, pc in ((API, "PyNativeExec"), (BASE, "RemoteExec")):
                src, node = find_def(pf, pc)
                pi = ClassInfo(pc, node, {}, pf, src)
                for k, m in pi.methods.items():
                    if k not in ci.methods:
                        ci.methods[k] = m
                        if k in pi.classmethods:
                            ci.classmethods.add(k)
                        if k in pi.staticmethods:
                            ci.staticmethods.add(k)
                for k, m in pi.props.items():
                    ci.props.setdefault(k, m)
        return w

    def exec_t(w, bname):
        b = BACKENDS[bname]
        cfg = read_config(b["file"], bname)

        def mk(ctx, name):
            # representation invariant established by the constructors (RemoteExec.__init__ / PyNativeExec.__init__): a persistent
            # executor owns an open backend object, a non-persistent one has `_persistent_backend is None` (the path forks on the flag)
            persist = fresh(ctx, Bool, "persist")
            backend = Rec(w.classes[b["backend"]], {} if b["backend"] == "StdLibBackend" else {"closed": False}) if ctx.branch(persist) else None
            r = Rec(w.classes[bname], {
                "_cfg": Rec(w.classes["ExecBackendConfig"], dict(cfg)),
                "_persist": persist, "_size": fresh(ctx, Int, "max_workers"),
                "_persistent_backend": backend,
                "_inputs": {}})
            holder["self"] = r
            return r

        def gen(rng):
            return {"__class__": bname, "_persist": rng.random() < 0.3, "_size": rng.randint(1, 16)}
        return T("build", mk, gen=gen)

    def real_exec(bname):
        def mkreal(f):
            import importlib
            import multiprocessing
            # replay harness only: obligations run in daemonic worker processes of the checker, which multiprocessing.Pool refuses to
            # start children from; the replay needs the REAL pool, so the flag is cleared for this (short-lived) process
            multiprocessing.current_process()._config["daemon"] = False
            mod = importlib.import_module(BACKENDS[bname]["file"][:-3].replace("/", "."))
            size = 1 if bname == "SerialExec" else min(max(int(f.get("_size") or 2), 1), 3)
            return getattr(mod, bname)(max_workers=size, persist=bool(f.get("_persist")))
        return mkreal

    def fix_model(rng, m):
        def fix(d):
            if isinstance(d, dict) and "__classref__" in d and str(d["__classref__"]).startswith("user_"):
                return FNS[d["__classref__"][5:]]["native"]
            if isinstance(d, dict):
                return {k: fix(v) for k, v in d.items()}
            if isinstance(d, list):
                return [fix(x) for x in d]
            if isinstance(d, tuple):
                return tuple(fix(x) for x in d)
            return d
        out = {k: fix(v) for k, v in m.items()}
        if isinstance(out.get("self"), dict):
            # the executor is rebuilt by its real constructor: only the worker count and the persistence flag are inputs
            out["self"] = {k: v for k, v in out["self"].items() if k in ("__class__", "_persist", "_size")}
        return out

    def native_method(method, pos, kwp):
        def call(mod, a):
            ex = a["self"]
            persistent = bool(getattr(ex, "_persist", False))
            try:
                res = getattr(ex, method)(a["fn"], *[a[p] for p in pos], **{k: a[p] for k, p in kwp.items()})
                if persistent:
                    # the multi-call reading: a persistent executor must still serve the next call
                    try:
                        ex._c65_followup = ex.map(nat_p1, ["z1", "z2"])
                    except Exception as exc:  # pylint: disable=broad-except
                        ex._c65_followup = f"{type(exc).__name__}: {exc}"
                return res
            finally:
                try:
                    ex.shutdown()
                except Exception:  # pylint: disable=broad-except
                    pass
        return call

    FOLLOWUP = [("F_p1", "z1"), ("F_p1", "z2")]

    def backend_open(ex):
        """symbolic: the persistent backend object has not been shut down (ghost flag of the pool stubs; the serial backend has no state)"""
        be = ex.f.get("_persistent_backend")
        return isinstance(be, Rec) and be.f.get("closed", False) is False

    def frame(o, n):
        """a call on a PERSISTENT executor leaves the executor persistent and its backend open (so the next call is served): the backend's
        shutdown function may run only when not self._persist"""
        if isinstance(n.self, Rec):
            p0, p1 = o.self.f["_persist"], n.self.f["_persist"]
            same_flag = (p0 is p1) or (isinstance(p0, z3.ExprRef) and isinstance(p1, z3.ExprRef) and p0.eq(p1)) or \
                (isinstance(p0, bool) and isinstance(p1, bool) and p0 == p1)
            return And(same_flag, Implies(p0, backend_open(n.self)) if isinstance(p0, z3.ExprRef) else ((not p0) or backend_open(n.self)))
        fu = getattr(n.self, "_c65_followup", None)
        return fu is None or fu == FOLLOWUP

    def framed(ens):
        return lambda o, r, n: And(ens(o, r, n), frame(o, n))

    # =====================================================================================================================
    # specifications (symbolic: terms of the uninterpreted function; native: the python builtins themselves)
    def fn_name(o):
        f = o.fn
        if isinstance(f, FuncRef):
            return f.name[5:]
        return next(nm for nm, d in FNS.items() if d["native"] is f)

    def is_sym_call(o):
        return isinstance(o.fn, FuncRef)

    def apply_fn(nm, xs, kw):
        d = FNS[nm]
        return FUN[nm](*(list(xs) + [kw.get(k, DEFK) for k in d["kws"]]))

    def items(v):
        return list(v.items) if isinstance(v, PyList) else list(v)

    def list_eq(r, exp):
        if not isinstance(r, (PyList, list)):
            return False
        got = items(r)
        if len(got) != len(exp):
            return False
        return And(*[(a == b) if (is_lab(a) and is_lab(b)) else (a is b) for a, b in zip(got, exp)]) if exp else True

    def map_post(pos, kwp):
        def ens(o, r, n):
            kw = {k: getattr(o, p) for k, p in kwp.items()}
            seqs = [getattr(o, p) for p in pos]
            if is_sym_call(o):
                cols = [items(s) for s in seqs]
                exp = [apply_fn(fn_name(o), [c[i] for c in cols], kw) for i in range(min(len(c) for c in cols))]
                return list_eq(r, exp)
            return r == list(map(partial(o.fn, **kw), *seqs))
        return ens

    def starmap_post(kwp):
        def ens(o, r, n):
            kw = {k: getattr(o, p) for k, p in kwp.items()}
            if is_sym_call(o):
                return list_eq(r, [apply_fn(fn_name(o), list(t), kw) for t in items(o.data)])
            return r == list(itertools.starmap(partial(o.fn, **kw), o.data))
        return ens

    def submit_post(pos, kwp):
        def ens(o, r, n):
            kw = {k: getattr(o, p) for k, p in kwp.items()}
            xs = [getattr(o, p) for p in pos]
            if is_sym_call(o):
                e = apply_fn(fn_name(o), xs, kw)
                return (r == e) if is_lab(r) else False
            return r == o.fn(*xs, **kw)
        return ens

    def FN(nm):
        return T("const", FuncRef("builtin", "user_" + nm))

    # fn, pass the keyword?, lengths of the argument sequences
    MAP_SHAPES = [("p1", False, (0,)), ("p1", False, (1,)), ("p1", False, (3,)),
                  ("p2", False, (0, 0)), ("p2", False, (2, 2)), ("p2", False, (1, 3)), ("p2", False, (3, 0)),
                  ("p3", False, (2, 2, 2)), ("p3", False, (1, 2, 3)),
                  ("p1k", True, (0,)), ("p1k", True, (2,)), ("p1k", False, (2,)),
                  ("p2k", True, (2, 2)), ("p2k", True, (2, 1))]
    STAR_SHAPES = [("p1", False, 0), ("p1", False, 2), ("p2", False, 0), ("p2", False, 1), ("p2", False, 3), ("p3", False, 2),
                   ("p1k", True, 0), ("p1k", True, 2), ("p1k", False, 2), ("p2k", True, 2)]
    SUBMIT_SHAPES = [("p0", False), ("p1", False), ("p2", False), ("p3", False), ("p1k", True), ("p1k", False), ("p2k", True)]
    if tier != "quick":
        MAP_SHAPES += [("p2", False, (4, 4)), ("p3", False, (0, 2, 2)), ("p2k", True, (0, 0))]
        STAR_SHAPES += [("p3", False, 0), ("p2k", True, 0), ("p2", False, 4)]
    plan.size_bounds = ["map: 1..3 argument sequences of the (length) shapes " + ", ".join(sorted({str(s[2]) for s in MAP_SHAPES})) +
                        " (equal, empty and uneven); starmap: 0..3 (thorough: 4) argument tuples; submit: 0..3 positional arguments; "
                        "functions of arity 0..3 with and without one keyword parameter, passed or defaulted; all VALUES symbolic"]

    def shape_label(nm, withk, extra):
        return f"{nm}{'+k' if withk else ''}-{extra}"

    contracts = []
    for bname, b in BACKENDS.items():
        # ---- map (the backend's public entry point) -------------------------------------------------------------------------
        mfile, mqual = b["map_entry"]
        w = make_world(mfile, bname)
        w.stub_realize = {bname: real_exec(bname)}
        cases = []
        for nm, withk, lens in MAP_SHAPES:
            params = {"self": exec_t(w, bname), "fn": FN(nm)}
            pos = []
            for i, ln in enumerate(lens):
                params[f"s{i}"] = ListT(Label, ln)
                pos.append(f"s{i}")
            kwp = {}
            if withk:
                params["kv"] = Label
                kwp["k"] = "kv"
            cases.append(Case(f"{bname}-{shape_label(nm, withk, 'lens' + 'x'.join(map(str, lens)))}", params, kwargs_map=kwp,
                              ensures=framed(map_post(pos, kwp)), size_bounded=True, native_gen=fix_model,
                              native_call=native_method("map", pos, kwp)))
        contracts.append(FnContract(w, mqual, cases))
        # ---- starmap / submit: PyNativeExec's methods with this backend's configuration ----------------------------------------
        w2 = make_world(API, bname)
        w2.stub_realize = {bname: real_exec(bname)}
        cases = []
        for nm, withk, n in STAR_SHAPES:
            ar = len(FNS[nm]["pos"])
            params = {"self": exec_t(w2, bname), "fn": FN(nm), "data": ListT(TupleT(*[Label] * ar), n)}
            kwp = {}
            if withk:
                params["kv"] = Label
                kwp["k"] = "kv"
            # `args` is the real parameter name of the data sequence
            cases.append(Case(f"{bname}-{shape_label(nm, withk, f'{n}tuples')}", params, kwargs_map=kwp, ensures=framed(starmap_post(kwp)),
                              size_bounded=True, native_gen=fix_model, native_call=native_method("starmap", ["data"], kwp)))
        contracts.append(FnContract(w2, "PyNativeExec.starmap", cases))
        cases = []
        for nm, withk in SUBMIT_SHAPES:
            ar = len(FNS[nm]["pos"])
            params = {"self": exec_t(w2, bname), "fn": FN(nm)}
            pos = []
            for i in range(ar):
                params[f"a{i}"] = Label
                pos.append(f"a{i}")
            kwp = {}
            if withk:
                params["kv"] = Label
                kwp["k"] = "kv"
            cases.append(Case(f"{bname}-{shape_label(nm, withk, f'{ar}args')}", params, kwargs_map=kwp, ensures=framed(submit_post(pos, kwp)),
                              size_bounded=True, native_gen=fix_model, native_call=native_method("submit", pos, kwp)))
        contracts.append(FnContract(w2, "PyNativeExec.submit", cases))

    # ---- multi-call reading: histories of two calls on the SAME executor, and the life-cycle methods ------------------------------------
    class Driver(FnContract):
        """a two-call client `r1 = self.<m1>(...); r2 = self.<m2>(...)` (written here) whose calls execute the REAL method bodies"""

        def __init__(self, world, qualname, cases, src):
            super().__init__(world, qualname, cases)
            self._src = src
            self._node = None

        def node(self):
            if self._node is None:
                self._node = ast.parse(self._src).body[0]
            return self._node

    def call_src(kind, fn_args):
        return {"map": f"self.map(fn, {', '.join(fn_args)})", "starmap": f"self.starmap(fn, {fn_args[0]})",
                "submit": f"self.submit(fn, {', '.join(fn_args)})"}[kind]

    def expect(kind, o, names):
        """(symbolic expected value, native expected value) of one call of fn p2 on the named parameters"""
        if kind == "map":
            return map_post(names, {}), None
        if kind == "starmap":
            return (lambda o_, r_, n_: list_eq(r_, [apply_fn("p2", list(t), {}) for t in items(getattr(o_, names[0]))]) if is_sym_call(o_)
                    else r_ == list(itertools.starmap(o_.fn, getattr(o_, names[0])))), None
        return submit_post(names, {}), None

    HIST = [("map", "map"), ("map", "starmap"), ("starmap", "submit"), ("submit", "map"), ("starmap", "starmap")]
    for bname, b in BACKENDS.items():
        wd = make_world(API, bname)
        wd.stub_realize = {bname: real_exec(bname)}
        for k1, k2 in HIST:
            params = {"self": exec_t(wd, bname), "fn": FN("p2")}
            names = []
            for idx, kind in enumerate((k1, k2)):
                if kind == "map":
                    params[f"c{idx}s0"], params[f"c{idx}s1"] = ListT(Label, 2), ListT(Label, 2)
                    names.append([f"c{idx}s0", f"c{idx}s1"])
                elif kind == "starmap":
                    params[f"c{idx}d"] = ListT(TupleT(Label, Label), 2)
                    names.append([f"c{idx}d"])
                else:
                    params[f"c{idx}a0"], params[f"c{idx}a1"] = Label, Label
                    names.append([f"c{idx}a0", f"c{idx}a1"])
            src = (f"def two_calls({', '.join(params)}):\n    r1 = {call_src(k1, names[0])}\n    r2 = {call_src(k2, names[1])}\n"
                   "    return (r1, r2)\n")
            e1, e2 = expect(k1, None, names[0])[0], expect(k2, None, names[1])[0]

            def ens(o, r, n, e1=e1, e2=e2):
                if not (isinstance(r, tuple) and len(r) == 2):
                    return False
                return And(e1(o, r[0], n), e2(o, r[1], n), frame(o, n))

            def nat(mod, a, k1=k1, k2=k2, names=names):
                ex = a["self"]
                try:
                    return (getattr(ex, k1)(a["fn"], *[a[p] for p in names[0]]), getattr(ex, k2)(a["fn"], *[a[p] for p in names[1]]))
                finally:
                    try:
                        ex.shutdown()
                    except Exception:  # pylint: disable=broad-except
                        pass
            contracts.append(Driver(wd, "PyNativeExec." + k2, [
                Case(f"{bname}-history-{k1}-then-{k2}", params, ensures=ens, size_bounded=True, native_gen=fix_model, native_call=nat)], src))

        # life cycle: shutdown() closes a persistent backend and only that; leaving a `with` block never closes a persistent backend
        def shut_ens(o, r, n):
            if not isinstance(n.self, Rec):
                return n.self._persist is False and n.self._persistent_backend is None
            p0 = o.self.f["_persist"]
            be0 = n.self.f.get("__be0")
            closed = isinstance(be0, Rec) and (be0.f.get("closed", True) is True or "closed" not in be0.f)
            after = n.self.f["_persist"] is False and n.self.f["_persistent_backend"] is None and closed
            untouched = (n.self.f["_persist"] is p0) and n.self.f["_persistent_backend"] is None
            return And(Implies(p0, after), Implies(z3.Not(p0), untouched))

        def keep_backend(ctx, name, wd=wd, bname=bname):
            r = exec_t(wd, bname).args[0](ctx, name)
            r.f["__be0"] = r.f["_persistent_backend"]           # ghost: the backend object the executor started with
            return r
        contracts.append(FnContract(wd, "PyNativeExec.shutdown", [
            Case(f"{bname}-closes-exactly-a-persistent-backend", {"self": T("build", keep_backend, gen=lambda rng: None)}, ensures=shut_ens,
                 size_bounded=True, native_gen=fix_model, native_call=lambda mod, a: a["self"].shutdown())]))
        wb = make_world(BASE, bname)
        wb.stub_realize = {bname: real_exec(bname)}

        def native_exit(mod, a):
            ex = a["self"]
            persistent = bool(ex._persist)
            try:
                ex.__exit__(None, None, None)
                if persistent:
                    try:
                        ex._c65_followup = ex.map(nat_p1, ["z1", "z2"])
                    except Exception as exc:  # pylint: disable=broad-except
                        ex._c65_followup = f"{type(exc).__name__}: {exc}"
            finally:
                try:
                    ex.shutdown()
                except Exception:  # pylint: disable=broad-except
                    pass
        contracts.append(FnContract(wb, "RemoteExec.__exit__", [
            Case(f"{bname}-leaving-a-with-block-keeps-a-persistent-backend-open",
                 {"self": exec_t(wb, bname), "exception_type": T("const", None), "exception_value": T("const", None), "traceback": T("const", None)},
                 ensures=lambda o, r, n: frame(o, n), size_bounded=True, native_gen=fix_model, native_call=native_exit)]))

    # ---- StdLibBackend (the serial backend object) verified from its body ---------------------------------------------------------
    ws = World(SERIAL, classes={"StdLibBackend": {}}, extra_builtins={})
    ws.extra_builtins.update({"map": b_map, "starmap": b_starmap, "list": b_list})
    for nm in FNS:
        ws.extra_builtins["user_" + nm] = user_fn(nm)

    def ws_partial(it, args, kw):
        f, pre = args[0], list(args[1:])
        name = it.ctx.fresh_name("partial")
        kw0 = dict(kw)
        ws.extra_builtins[name] = lambda it2, a2, k2: it2.call(f, pre + list(a2), {**kw0, **k2})
        return FuncRef("builtin", name)
    ws.extra_builtins["partial"] = ws_partial
    CLS = T("classref", "StdLibBackend")

    def native_static(method, pos, kwp):
        return lambda mod, a: getattr(mod.StdLibBackend, method)(a["fn"], *[a[p] for p in pos], **{k: a[p] for k, p in kwp.items()})

    cases_m, cases_s, cases_a = [], [], []
    for nm, withk, lens in MAP_SHAPES:
        params = {"cls": CLS, "fn": FN(nm)}
        pos = [f"s{i}" for i in range(len(lens))]
        for p, ln in zip(pos, lens):
            params[p] = ListT(Label, ln)
        kwp = {"k": "kv"} if withk else {}
        if withk:
            params["kv"] = Label
        cases_m.append(Case(shape_label(nm, withk, "lens" + "x".join(map(str, lens))), params, kwargs_map=kwp, ensures=map_post(pos, kwp),
                            size_bounded=True, native_gen=fix_model, native_call=native_static("map", pos, kwp)))
    for nm, withk, n in STAR_SHAPES:
        ar = len(FNS[nm]["pos"])
        params = {"cls": CLS, "fn": FN(nm), "data": ListT(TupleT(*[Label] * ar), n)}
        kwp = {"k": "kv"} if withk else {}
        if withk:
            params["kv"] = Label
        cases_s.append(Case(shape_label(nm, withk, f"{n}tuples"), params, kwargs_map=kwp, ensures=starmap_post(kwp), size_bounded=True,
                            native_gen=fix_model, native_call=native_static("starmap", ["data"], kwp)))
    for nm, withk in SUBMIT_SHAPES:
        ar = len(FNS[nm]["pos"])
        params = {"cls": CLS, "fn": FN(nm)}
        pos = [f"a{i}" for i in range(ar)]
        for p in pos:
            params[p] = Label
        kwp = {"k": "kv"} if withk else {}
        if withk:
            params["kv"] = Label
        cases_a.append(Case(shape_label(nm, withk, f"{ar}args"), params, kwargs_map=kwp, ensures=submit_post(pos, kwp), size_bounded=True,
                            native_gen=fix_model, native_call=native_static("submit", pos, kwp)))
    contracts += [FnContract(ws, "StdLibBackend.map", cases_m), FnContract(ws, "StdLibBackend.starmap", cases_s),
                  FnContract(ws, "StdLibBackend.submit", cases_a)]

    # F23 (open known finding, lead's decision): MPPoolExec.map raises ValueError on argument sequences of uneven length (zip(strict=True))
    # where builtin map truncates; the base-class docstring asks for consistent lengths, so the code is not repaired -- the property
    # statement's obligations stay as they are and are tagged as instances of the finding
    def f23(fc):
        if fc.qualname != "MPPoolExec.map":
            return None
        return {c.label: "F23" for c in fc.cases
                if len({p.args[1] for nm_, p in c.params.items() if nm_.startswith("s") and p.kind == "list"}) > 1}

    for fc in contracts:
        for case in fc.cases:
            case.interp_cls = OpaqueValuesInterp
        for ob in obligations_for("C65", fc, tier, finding=f23(fc)):
            plan.add(ob)
        plan.fn_under_contract(fc.world.file, fc.qualname)
    def history_standin(bname, persist):
        """bounded native stand-in: map, map, starmap, submit on ONE real executor, compared with the builtins after every call"""
        def run():
            import importlib
            import multiprocessing
            multiprocessing.current_process()._config["daemon"] = False          # replay harness: real pools from a checker worker
            mod = importlib.import_module(BACKENDS[bname]["file"][:-3].replace("/", "."))
            ex = getattr(mod, bname)(max_workers=1 if bname == "SerialExec" else 2, persist=persist)
            data, pairs = ["a", "b", "c"], [("a", "x"), ("b", "y")]
            steps = [("map#1", lambda: ex.map(nat_p1, data), list(map(nat_p1, data))),
                     ("map#2", lambda: ex.map(nat_p2, data, data[::-1]), list(map(nat_p2, data, data[::-1]))),
                     ("starmap#3", lambda: ex.starmap(nat_p2, pairs), list(itertools.starmap(nat_p2, pairs))),
                     ("submit#4", lambda: ex.submit(nat_p1k, "q", k="w"), nat_p1k("q", k="w")),
                     ("map#5", lambda: ex.map(nat_p1, data[:1]), list(map(nat_p1, data[:1])))]
            bad = []
            try:
                for label, call, want in steps:
                    try:
                        got = call()
                    except Exception as exc:  # pylint: disable=broad-except
                        got = f"{type(exc).__name__}: {exc}"
                    if got != want:
                        bad.append(dict(step=label, observed=repr(got)[:200], expected=repr(want)[:200]))
            finally:
                try:
                    ex.shutdown()
                except Exception:  # pylint: disable=broad-except
                    pass
            return bad

        def replay(w=None):
            bad = run()
            return dict(confirmed=bool(bad), mismatches=bad, backend=bname, persist=persist)

        def fn():
            rp = replay()
            if rp["confirmed"]:
                return Outcome(REFUTED, "native-standin", f"{bname}(persist={persist}): {rp['mismatches'][0]}", witness=dict(backend=bname, persist=persist,
                               sequence="map, map, starmap, submit, map"), replay=rp)
            return Outcome(DISCHARGED, "native-standin(bounded: one 5-call history)", "every call matched the builtin")
        return Obligation(f"C65/history:{bname}/persist-{persist}/five-calls-on-one-executor", "post", fn, bounded=True, replay=replay, timeout=300,
                          func=(API, "PyNativeExec.map"), sample="map, map, starmap, submit, map on one real executor == builtins after every call")
    for bname in BACKENDS:
        for persist in (True, False):
            plan.add(history_standin(bname, persist))

    for f, q in ((BASE, "RemoteExec._get_backend"), (BASE, "RemoteExec._submit_fn"), (BASE, "RemoteExec._map_fn"),
                 (SERIAL, "SerialExec._exec_backend"), (CONC, "ThreadPoolExec._exec_backend"), (CONC, "ProcPoolExec._exec_backend"),
                 (MULTI, "MPPoolExec._exec_backend"), (SERIAL, "SerialExec.__init__"), (CONC, "ThreadPoolExec.__init__"),
                 (CONC, "ProcPoolExec.__init__"), (MULTI, "MPPoolExec.__init__")):
        plan.fn_under_contract(f, q)
    plan.unverified = [
        "the schedule quantifier itself (completion orders, worker counts) -- discharged by the assumed stdlib contracts, not explored",
        "external backends (dask, MPI), create_executor / backend registry, RemoteExec.__call__ dispatch",
        "pool life cycle (persist / shutdown / __del__), pickling failures of user functions, exceptions raised by the user function",
        "functions with *args / keyword-only parameters; more than one keyword parameter; more argument sequences than 3",
    ]
    return plan
