"""C74 (tracking half): Pauli byproducts are propagated through Clifford gates correctly:  C . P(x,z) . C^dagger  ~  P(x',z').

Reference semantics (independent of the code under test): the xz encoding DENOTES  P(x, z) := X^x . Z^z  (refs/gates.py X, Z,
exact arithmetic; two-qubit frames are Kronecker products, control first); the Clifford matrices H, S, CNOT are the
reference matrices of refs/gates.py.  From them the conjugation table  CONJ[C](frame) = the unique frame f' with
C.P(frame).C^dagger proportional to P(f')  is DERIVED here in exact arithmetic (never read from the code), and

  * the real `_commute_h/_commute_s/_commute_cnot` are executed symbolically (E1, all integer inputs) and natively on
    EVERY frame (4 / 4 / 16: complete finite enumeration) and must return CONJ[C](frame);
  * the real `commute_clifford_op` must dispatch each supported gate to its table with xz[0] <-> first wire of the operator
    (the control of CNOT), and raise ValueError / NotImplementedError exactly on the documented bad inputs;
  * `xz_to_pauli` / `pauli_to_xz` are mutually inverse and the class returned for (x, z) has a matrix proportional to X^x.Z^z;
  * `pauli_prod` of a list of ANY length is the XOR-fold of the codes (E1 loop invariant, symbolic length), and XOR of codes
    is the matrix product up to a non-zero scalar (16-pair table lemma, exact) -- by induction on the list (base: one
    element, step: the table lemma) the fold denotes the product of the whole list up to phase.
"""
import itertools

import z3

from vf.common import Plan, Obligation, Outcome, DISCHARGED, REFUTED, FAULT
from vf.pyvc.engine import T, Int, SeqT, ListT, TupleT, RecT, Rec, SeqV, PyList, FuncRef
from vf.pyvc.contract import FnContract, Case, LoopSpec, obligations_for
from vf.pyvc.ext import XWorld, XInterp, Enum, EnumV, OpV, with_standin
from vf.pyvc.spec import And, Or, Not, Implies
from vf.symx.scalar import poly_matrix, pm_matmul, pm_dagger, pm_kron, pm_eye
from refs import gates as G

PT_FILE = "pennylane/ftqc/pauli_tracker.py"
FUNCS = ["pauli_to_xz", "xz_to_pauli", "pauli_prod", "_commute_h", "_commute_s", "_commute_cnot", "commute_clifford_op"]
BITS = (0, 1)
FRAMES1 = list(itertools.product(BITS, BITS))
FRAMES2 = list(itertools.product(BITS, BITS, BITS, BITS))


# ------------------------------------------------------------------------------------------------ exact reference semantics
def pm(m):
    return poly_matrix(m)


def P1(x, z):
    """X^x . Z^z  (exact)"""
    m = pm_eye(2)
    if x:
        m = pm_matmul(m, pm(G.X))
    if z:
        m = pm_matmul(m, pm(G.Z))
    return m


def P2(xc, zc, xt, zt):
    return pm_kron(P1(xc, zc), P1(xt, zt))


def proportional(a, b):
    """a == c*b entrywise for a scalar c != 0 (cross-multiplication against a pivot of b): exact"""
    piv = next(((i, j) for i in range(b.shape[0]) for j in range(b.shape[1]) if not b[i, j].is_zero()), None)
    if piv is None or a[piv].is_zero():
        return False
    for idx, x in __import__("numpy").ndenumerate(a):
        if not (x * b[piv] - a[piv] * b[idx]).is_zero():
            return False
    return True


def conj_table(C, frames, P):
    """frame -> the unique frame f' with C.P(frame).C^dagger ~ P(f')   (derived from the reference matrices only)"""
    out = {}
    Cd = pm_dagger(C)
    for f in frames:
        M = pm_matmul(pm_matmul(C, P(*f)), Cd)
        hits = [g for g in frames if proportional(M, P(*g))]
        if len(hits) != 1:
            raise RuntimeError(f"reference conjugation of frame {f} is not a single Pauli frame: {hits}")
        out[f] = hits[0]
    return out


REFS = None


def refs():
    global REFS
    if REFS is None:
        REFS = dict(H=conj_table(pm(G.H), FRAMES1, P1), S=conj_table(pm(G.S), FRAMES1, P1),
                    CNOT=conj_table(pm(G.CNOT), FRAMES2, P2))
        # the encoding of the four Paulis: name -> the unique (x, z) with matrix ~ X^x.Z^z
        mats = {"I": pm(G.I2), "X": pm(G.X), "Y": pm(G.Y), "Z": pm(G.Z)}
        REFS["XZ"] = {}
        for nm, m in mats.items():
            hits = [f for f in FRAMES1 if proportional(m, P1(*f))]
            assert len(hits) == 1, (nm, hits)
            REFS["XZ"][nm] = hits[0]
        REFS["MAT"] = mats
    return REFS


def real():
    """the module under test and pennylane of the tree under test"""
    import pennylane as qp
    from pennylane.ftqc import pauli_tracker as PT
    return qp, PT


def paulis(PT):
    return {"I": PT.I, "X": PT.X, "Y": PT.Y, "Z": PT.Z}


def native(name, fn, expected_desc, func, **kw):
    """complete finite enumeration obligation: fn() -> None (holds) or dict(observed=..., inputs=...)"""
    def run():
        bad = fn()
        if bad:
            return Outcome(REFUTED, "native-run+exact-matrices", f"{bad}", witness=dict(inputs=bad.get("inputs")),
                           replay=dict(confirmed=True, observed=bad.get("observed"), expected=bad.get("expected", expected_desc),
                                       inputs=bad.get("inputs")))
        return Outcome(DISCHARGED, "native-run+exact-matrices", expected_desc)
    return Obligation(name, "post", run, func=(PT_FILE, func), sample=expected_desc, timeout=300, **kw)


def call(f, *a):
    try:
        return ("ok", f(*a))
    except Exception as ex:  # pylint: disable=broad-except
        return ("raise", type(ex).__name__)


def as_frame(r):
    """list of xz tuples -> flat tuple of python ints"""
    return tuple(int(b) for t in r for b in t)


# ------------------------------------------------------------------------------------------------------------- the plan
def build(tier, seed):
    plan = Plan("C74", level="proof")
    plan.explanation = ("Conjugation tables of H, S, CNOT on Pauli frames are derived in exact arithmetic from independent reference "
                        "matrices (P(x,z) := X^x.Z^z); the real _commute_* / commute_clifford_op / xz_to_pauli / pauli_to_xz / pauli_prod "
                        "bodies are executed symbolically (z3, all integer inputs, lists of symbolic length) against these tables and, as the "
                        "frame domain is finite, additionally run natively on every frame (complete enumeration).")
    plan.trusted_base = ["vf/pyvc encoder + vf/pyvc/ext.py (enumeration values, dict indexing by path split, ^ on proven bits)",
                         "vf/symx exact ring (cyclotomic arithmetic)", "refs/gates.py matrices X, Y, Z, H, S, CNOT (hand transcription)",
                         "induction over the list for pauli_prod is stated, not left to the solver: base = one-element list (VC inv-init), "
                         "step = loop-invariant preservation (code) + 16-pair product table (matrices)"]
    plan.assumptions = ["operator instances are abstracted to their class (the functions inspect nothing else: isinstance / type / num_wires)",
                        "operator classes denote the reference matrices (X, Y, Z, I, H, S, CNOT): re-checked here exactly on compute_matrix, proved for all "
                        "parameters in C02", "A-float-constants for the 1/sqrt(2) entries of the real Hadamard matrix in that binding check"]
    plan.assumed_contracts = ["itertools.chain.from_iterable(list of tuples) == concatenation of the tuples in order",
                              "num_wires of H, S is 1 and of CNOT is 2 (read from the real classes at run time)"]
    plan.unverified = ["convert_to_mbqc_gateset / convert_to_mbqc_formalism (conversion half of the property)",
                       "_parse_mid_measurements, _get_xz_record, _correct_samples, get_byproduct_corrections: byproduct bookkeeping across a tape",
                       "measurement-branch correctness of the MBQC gate implementations", "numpy-array valued xz entries other than 0/1 integers",
                       "operators whose num_wires is None (Identity, GlobalPhase) as clifford_op"]
    plan.dropped = ["docstrings, annotations, exception messages"]
    R = refs()
    qp, PT = real()
    PA = paulis(PT)

    # ------------------------------------------------------------------ 0. bindings: classes <-> reference matrices
    def binding(nm, cls, ref):
        def fn():
            m = poly_matrix(cls.compute_matrix())
            if any(not (a - b).is_zero() for a, b in zip(m.flat, pm(ref).flat)):
                return dict(inputs=f"{cls.__name__}.compute_matrix()", observed=str(cls.compute_matrix()), expected="reference matrix of " + nm)
            return None
        return native(f"C74/binding:{nm}.compute_matrix==reference", fn, f"real {nm} operator class has the reference matrix (exact)", "pauli_to_xz")
    for nm, cls, ref in (("I", PT.I, G.I2), ("X", PT.X, G.X), ("Y", PT.Y, G.Y), ("Z", PT.Z, G.Z), ("H", PT.H, G.H), ("S", PT.S, G.S),
                         ("CNOT", PT.CNOT, G.CNOT)):
        plan.add(binding(nm, cls, ref))

    # ------------------------------------------------------------------ 1. encoding round trips (complete finite)
    for (x, z) in FRAMES1:
        def fn(x=x, z=z):
            st, cls = call(PT.xz_to_pauli, x, z)
            name = next((n for n, c in PA.items() if c is cls), None) if st == "ok" else None
            if name is None or not proportional(R["MAT"][name], P1(x, z)):
                return dict(inputs=dict(x=x, z=z), observed=f"{st}: {cls}", expected="a Pauli class whose matrix is proportional to X^x.Z^z")
            back = call(PT.pauli_to_xz, cls)
            back_i = call(PT.pauli_to_xz, cls(wires=0))
            if back != ("ok", (x, z)) or back_i != ("ok", (x, z)):
                return dict(inputs=dict(x=x, z=z), observed=dict(of_class=back, of_instance=back_i), expected="pauli_to_xz(xz_to_pauli(x, z)) == (x, z)")
            return None
        plan.add(native(f"C74/pauli_tracker:xz_to_pauli/denotes-X^x.Z^z+roundtrip[x={x},z={z}]", fn,
                        "xz_to_pauli(x,z) ~ X^x.Z^z exactly and pauli_to_xz inverts it (class and instance)", "xz_to_pauli"))
    for nm in "IXYZ":
        def fn(nm=nm):
            for op in (PA[nm], PA[nm](wires=0), PA[nm](wires="aux")):
                r = call(PT.pauli_to_xz, op)
                if r != ("ok", R["XZ"][nm]):
                    return dict(inputs=repr(op), observed=r, expected=f"{R['XZ'][nm]} (matrix of {nm} ~ X^x.Z^z)")
                st, cls = call(PT.xz_to_pauli, *r[1])
                if st != "ok" or cls is not PA[nm]:
                    return dict(inputs=repr(op), observed=f"{st}: {cls}", expected=f"xz_to_pauli(pauli_to_xz({nm})) is {nm}")
            return None
        plan.add(native(f"C74/pauli_tracker:pauli_to_xz/code-of-{nm}+roundtrip", fn,
                        "pauli_to_xz(P) is the (x,z) with P ~ X^x.Z^z and xz_to_pauli inverts it", "pauli_to_xz"))

    # ------------------------------------------------------------------ 2. product table: XOR of codes == matrix product up to phase
    for a, b in itertools.product("IXYZ", repeat=2):
        def fn(a=a, b=b):
            r = call(PT.pauli_prod, [PA[a](wires=0), PA[b](wires=0)])
            prod = pm_matmul(R["MAT"][a], R["MAT"][b])
            if r[0] != "ok" or len(r[1]) != 2 or tuple(r[1]) not in FRAMES1 or not proportional(prod, P1(*r[1])):
                return dict(inputs=[a, b], observed=r, expected="(x,z) with mat(a).mat(b) proportional to X^x.Z^z")
            xa, xb = R["XZ"][a], R["XZ"][b]
            if tuple(r[1]) != (xa[0] ^ xb[0], xa[1] ^ xb[1]):
                return dict(inputs=[a, b], observed=r, expected="XOR of the two codes")
            return None
        plan.add(native(f"C74/pauli_tracker:pauli_prod/table[{a}.{b}]", fn,
                        "pauli_prod([a,b]) == code(a) xor code(b) and mat(a).mat(b) ~ P(that code), exact", "pauli_prod"))
    n_max = 3 if tier == "quick" else 4

    def prod_lists():
        for n in range(1, n_max + 1):
            for word in itertools.product("IXYZ", repeat=n):
                m = pm_eye(2)
                for ch in word:
                    m = pm_matmul(m, R["MAT"][ch])
                for as_class in (False, True):
                    r = call(PT.pauli_prod, [PA[c] if as_class else PA[c](wires=0) for c in word])
                    if r[0] != "ok" or tuple(r[1]) not in FRAMES1 or not proportional(m, P1(*r[1])):
                        return dict(inputs=list(word), observed=r, expected="(x,z) with the matrix product of the list proportional to X^x.Z^z")
        return None
    plan.add(native(f"C74/pauli_tracker:pauli_prod/matrix-product-of-lists[len<={n_max}]", prod_lists,
                    "product of the matrices of every list of <= n Paulis ~ P(pauli_prod(list))", "pauli_prod", size_bounded=True))
    plan.size_bounds.append(f"end-to-end matrix confirmation of pauli_prod: all lists of length <= {n_max} (the E1 contract covers every length)")

    # ------------------------------------------------------------------ 3. every frame through the real commutation tables (complete finite)
    def frame_ob(gate, fname, frame, C, P):
        def fn():
            f = getattr(PT, fname)
            r = call(f, *frame)
            exp = R[gate][frame]
            ok = r[0] == "ok" and isinstance(r[1], list) and all(len(t) == 2 for t in r[1]) and as_frame(r[1]) == exp
            if ok:
                M = pm_matmul(pm_matmul(C, P(*frame)), pm_dagger(C))
                ok = proportional(M, P(*as_frame(r[1])))
            if not ok:
                return dict(inputs=dict(gate=gate, frame=list(frame)), observed=r,
                            expected=f"{exp}: the frame f' with C.P(frame).C^dagger proportional to P(f')")
            return None
        return native(f"C74/pauli_tracker:{fname}/frame[{','.join(map(str, frame))}]", fn,
                      f"{gate}.P(frame).{gate}^dagger ~ P({fname}(frame)), exact, non-zero scalar", fname)
    for fr in FRAMES1:
        plan.add(frame_ob("H", "_commute_h", fr, pm(G.H), P1))
        plan.add(frame_ob("S", "_commute_s", fr, pm(G.S), P1))
    for fr in FRAMES2:
        plan.add(frame_ob("CNOT", "_commute_cnot", fr, pm(G.CNOT), P2))

    # the dispatcher on real operator instances, all frames, several wire labelings; xz[0] <-> op.wires[0] (control)
    def dispatch_ob(gate, mk, frames, nw):
        def fn():
            import numpy as np
            for wires in (([0, 1], [1, 0], ["t", 5]) if nw == 2 else ([0], ["a"], [7])):
                op = mk(wires)
                # the operator's own matrix in its wire order is the reference matrix (first wire most significant)
                for fr in frames:
                    xz = [tuple(fr[2 * k: 2 * k + 2]) for k in range(nw)]
                    for conv in (lambda t: t, lambda t: tuple(np.uint8(b) for b in t), list):
                        r = call(PT.commute_clifford_op, op, [conv(t) for t in xz])
                        if r[0] != "ok" or as_frame(r[1]) != R[gate][fr]:
                            return dict(inputs=dict(op=repr(op), xz=[list(map(int, t)) for t in xz]), observed=repr(r),
                                        expected=f"{R[gate][fr]} (xz[0] is the frame on the first wire of the operator)")
            return None
        return native(f"C74/pauli_tracker:commute_clifford_op/dispatch[{gate}]/all-frames", fn,
                      f"commute_clifford_op({gate}(wires), frame) == CONJ[{gate}](frame) for every frame, wire labels irrelevant, "
                      "first wire = control", "commute_clifford_op")
    plan.add(dispatch_ob("H", lambda w: qp.H(wires=w), FRAMES1, 1))
    plan.add(dispatch_ob("S", lambda w: qp.S(wires=w), FRAMES1, 1))
    plan.add(dispatch_ob("CNOT", lambda w: qp.CNOT(wires=w), FRAMES2, 2))

    def cnot_wire_order():
        """the real CNOT(wires=[c, t]) in wire order [c, t] is the reference CNOT; in wire order [t, c] it is not"""
        for c, t in ((0, 1), (1, 0), ("a", "b")):
            m = poly_matrix(qp.matrix(qp.CNOT(wires=[c, t]), wire_order=[c, t]))
            if any(not (x - y).is_zero() for x, y in zip(m.flat, pm(G.CNOT).flat)):
                return dict(inputs=dict(wires=[c, t]), observed=str(m), expected="reference CNOT with the first wire as control")
        return None
    plan.add(native("C74/binding:CNOT(wires=[c,t]).matrix(wire_order=[c,t])==reference", cnot_wire_order,
                    "first wire of CNOT is the control (most significant) in the reference convention", "commute_clifford_op"))

    def bad_inputs():
        cases = [((qp.S(0), [(1, 1), (0, 0)]), "ValueError"), ((qp.CNOT([0, 1]), [(1, 1)]), "ValueError"), ((qp.H(0), []), "ValueError"),
                 ((qp.S(0), [(1, 1, 0)]), "ValueError"), ((qp.CNOT([0, 1]), [(1, 1), (0,)]), "ValueError"),
                 ((qp.S(0), [(1, 2)]), "ValueError"), ((qp.H(0), [(-1, 0)]), "ValueError"), ((qp.CNOT([0, 1]), [(0, 0), (0, 3)]), "ValueError"),
                 ((qp.T(0), [(1, 1)]), "NotImplementedError"), ((qp.CZ([0, 1]), [(1, 1), (0, 0)]), "NotImplementedError"),
                 ((qp.X(0), [(0, 0)]), "NotImplementedError"), ((qp.T(0), [(1, 1), (0, 0)]), "ValueError")]
        for (op, xz), exc in cases:
            r = call(PT.commute_clifford_op, op, xz)
            if r != ("raise", exc):
                return dict(inputs=dict(op=repr(op), xz=[list(t) for t in xz]), observed=r, expected=f"raises {exc}")
        for bad in ((2, 0), (0, 2), (-1, 1), (1, 5)):
            r = call(PT.xz_to_pauli, *bad)
            if r != ("raise", "ValueError"):
                return dict(inputs=dict(xz=bad), observed=r, expected="xz_to_pauli raises ValueError")
        for op in (qp.H(0), qp.S, qp.CNOT([0, 1]), qp.RZ(0.3, 0)):
            r = call(PT.pauli_to_xz, op)
            if r != ("raise", "NotImplementedError"):
                return dict(inputs=repr(op), observed=r, expected="pauli_to_xz raises NotImplementedError")
        if call(PT.pauli_prod, []) != ("raise", "ValueError"):
            return dict(inputs=[], observed=call(PT.pauli_prod, []), expected="pauli_prod([]) raises ValueError")
        return None
    plan.add(native("C74/pauli_tracker:commute_clifford_op/documented-errors[real-operators]", bad_inputs,
                    "wrong xz length / tuple arity / non-bit entries -> ValueError; unsupported operators -> NotImplementedError", "commute_clifford_op",
                    bounded=True))

    # ------------------------------------------------------------------ 4. E1: the real bodies, all integer inputs / all list lengths
    KIND = Enum("OpKind", ["I", "X", "Y", "Z", "Other"])
    stub = lambda n: (f"class {n}:\n    pass\n", {})
    nw = {"S": PT.S.num_wires, "H": PT.H.num_wires, "CNOT": PT.CNOT.num_wires}
    stubs = {n: stub(n) for n in ("I", "X", "Y", "Z", "RZ", "RotXZX")}
    for n in ("S", "H", "CNOT", "OtherOp"):
        stubs[n] = (f"class {n}:\n    pass\n", {"num_wires": Int})

    def chain_from_iterable(it, args, kw):
        out = []
        for t in it.iter_concrete(args[0]):
            out.extend(it.iter_concrete(t))
        return PyList(out)
    w = XWorld(PT_FILE, stubs=stubs, functions=FUNCS, extra_builtins={"itertools.chain.from_iterable": chain_from_iterable})
    w.stub_realize = {"S": lambda f: qp.S(0), "H": lambda f: qp.H("w"), "CNOT": lambda f: qp.CNOT([1, 0]),
                      "OtherOp": lambda f: {1: qp.T(0), 2: qp.CZ([0, 1]), 3: qp.Toffoli([0, 1, 2])}.get(f.get("num_wires"), qp.T(0))}

    def sym(*xs):
        return any(isinstance(x, (z3.ExprRef, SeqV, Rec, PyList, EnumV, OpV)) or (isinstance(x, tuple) and sym(*x)) for x in xs)

    def frame_eq(result, n, expected_of):
        """result == [(..), ..] with n tuples equal to expected_of(frame) for the frame given by the inputs (table by cases)"""
        return expected_of(result)

    def table_post(gate, bits_of, ntuples):
        """ensures: result is a list of `ntuples` pairs equal to CONJ[gate](input frame)"""
        def ens(o, r, n):
            bits = bits_of(o)
            if sym(r) or sym(*bits):
                items = r.items if isinstance(r, PyList) else None
                if items is None or len(items) != ntuples or any(not isinstance(t, tuple) or len(t) != 2 for t in items):
                    return False
                flat = [b for t in items for b in t]
                conj = []
                for fr, out in R[gate].items():
                    conj.append(Implies(And(*[bi == v for bi, v in zip(bits, fr)]), And(*[fb == ov for fb, ov in zip(flat, out)])))
                return And(*conj)
            fr = tuple(int(b) for b in bits)
            return isinstance(r, list) and len(r) == ntuples and all(len(t) == 2 for t in r) and as_frame(r) == R[gate][fr]
        return ens

    def are_bits(*xs):
        return And(*[Or(x == 0, x == 1) for x in xs])

    contracts = []
    contracts.append(FnContract(w, "_commute_h", [Case("all-frames", {"x": Int, "z": Int}, requires=lambda a: are_bits(a.x, a.z),
                                                       ensures=table_post("H", lambda o: (o.x, o.z), 1))]))
    contracts.append(FnContract(w, "_commute_s", [Case("all-frames", {"x": Int, "z": Int}, requires=lambda a: are_bits(a.x, a.z),
                                                       ensures=table_post("S", lambda o: (o.x, o.z), 1))]))
    contracts.append(FnContract(w, "_commute_cnot", [Case("all-frames", {"xc": Int, "zc": Int, "xt": Int, "zt": Int},
                                                          requires=lambda a: are_bits(a.xc, a.zc, a.xt, a.zt),
                                                          ensures=table_post("CNOT", lambda o: (o.xc, o.zc, o.xt, o.zt), 2))]))

    # xz_to_pauli: every pair of integers
    def cls_is(r, nm):
        if isinstance(r, FuncRef):
            return r.kind == "class" and r.name == nm
        return r is PA[nm]

    def xz_post(o, r, n):
        return And(*[Implies(And(o.x == fr[0], o.z == fr[1]), cls_is(r, nm)) for nm, fr in R["XZ"].items()])
    contracts.append(FnContract(w, "xz_to_pauli", [Case("all-integers", {"x": Int, "z": Int}, ensures=xz_post,
                                                        raises={"ValueError": lambda o: Not(are_bits(o.x, o.z))},
                                                        must_return=lambda o: are_bits(o.x, o.z))]))

    # pauli_to_xz: instance / class of each kind (Other = any operator that is not one of the four Paulis)
    real_of_kind = {"I": PT.I, "X": PT.X, "Y": PT.Y, "Z": PT.Z, "Other": PT.H}
    for kind in KIND.values:
        for is_class in (False, True):
            v = OpV(kind, is_class, KIND)

            def ncall(mod, a, kind=kind, is_class=is_class):
                c = real_of_kind[kind]
                return mod.pauli_to_xz(c if is_class else c(wires=0))
            contracts.append(FnContract(w, "pauli_to_xz", [
                Case(f"{'class' if is_class else 'instance'}-{kind}", {"op": T("const", v)},
                     ensures=(lambda o, r, n, kind=kind: kind in R["XZ"] and isinstance(r, tuple) and tuple(r) == R["XZ"][kind]),
                     raises={"NotImplementedError": lambda o, kind=kind: kind == "Other"},
                     must_return=lambda o, kind=kind: kind != "Other", native_call=ncall)]))

    # pauli_prod: list of symbolic length; elements are operator instances (or classes) of symbolic kind
    # (a world of its own: the quantified sequence axioms stay out of the other, quantifier-free, contracts)
    w_seq = XWorld(PT_FILE, stubs=stubs, functions=FUNCS)
    TI = w_seq.aseq(Int)                  # axiomatic finite sequences of kind codes
    XF = [z3.Function("xorfold_x", TI.sort, z3.IntSort(), z3.IntSort()), z3.Function("xorfold_z", TI.sort, z3.IntSort(), z3.IntSort())]

    def bit_of(kterm, which):
        """spec: bit `which` of the reference code of the Pauli with kind term kterm"""
        e = z3.IntVal(0)
        for nm, fr in R["XZ"].items():
            e = z3.If(kterm == KIND.code[nm], z3.IntVal(fr[which]), e)
        return e

    def xor(a, b):
        return z3.If(a == b, z3.IntVal(0), z3.IntVal(1))

    def is_pauli(kterm):
        return z3.And(kterm >= 0, kterm <= 3)

    def fold_axioms(s, k):
        """instances of the recursive definition  XF(s,1) = bit(s[0]);  XF(s,k+1) = XF(s,k) xor bit(s[k])"""
        out = []
        for which in (0, 1):
            out.append(XF[which](s, 1) == bit_of(TI.AT(s, 0), which))
            out.append(XF[which](s, k + 1) == xor(XF[which](s, k), bit_of(TI.AT(s, k), which)))
        return out

    def native_fold(kinds):
        x = z = 0
        for kd in kinds:
            fr = R["XZ"][KIND.values[kd]]
            x, z = x ^ fr[0], z ^ fr[1]
        return (x, z)

    for is_class in (False, True):
        ELEM = KIND.T(wrap=lambda e, is_class=is_class: OpV(e, is_class, KIND))

        def all_kinds(v):
            k = z3.Int("k_el")
            return z3.ForAll([k], z3.Implies(z3.And(0 <= k, k < TI.LEN(v.term)), z3.And(TI.AT(v.term, k) >= 0, TI.AT(v.term, k) <= 4)),
                             patterns=[TI.AT(v.term, k)])
        OPS = T("build", lambda ctx, nm, ELEM=ELEM: SeqV(z3.Const(ctx.fresh_name(nm), TI.sort), ELEM, False), where=all_kinds,
                gen=lambda rng: [rng.randint(0, 4) for _ in range(rng.choice([0, 1, 1, 2, 3, 4, 6]))])

        def every(s, pred, upto=None):
            if isinstance(s, SeqV):
                k = z3.Int("k_ev")
                hi = TI.LEN(s.term) if upto is None else upto
                return z3.ForAll([k], z3.Implies(z3.And(0 <= k, k < hi), pred(TI.AT(s.term, k))), patterns=[TI.AT(s.term, k)])
            return all(0 <= kd <= 3 for kd in s)

        def ln(s):
            return TI.LEN(s.term) if isinstance(s, SeqV) else len(s)

        def bits_inv(v):
            return z3.And(v.res_x >= 0, v.res_x <= 1, v.res_z >= 0, v.res_z <= 1)

        def prod_inv(v):
            s, i = v.ops.term, 1 + v._i0
            return z3.And(i <= TI.LEN(s), v.res_x == XF[0](s, i), v.res_z == XF[1](s, i), bits_inv(v))

        def prod_post(o, r, n):
            if isinstance(o.ops, SeqV):
                s = o.ops.term
                return isinstance(r, tuple) and len(r) == 2 and z3.And(r[0] == XF[0](s, TI.LEN(s)), r[1] == XF[1](s, TI.LEN(s)))
            return isinstance(r, tuple) and (int(r[0]), int(r[1])) == native_fold(o.ops)

        def ncall(mod, a, is_class=is_class):
            ops = [real_of_kind[KIND.values[kd]] for kd in a["ops"]]
            return mod.pauli_prod(ops if is_class else [c(wires=0) for c in ops])

        def ngen(rng, m):
            return dict(m, ops=[rng.randint(0, 4) for _ in range(rng.choice([0, 1, 1, 2, 3, 4, 6]))])
        lab = "classes" if is_class else "instances"
        contracts.append(FnContract(w_seq, "pauli_prod", [
            Case(f"list-of-pauli-{lab}", {"ops": OPS}, requires=lambda a: every(a.ops, is_pauli),
                 loops={0: LoopSpec(inv=prod_inv, axioms=lambda v: fold_axioms(v.ops.term, 1 + v._i0))},
                 axioms=lambda o, r, n: fold_axioms(o.ops.term, 1)[:1] + fold_axioms(o.ops.term, 1)[2:3],
                 ensures=prod_post, raises={"ValueError": lambda o: ln(o.ops) == 0}, must_return=lambda o: ln(o.ops) > 0,
                 native_call=ncall, native_gen=ngen),
            Case(f"list-with-a-non-pauli-{lab}", {"ops": OPS}, requires=lambda a: Not(every(a.ops, is_pauli)),
                 loops={0: LoopSpec(inv=lambda v: z3.And(1 + v._i0 <= TI.LEN(v.ops.term), every(v.ops, is_pauli, upto=1 + v._i0), bits_inv(v)))},
                 ensures=lambda o, r, n: False, raises={"NotImplementedError": lambda o: True}, native_call=ncall, native_gen=ngen)]))

    # commute_clifford_op: each operator class x list shapes; entries arbitrary integers
    def opT(name):
        if name == "OtherOp":
            return T("rec", name, where=lambda v: v.f["num_wires"] >= 1)
        return T("rec", name, where=lambda v, name=name: v.f["num_wires"] == nw[name])

    def entries(o):
        xs = o.xz.items if isinstance(o.xz, PyList) else o.xz
        return [b for t in xs for b in t]

    def nwires(o):
        return o.clifford_op.f["num_wires"] if isinstance(o.clifford_op, Rec) else o.clifford_op.num_wires

    max_len = 3
    plan.size_bounds.append(f"commute_clifford_op: xz lists of length 0..{max_len} with symbolic integer entries (plus: ANY length different "
                            "from num_wires raises ValueError, symbolic length); tuple arities 1, 2, 3")
    for name, gate in (("S", "S"), ("H", "H"), ("CNOT", "CNOT"), ("OtherOp", None)):
        cases = []
        for n in range(0, max_len + 1):
            XZ = ListT(TupleT(Int, Int), n)
            good_len = (lambda o, n=n: nwires(o) == n)

            def ok_inputs(o, n=n):
                return And(nwires(o) == n, are_bits(*entries(o)) if n else True)
            if gate is not None:
                ens = table_post(gate, entries, nw[gate]) if n == nw[gate] else (lambda o, r, nn: False)
                cases.append(Case(f"xz-of-{n}-pairs", {"clifford_op": opT(name), "xz": XZ}, ensures=ens,
                                  raises={"ValueError": lambda o, f=ok_inputs: Not(f(o))}, must_return=ok_inputs, size_bounded=True))
            else:
                cases.append(Case(f"xz-of-{n}-pairs", {"clifford_op": opT(name), "xz": XZ}, ensures=lambda o, r, nn: False,
                                  raises={"ValueError": lambda o, f=ok_inputs: Not(f(o)), "NotImplementedError": ok_inputs}, size_bounded=True))
        # wrong tuple arity (with the right list length): ValueError
        for ar in (1, 3):
            n = nw.get(name, 1)
            XZ = ListT(TupleT(*([Int] * ar)), n)
            cases.append(Case(f"pairs-of-arity-{ar}", {"clifford_op": opT(name), "xz": XZ}, ensures=lambda o, r, nn: False,
                              raises={"ValueError": lambda o: True}, size_bounded=True))
        # any length different from num_wires
        cases.append(Case("any-length-mismatch", {"clifford_op": opT(name), "xz": SeqT(TupleT(Int, Int))},
                          requires=lambda a: z3.Length(a.xz.term) != a.clifford_op.f["num_wires"] if isinstance(a.xz, SeqV)
                          else len(a.xz) != nwires(a),
                          ensures=lambda o, r, nn: False, raises={"ValueError": lambda o: True}))
        contracts.append(FnContract(w, "commute_clifford_op", cases))
        for c in cases:
            c.label = f"{name}/{c.label}"

    for fc in contracts:
        for case in fc.cases:
            case.interp_cls = XInterp
        for ob, case in zip(obligations_for("C74", fc, tier), fc.cases):
            plan.add(with_standin(ob, fc, case))
        plan.fn_under_contract(PT_FILE, fc.qualname)
    return plan
