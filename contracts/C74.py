"""C74 (tracking half): Pauli byproducts are propagated through Clifford gates correctly:  C . P(x,z) . C^dagger  ~  P(x',z').

Reference semantics (independent of the code under test): the xz encoding DENOTES  P(x, z) := X^x . Z^z  (refs/gates.py X, Z,
exact arithmetic; two-qubit frames are Kronecker products, control first); the Clifford matrices H, S, CNOT are the
reference matrices of refs/gates.py.  From them the conjugation table  CONJ[C](frame) = the unique frame f' with
C.P(frame).C^dagger proportional to P(f')  is DERIVED here in exact arithmetic (never read from the code), and

  * the real `_commute_h/_commute_s/_commute_cnot` are executed symbolically (E1, all integer inputs) and natively on
    EVERY frame (4 / 4 / 16: complete finite enumeration) and must return CONJ[C](frame);
  * the real `commute_clifford_op` must dispatch each supported gate to its table with xz[0] <-> first wire of the operator
    (the control of CNOT), and raise ValueError / NotImplementedError exactly on the documented bad inputs;
  * `xz_to_pauli` / `pauli_to_xz` are mutually inverse and the class returned for (x, z) has a matrix proportional to X^x.Z^z;
  * `pauli_prod` of a list of ANY length is the XOR-fold of the codes (E1 loop invariant, symbolic length), and XOR of codes
    is the matrix product up to a non-zero scalar (16-pair table lemma, exact) -- by induction on the list (base: one
    element, step: the table lemma) the fold denotes the product of the whole list up to phase.
"""
import itertools

import z3

from vf.common import Plan, Obligation, Outcome, DISCHARGED, REFUTED, FAULT
from vf.pyvc.engine import T, Int, SeqT, ListT, TupleT, RecT, Rec, SeqV, PyList, FuncRef
from vf.pyvc.contract import FnContract, Case, LoopSpec, obligations_for
from vf.pyvc.ext import XWorld, XInterp, Enum, EnumV, OpV, with_standin
from vf.pyvc.spec import And, Or, Not, Implies
from vf.symx.scalar import poly_matrix, pm_matmul, pm_dagger, pm_kron, pm_eye
from refs import gates as G

PT_FILE = "pennylane/ftqc/pauli_tracker.py"
FUNCS = ["pauli_to_xz", "xz_to_pauli", "pauli_prod", "_commute_h", "_commute_s", "_commute_cnot", "commute_clifford_op"]
BITS = (0, 1)
FRAMES1 = list(itertools.product(BITS, BITS))
FRAMES2 = list(itertools.product(BITS, BITS, BITS, BITS))


# ------------------------------------------------------------------------------------------------ exact reference semantics
def pm(m):
    return poly_matrix(m)


def P1(x, z):
    """X^x . Z^z  (exact)"""
    m = pm_eye(2)
    if x:
        m = pm_matmul(m, pm(G.X))
    if z:
        m = pm_matmul(m, pm(G.Z))
    return m


def P2(xc, zc, xt, zt):
    return pm_kron(P1(xc, zc), P1(xt, zt))


def proportional(a, b):
    """a == c*b entrywise for a scalar c != 0 (cross-multiplication against a pivot of b): exact"""
    piv = next(((i, j) for i in range(b.shape[0]) for j in range(b.shape[1]) if not b[i, j].is_zero()), None)
    if piv is None or a[piv].is_zero():
        return False
    for idx, x in __import__("numpy").ndenumerate(a):
        if not (x * b[piv] - a[piv] * b[idx]).is_zero():
            return False
    return True


def conj_table(C, frames, P):
    """frame -> the unique frame f' with C.P(frame).C^dagger ~ P(f')   (derived from the reference matrices only)"""
    out = {}
    Cd = pm_dagger(C)
    for f in frames:
        M = pm_matmul(pm_matmul(C, P(*f)), Cd)
        hits = [g for g in frames if proportional(M, P(*g))]
        if len(hits) != 1:
            raise RuntimeError(f"reference conjugation of frame {f} is not a single Pauli frame: {hits}")
        out[f] = hits[0]
    return out


REFS = None


def refs():
    global REFS
    if REFS is None:
        REFS = dict(H=conj_table(pm(G.H), FRAMES1, P1), S=conj_table(pm(G.S), FRAMES1, P1),
                    CNOT=conj_table(pm(G.CNOT), FRAMES2, P2))
        # the encoding of the four Paulis: name -> the unique (x, z) with matrix ~ X^x.Z^z
        mats = {"I": pm(G.I2), "X": pm(G.X), "Y": pm(G.Y), "Z": pm(G.Z)}
        REFS["XZ"] = {}
        for nm, m in mats.items():
            hits = [f for f in FRAMES1 if proportional(m, P1(*f))]
            assert len(hits) == 1, (nm, hits)
            REFS["XZ"][nm] = hits[0]
        REFS["MAT"] = mats
    return REFS


def real():
    """the module under test and pennylane of the tree under test"""
    import pennylane as qp
    from pennylane.ftqc import pauli_tracker as PT
    return qp, PT


def paulis(PT):
    return {"I": PT.I, "X": PT.X, "Y": PT.Y, "Z": PT.Z}


def native(name, fn, expected_desc, func, **kw):
    """complete finite enumeration obligation: fn() -> None (holds) or dict(observed=..., inputs=...)"""
    def run():
        bad = fn()
        if bad:
            return Outcome(REFUTED, "native-run+exact-matrices", f"{bad}", witness=dict(inputs=bad.get("inputs")),
                           replay=dict(confirmed=True, observed=bad.get("observed"), expected=bad.get("expected", expected_desc),
                                       inputs=bad.get("inputs")))
        return Outcome(DISCHARGED, "native-run+exact-matrices", expected_desc)
    return Obligation(name, "post", run, func=(PT_FILE, func), sample=expected_desc, timeout=300, **kw)


def call(f, *a):
    try:
        return ("ok", f(*a))
    except Exception as ex:  # pylint: disable=broad-except
        return ("raise", type(ex).__name__)


def as_frame(r):
    """list of xz tuples -> flat tuple of python ints"""
    return tuple(int(b) for t in r for b in t)


# ------------------------------------------------------------------------------------------------------------- the plan
def build(tier, seed):
    plan = Plan("C74", level="proof")
    plan.explanation = ("Conjugation tables of H, S, CNOT on Pauli frames are derived in exact arithmetic from independent reference "
                        "matrices (P(x,z) := X^x.Z^z); the real _commute_* / commute_clifford_op / xz_to_pauli / pauli_to_xz / pauli_prod "
                        "bodies are executed symbolically (z3, all integer inputs, lists of symbolic length) against these tables and, as the "
                        "frame domain is finite, additionally run natively on every frame (complete enumeration).")
    plan.trusted_base = ["vf/pyvc encoder + vf/pyvc/ext.py (enumeration values, dict indexing by path split, ^ on proven bits)",
                         "vf/symx exact ring (cyclotomic arithmetic)", "refs/gates.py matrices X, Y, Z, H, S, CNOT (hand transcription)",
                         "induction over the list for pauli_prod is stated, not left to the solver: base = one-element list (VC inv-init), "
                         "step = loop-invariant preservation (code) + 16-pair product table (matrices)"]
    plan.assumptions = ["operator instances are abstracted to their class (the functions inspect nothing else: isinstance / type / num_wires)",
                        "operator classes denote the reference matrices (X, Y, Z, I, H, S, CNOT): re-checked here exactly on compute_matrix, proved for all "
                        "parameters in C02", "A-float-constants for the 1/sqrt(2) entries of the real Hadamard matrix in that binding check"]
    plan.assumed_contracts = ["itertools.chain.from_iterable(list of tuples) == concatenation of the tuples in order",
                              "num_wires of H, S is 1 and of CNOT is 2 (read from the real classes at run time)"]
    plan.unverified = ["convert_to_mbqc_gateset / convert_to_mbqc_formalism (conversion half of the property)",
                       "_parse_mid_measurements, _get_xz_record, _correct_samples, get_byproduct_corrections: byproduct bookkeeping across a tape",
                       "measurement-branch correctness of the MBQC gate implementations", "numpy-array valued xz entries other than 0/1 integers",
                       "operators whose num_wires is None (Identity, GlobalPhase) as clifford_op"]
    plan.dropped = ["docstrings, annotations, exception messages"]
    R = refs()
    qp, PT = real()
    PA = paulis(PT)

    # ------------------------------------------------------------------ 0. bindings: classes <-> reference matrices
    def binding(nm, cls, ref):
        def fn():
            m = poly_matrix(cls.compute_matrix())
            if any(not (a - b).is_zero() for a, b in zip(m.flat, pm(ref).flat)):
                return dict(inputs=f"{cls.__name__}.compute_matrix()", observed=str(cls.compute_matrix()), expected="reference matrix of " + nm)
            return None
        return native(f"C74/binding:{nm}.compute_matrix==reference", fn, f"real {nm} operator class has the reference matrix (exact)", "pauli_to_xz")
    for nm, cls, ref in (("I", PT.I, G.I2), ("X", PT.X, G.X), ("Y", PT.Y, G.Y), ("Z", PT.Z, G.Z), ("H", PT.H, G.H), ("S", PT.S, G.S),
                         ("CNOT", PT.CNOT, G.CNOT)):
        plan.add(binding(nm, cls, ref))

    # ------------------------------------------------------------------ 1. encoding round trips (complete finite)
    for (x, z) in FRAMES1:
        def fn(x=x, z=z):
            st, cls = call(PT.xz_to_pauli, x, z)
            name = next((n for n, c in PA.items() if c is cls), None) if st == "ok" else None
            if name is None or not proportional(R["MAT"][name], P1(x, z)):
                return dict(inputs=dict(x=x, z=z), observed=f"{st}: {cls}", expected="a Pauli class whose matrix is proportional to X^x.Z^z")
            back = call(PT.pauli_to_xz, cls)
            back_i = call(PT.pauli_to_xz, cls(wires=0))
            if back != ("ok", (x, z)) or back_i != ("ok", (x, z)):
                return dict(inputs=dict(x=x, z=z), observed=dict(of_class=back, of_instance=back_i), expected="pauli_to_xz(xz_to_pauli(x, z)) == (x, z)")
            return None
        plan.add(native(f"C74/pauli_tracker:xz_to_pauli/denotes-X^x.Z^z+roundtrip[x={x},z={z}]", fn,
                        "xz_to_pauli(x,z) ~ X^x.Z^z exactly and pauli_to_xz inverts it (class and instance)", "xz_to_pauli"))
    for nm in "IXYZ":
        def fn(nm=nm):
            for op in (PA[nm], PA[nm](wires=0), PA[nm](wires="aux")):
                r = call(PT.pauli_to_xz, op)
                if r != ("ok", R["XZ"][nm]):
                    return dict(inputs=repr(op), observed=r, expected=f"{R['XZ'][nm]} (matrix of {nm} ~ X^x.Z^z)")
                st, cls = call(PT.xz_to_pauli, *r[1])
                if st != "ok" or cls is not PA[nm]:
                    return dict(inputs=repr(op), observed=f"{st}: {cls}", expected=f"xz_to_pauli(pauli_to_xz({nm})) is {nm}")
            return None
        plan.add(native(f"C74/pauli_tracker:pauli_to_xz/code-of-{nm}+roundtrip", fn,
                        "pauli_to_xz(P) is the (x,z) with P ~ X^x.Z^z and xz_to_pauli inverts it", "pauli_to_xz"))

    # ------------------------------------------------------------------ 2. product table: XOR of codes == matrix product up to phase
    for a, b in itertools.product("IXYZ", repeat=2):
        def fn(a=a, b=b):
            r = call(PT.pauli_prod, [PA[a](wires=0), PA[b](wires=0)])
            prod = pm_matmul(R["MAT"][a], R["MAT"][b])
            if r[0] != "ok" or len(r[1]) != 2 or tuple(r[1]) not in FRAMES1 or not proportional(prod, P1(*r[1])):
                return dict(inputs=[a, b], observed=r, expected="(x,z) with mat(a).mat(b) proportional to X^x.Z^z")
            xa, xb = R["XZ"][a], R["XZ"][b]
            if tuple(r[1]) != (xa[0] ^ xb[0], xa[1] ^ xb[1]):
                return dict(inputs=[a, b], observed=r, expected="XOR of the two codes")
            return None
        plan.add(native(f"C74/pauli_tracker:pauli_prod/table[{a}.{b}]", fn,
                        "pauli_prod([a,b]) == code(a) xor code(b) and mat(a).mat(b) ~ P(that code), exact", "pauli_prod"))
    n_max = 3 if tier == "quick" else 4

    def prod_lists():
        for n in range(1, n_max + 1):
            for word in itertools.product("IXYZ", repeat=n):
                m = pm_eye(2)
                for ch in word:
                    m = pm_matmul(m, R["MAT"][ch])
                for as_class in (False, True):
                    r = call(PT.pauli_prod, [PA[c] if as_class else PA[c](wires=0) for c in word])
                    if r[0] != "ok" or tuple(r[1]) not in FRAMES1 or not proportional(m, P1(*r[1])):
                        return dict(inputs=list(word), observed=r, expected="(x,z) with the matrix product of the list proportional to X^x.Z^z")
        return None
    plan.add(native(f"C74/pauli_tracker:pauli_prod/matrix-product-of-lists[len<={n_max}]", prod_lists,
                    "product of the matrices of every list of <= n Paulis ~ P(pauli_prod(list))", "pauli_prod", size_bounded=True))
    plan.size_bounds.append(f"end-to-end matrix confirmation of pauli_prod: all lists of length <= {n_max} (the E1 contract covers every length)")

    # ------------------------------------------------------------------ 3. every frame through the real commutation tables (complete finite)
    def frame_ob(gate, fname, frame, C, P):
        def fn():
            f = getattr(PT, fname)
            r = call(f, *frame)
            exp = R[gate][frame]
            ok = r[0] == "ok" and isinstance(r[1], list) and all(len(t) == 2 for t in r[1]) and as_frame(r[1]) == exp
            if ok:
                M = pm_matmul(pm_matmul(C, P(*frame)), pm_dagger(C))
                ok = proportional(M, P(*as_frame(r[1])))
            if not ok:
                return dict(inputs=dict(gate=gate, frame=list(frame)), observed=r,
                            expected=f"{exp}: the frame f' with C.P(frame).C^dagger proportional to P(f')")
            return None
        return native(f"C74/pauli_tracker:{fname}/frame[{','.join(map(str, frame))}]", fn,
                      f"{gate}.P(frame).{gate}^dagger ~ P({fname}(frame)), exact, non-zero scalar", fname)
    for fr in FRAMES1:
        plan.add(frame_ob("H", "_commute_h", fr, pm(G.H), P1))
        plan.add(frame_ob("S", "_commute_s", fr, pm(G.S), P1))
    for fr in FRAMES2:
        plan.add(frame_ob("CNOT", "_commute_cnot", fr, pm(G.CNOT), P2))

    # the dispatcher on real operator instances, all frames, several wire labelings; xz[0] <-> op.wires[0] (control)
    def dispatch_ob(gate, mk, frames, nw):
        def fn():
            import numpy as np
            for wires in (([0, 1], [1, 0], ["t", 5]) if nw == 2 else ([0], ["a"], [7])):
                op = mk(wires)
                # the operator's own matrix in its wire order is the reference matrix (first wire most significant)
                for fr in frames:
                    xz = [tuple(fr[2 * k: 2 * k + 2]) for k in range(nw)]
                    for conv in (lambda t: t, lambda t: tuple(np.uint8(b) for b in t), list):
                        r = call(PT.commute_clifford_op, op, [conv(t) for t in xz])
                        if r[0] != "ok" or as_frame(r[1]) != R[gate][fr]:
                            return dict(inputs=dict(op=repr(op), xz=[list(map(int, t)) for t in xz]), observed=repr(r),
                                        expected=f"{R[gate][fr]} (xz[0] is the frame on the first wire of the operator)")
            return None
        return native(f"C74/pauli_tracker:commute_clifford_op/dispatch[{gate}]/all-frames", fn,
                      f"commute_clifford_op({gate}(wires), frame) == CONJ[{gate}](frame) for every frame, wire labels irrelevant, "
                      "first wire = control", "commute_clifford_op")
    plan.add(dispatch_ob("H", lambda w: qp.H(wires=w), FRAMES1, 1))
    plan.add(dispatch_ob("S", lambda w: qp.S(wires=w), FRAMES1, 1))
    plan.add(dispatch_ob("CNOT", lambda w: qp.CNOT(wires=w), FRAMES2, 2))

    def cnot_wire_order():
        """the real CNOT(wires=[c, t]) in wire order [c, t] is the reference CNOT; in wire order [t, c] it is not"""
        for c, t in ((0, 1), (1, 0), ("a", "b")):
            m = poly_matrix(qp.matrix(qp.CNOT(wires=[c, t]), wire_order=[c, t]))
            if any(not (x - y).is_zero() for x, y in zip(m.flat, pm(G.CNOT).flat)):
                return dict(inputs=dict(wires=[c, t]), observed=str(m), expected="reference CNOT with the first wire as control")
        return None
    plan.add(native("C74/binding:CNOT(wires=[c,t]).matrix(wire_order=[c,t])==reference", cnot_wire_order,
                    "first wire of CNOT is the control (most significant) in the reference convention", "commute_clifford_op"))

    def bad_inputs():
        cases = [((qp.S(0), [(1, 1), (0, 0)]), "ValueError"), ((qp.CNOT([0, 1]), [(1, 1)]), "ValueError"), ((qp.H(0), []), "ValueError"),
                 ((qp.S(0), [(1, 1, 0)]), "ValueError"), ((qp.CNOT([0, 1]), [(1, 1), (0,)]), "ValueError"),
                 ((qp.S(0), [(1, 2)]), "ValueError"), ((qp.H(0), [(-1, 0)]), "ValueError"), ((qp.CNOT([0, 1]), [(0, 0), (0, 3)]), "ValueError"),
                 ((qp.T(0), [(1, 1)]), "NotImplementedError"), ((qp.CZ([0, 1]), [(1, 1), (0, 0)]), "NotImplementedError"),
                 ((qp.X(0), [(0, 0)]), "NotImplementedError"), ((qp.T(0), [(1, 1), (0, 0)]), "ValueError")]
        for (op, xz), exc in cases:
            r = call(PT.commute_clifford_op, op, xz)
            if r != ("raise", exc):
                return dict(inputs=dict(op=repr(op), xz=[list(t) for t in xz]), observed=r, expected=f"raises {exc}")
        for bad in ((2, 0), (0, 2), (-1, 1), (1, 5)):
            r = call(PT.xz_to_pauli, *bad)
            if r != ("raise", "ValueError"):
                return dict(inputs=dict(xz=bad), observed=r, expected="xz_to_pauli raises ValueError")
        for op in (qp.H(0), qp.S, qp.CNOT([0, 1]), qp.RZ(0.3, 0)):
            r = call(PT.pauli_to_xz, op)
            if r != ("raise", "NotImplementedError"):
                return dict(inputs=repr(op), observed=r, expected="pauli_to_xz raises NotImplementedError")
        if call(PT.pauli_prod, []) != ("raise", "ValueError"):
            return dict(inputs=[], observed=call(PT.pauli_prod, []), expected="pauli_prod([]) raises ValueError")
        return None
    plan.add(native("C74/pauli_tracker:commute_clifford_op/documented-errors[real-operators]", bad_inputs,
                    "wrong xz length / tuple arity / non-bit entries -> ValueError; unsupported operators -> NotImplementedError", "commute_clifford_op",
                    bounded=True))

    # ------------------------------------------------------------------ 4. E1: the real bodies, all integer inputs / all list lengths
    KIND = Enum("OpKind", ["I", "X", "Y", "Z", "Other"])
    stub = lambda n: (f"class {n}:\n    pass\n", {})
    nw = {"S": PT.S.num_wires, "H": PT.H.num_wires, "CNOT": PT.CNOT.num_wires}
    stubs = {n: stub(n) for n in ("I", "X", "Y", "Z", "RZ", "RotXZX")}
    for n in ("S", "H", "CNOT", "OtherOp"):
        stubs[n] = (f"class {n}:\n    pass\n", {"num_wires": Int})

    def chain_from_iterable(it, args, kw):
        out = []
        for t in it.iter_concrete(args[0]):
            out.extend(it.iter_concrete(t))
        return PyList(out)
    w = XWorld(PT_FILE, stubs=stubs, functions=FUNCS, extra_builtins={"itertools.chain.from_iterable": chain_from_iterable})
    w.stub_realize = {"S": lambda f: qp.S(0), "H": lambda f: qp.H("w"), "CNOT": lambda f: qp.CNOT([1, 0]),
                      "OtherOp": lambda f: {1: qp.T(0), 2: qp.CZ([0, 1]), 3: qp.Toffoli([0, 1, 2])}.get(f.get("num_wires"), qp.T(0))}

    def sym(*xs):
        return any(isinstance(x, (z3.ExprRef, SeqV, Rec, PyList, EnumV, OpV)) or (isinstance(x, tuple) and sym(*x)) for x in xs)

    def frame_eq(result, n, expected_of):
        """result == [(..), ..] with n tuples equal to expected_of(frame) for the frame given by the inputs (table by cases)"""
        return expected_of(result)

    def table_post(gate, bits_of, ntuples):
        """ensures: result is a list of `ntuples` pairs equal to CONJ[gate](input frame)"""
        def ens(o, r, n):
            bits = bits_of(o)
            if sym(r) or sym(*bits):
                items = r.items if isinstance(r, PyList) else None
                if items is None or len(items) != ntuples or any(not isinstance(t, tuple) or len(t) != 2 for t in items):
                    return False
                flat = [b for t in items for b in t]
                conj = []
                for fr, out in R[gate].items():
                    conj.append(Implies(And(*[bi == v for bi, v in zip(bits, fr)]), And(*[fb == ov for fb, ov in zip(flat, out)])))
                return And(*conj)
            fr = tuple(int(b) for b in bits)
            return isinstance(r, list) and len(r) == ntuples and all(len(t) == 2 for t in r) and as_frame(r) == R[gate][fr]
        return ens

    def are_bits(*xs):
        return And(*[Or(x == 0, x == 1) for x in xs])

    contracts = []
    contracts.append(FnContract(w, "_commute_h", [Case("all-frames", {"x": Int, "z": Int}, requires=lambda a: are_bits(a.x, a.z),
                                                       ensures=table_post("H", lambda o: (o.x, o.z), 1))]))
    contracts.append(FnContract(w, "_commute_s", [Case("all-frames", {"x": Int, "z": Int}, requires=lambda a: are_bits(a.x, a.z),
                                                       ensures=table_post("S", lambda o: (o.x, o.z), 1))]))
    contracts.append(FnContract(w, "_commute_cnot", [Case("all-frames", {"xc": Int, "zc": Int, "xt": Int, "zt": Int},
                                                          requires=lambda a: are_bits(a.xc, a.zc, a.xt, a.zt),
                                                          ensures=table_post("CNOT", lambda o: (o.xc, o.zc, o.xt, o.zt), 2))]))

    # xz_to_pauli: every pair of integers
    def cls_is(r, nm):
        if isinstance(r, FuncRef):
            return r.kind == "class" and r.name == nm
        return r is PA[nm]

    def xz_post(o, r, n):
        return And(*[Implies(And(o.x == fr[0], o.z == fr[1]), cls_is(r, nm)) for nm, fr in R["XZ"].items()])
    contracts.append(FnContract(w, "xz_to_pauli", [Case("all-integers", {"x": Int, "z": Int}, ensures=xz_post,
                                                        raises={"ValueError": lambda o: Not(are_bits(o.x, o.z))},
                                                        must_return=lambda o: are_bits(o.x, o.z))]))

    # pauli_to_xz: instance / class of each kind (Other = any operator that is not one of the four Paulis)
    real_of_kind = {"I": PT.I, "X": PT.X, "Y": PT.Y, "Z": PT.Z, "Other": PT.H}
    for kind in KIND.values:
        for is_class in (False, True):
            v = OpV(kind, is_class, KIND)

            def ncall(mod, a, kind=kind, is_class=is_class):
                c = real_of_kind[kind]
                return mod.pauli_to_xz(c if is_class else c(wires=0))
            contracts.append(FnContract(w, "pauli_to_xz", [
                Case(f"{'class' if is_class else 'instance'}-{kind}", {"op": T("const", v)},
                     ensures=(lambda o, r, n, kind=kind: kind in R["XZ"] and isinstance(r, tuple) and tuple(r) == R["XZ"][kind]),
                     raises={"NotImplementedError": lambda o, kind=kind: kind == "Other"},
                     must_return=lambda o, kind=kind: kind != "Other", native_call=ncall)]))

    # pauli_prod: list of symbolic length; elements are operator instances (or classes) of symbolic kind
    # (a world of its own: the quantified sequence axioms stay out of the other, quantifier-free, contracts)
    w_seq = XWorld(PT_FILE, stubs=stubs, functions=FUNCS)
    TI = w_seq.aseq(Int)                  # axiomatic finite sequences of kind codes
    XF = [z3.Function("xorfold_x", TI.sort, z3.IntSort(), z3.IntSort()), z3.Function("xorfold_z", TI.sort, z3.IntSort(), z3.IntSort())]

    def bit_of(kterm, which):
        """spec: bit `which` of the reference code of the Pauli with kind term kterm"""
        e = z3.IntVal(0)
        for nm, fr in R["XZ"].items():
            e = z3.If(kterm == KIND.code[nm], z3.IntVal(fr[which]), e)
        return e

    def xor(a, b):
        return z3.If(a == b, z3.IntVal(0), z3.IntVal(1))

    def is_pauli(kterm):
        return z3.And(kterm >= 0, kterm <= 3)

    def fold_axioms(s, k):
        """instances of the recursive definition  XF(s,1) = bit(s[0]);  XF(s,k+1) = XF(s,k) xor bit(s[k])"""
        out = []
        for which in (0, 1):
            out.append(XF[which](s, 1) == bit_of(TI.AT(s, 0), which))
            out.append(XF[which](s, k + 1) == xor(XF[which](s, k), bit_of(TI.AT(s, k), which)))
        return out

    def native_fold(kinds):
        x = z = 0
        for kd in kinds:
            fr = R["XZ"][KIND.values[kd]]
            x, z = x ^ fr[0], z ^ fr[1]
        return (x, z)

    for is_class in (False, True):
        ELEM = KIND.T(wrap=lambda e, is_class=is_class: OpV(e, is_class, KIND))

        def all_kinds(v):
            k = z3.Int("k_el")
            return z3.ForAll([k], z3.Implies(z3.And(0 <= k, k < TI.LEN(v.term)), z3.And(TI.AT(v.term, k) >= 0, TI.AT(v.term, k) <= 4)),
                             patterns=[TI.AT(v.term, k)])
        OPS = T("build", lambda ctx, nm, ELEM=ELEM: SeqV(z3.Const(ctx.fresh_name(nm), TI.sort), ELEM, False), where=all_kinds,
                gen=lambda rng: [rng.randint(0, 4) for _ in range(rng.choice([0, 1, 1, 2, 3, 4, 6]))])

        def every(s, pred, upto=None):
            if isinstance(s, SeqV):
                k = z3.Int("k_ev")
                hi = TI.LEN(s.term) if upto is None else upto
                return z3.ForAll([k], z3.Implies(z3.And(0 <= k, k < hi), pred(TI.AT(s.term, k))), patterns=[TI.AT(s.term, k)])
            return all(0 <= kd <= 3 for kd in s)

        def ln(s):
            return TI.LEN(s.term) if isinstance(s, SeqV) else len(s)

        def bits_inv(v):
            return z3.And(v.res_x >= 0, v.res_x <= 1, v.res_z >= 0, v.res_z <= 1)

        def prod_inv(v):
            s, i = v.ops.term, 1 + v._i0
            return z3.And(i <= TI.LEN(s), v.res_x == XF[0](s, i), v.res_z == XF[1](s, i), bits_inv(v))

        def prod_post(o, r, n):
            if isinstance(o.ops, SeqV):
                s = o.ops.term
                return isinstance(r, tuple) and len(r) == 2 and z3.And(r[0] == XF[0](s, TI.LEN(s)), r[1] == XF[1](s, TI.LEN(s)))
            return isinstance(r, tuple) and (int(r[0]), int(r[1])) == native_fold(o.ops)

        def ncall(mod, a, is_class=is_class):
            ops = [real_of_kind[KIND.values[kd]] for kd in a["ops"]]
            return mod.pauli_prod(ops if is_class else [c(wires=0) for c in ops])

        def ngen(rng, m):
            return dict(m, ops=[rng.randint(0, 4) for _ in range(rng.choice([0, 1, 1, 2, 3, 4, 6]))])
        lab = "classes" if is_class else "instances"
        contracts.append(FnContract(w_seq, "pauli_prod", [
            Case(f"list-of-pauli-{lab}", {"ops": OPS}, requires=lambda a: every(a.ops, is_pauli),
                 loops={0: LoopSpec(inv=prod_inv, axioms=lambda v: fold_axioms(v.ops.term, 1 + v._i0))},
                 axioms=lambda o, r, n: fold_axioms(o.ops.term, 1)[:1] + fold_axioms(o.ops.term, 1)[2:3],
                 ensures=prod_post, raises={"ValueError": lambda o: ln(o.ops) == 0}, must_return=lambda o: ln(o.ops) > 0,
                 native_call=ncall, native_gen=ngen),
            Case(f"list-with-a-non-pauli-{lab}", {"ops": OPS}, requires=lambda a: Not(every(a.ops, is_pauli)),
                 loops={0: LoopSpec(inv=lambda v: z3.And(1 + v._i0 <= TI.LEN(v.ops.term), every(v.ops, is_pauli, upto=1 + v._i0), bits_inv(v)))},
                 ensures=lambda o, r, n: False, raises={"NotImplementedError": lambda o: True}, native_call=ncall, native_gen=ngen)]))

    # commute_clifford_op: each operator class x list shapes; entries arbitrary integers
    def opT(name):
        if name == "OtherOp":
            return T("rec", name, where=lambda v: v.f["num_wires"] >= 1)
        return T("rec", name, where=lambda v, name=name: v.f["num_wires"] == nw[name])

    def entries(o):
        xs = o.xz.items if isinstance(o.xz, PyList) else o.xz
        return [b for t in xs for b in t]

    def nwires(o):
        return o.clifford_op.f["num_wires"] if isinstance(o.clifford_op, Rec) else o.clifford_op.num_wires

    max_len = 3
    plan.size_bounds.append(f"commute_clifford_op: xz lists of length 0..{max_len} with symbolic integer entries (plus: ANY length different "
                            "from num_wires raises ValueError, symbolic length); tuple arities 1, 2, 3")
    for name, gate in (("S", "S"), ("H", "H"), ("CNOT", "CNOT"), ("OtherOp", None)):
        cases = []
        for n in range(0, max_len + 1):
            XZ = ListT(TupleT(Int, Int), n)
            good_len = (lambda o, n=n: nwires(o) == n)

            def ok_inputs(o, n=n):
                return And(nwires(o) == n, are_bits(*entries(o)) if n else True)
            if gate is not None:
                ens = table_post(gate, entries, nw[gate]) if n == nw[gate] else (lambda o, r, nn: False)
                cases.append(Case(f"xz-of-{n}-pairs", {"clifford_op": opT(name), "xz": XZ}, ensures=ens,
                                  raises={"ValueError": lambda o, f=ok_inputs: Not(f(o))}, must_return=ok_inputs, size_bounded=True))
            else:
                cases.append(Case(f"xz-of-{n}-pairs", {"clifford_op": opT(name), "xz": XZ}, ensures=lambda o, r, nn: False,
                                  raises={"ValueError": lambda o, f=ok_inputs: Not(f(o)), "NotImplementedError": ok_inputs}, size_bounded=True))
        # wrong tuple arity (with the right list length): ValueError
        for ar in (1, 3):
            n = nw.get(name, 1)
            XZ = ListT(TupleT(*([Int] * ar)), n)
            cases.append(Case(f"pairs-of-arity-{ar}", {"clifford_op": opT(name), "xz": XZ}, ensures=lambda o, r, nn: False,
                              raises={"ValueError": lambda o: True}, size_bounded=True))
        # any length different from num_wires
        cases.append(Case("any-length-mismatch", {"clifford_op": opT(name), "xz": SeqT(TupleT(Int, Int))},
                          requires=lambda a: z3.Length(a.xz.term) != a.clifford_op.f["num_wires"] if isinstance(a.xz, SeqV)
                          else len(a.xz) != nwires(a),
                          ensures=lambda o, r, nn: False, raises={"ValueError": lambda o: True}))
        contracts.append(FnContract(w, "commute_clifford_op", cases))
        for c in cases:
            c.label = f"{name}/{c.label}"

    for fc in contracts:
        for case in fc.cases:
            case.interp_cls = XInterp
        for ob, case in zip(obligations_for("C74", fc, tier), fc.cases):
            plan.add(with_standin(ob, fc, case))
        plan.fn_under_contract(PT_FILE, fc.qualname)
    add_conversion_half(plan, tier, seed)
    return plan


# =====================================================================================================================
# C74 (conversion half): convert_to_mbqc_formalism and the per-gate MBQC patterns of pennylane/ftqc/decomposition.py
#
# Postcondition (property statement): the converted circuit implements the original on the logical wires for EVERY
# measurement outcome.  It is established modularly:
#   (P) pattern contracts - the real queue_single_qubit_gate + queue_corrections (RZ, RotXZX with SYMBOLIC angles, H, S) and the
#       real queue_cnot + cnot_corrections are RUN (they only queue operators), and the queued program is interpreted by an
#       independent exact interpreter (below) on every outcome branch: for an arbitrary input state on the in-wire(s) (all basis
#       inputs, one common scalar => the Kraus operator of the branch is c.U, c != 0, so entangled inputs are covered) the
#       out-wire(s) carry U|psi>, every other touched wire is back in |0> (helper precondition of the NEXT pattern: the QubitMgr
#       pool is "assumed to be in a reset state"), nothing outside {in} + acquired wires is touched, and the manager's active set
#       is (active - in) + out.
#   (C) composition contract - the real body of convert_to_mbqc_formalism is run with CALLEE CONTRACTS in place of the four
#       pattern functions (they assert their preconditions and queue an abstract marker) over an enumeration of tape shapes; the
#       resulting program must be the original operator sequence on consistently tracked wire chains and the final sample must
#       read the chains of the requested wires IN THE REQUESTED ORDER.
#   (E) bounded end-to-end stand-in: unmodified conversion of a few longer circuits, sampled branches, float interpreter.
# =====================================================================================================================
import cmath
import math
import random
import zlib

import numpy as np

from vf.symx.ring import Poly, Unsupported
from vf.symx.scalar import Sym, sym, to_poly

DEC_FILE = "pennylane/ftqc/decomposition.py"


class PolyRing:
    """exact scalars: Laurent polynomials in exp(i*angle/48) over Q(zeta_96)"""
    name = "exact-laurent"
    exact = True

    def arr(self, m):
        return poly_matrix(np.asarray(m, dtype=object))

    def is_zero(self, x):
        return x.is_zero()

    def phase(self, angle, sign=1):
        a = angle if isinstance(angle, Sym) else Sym(angle)
        return to_poly(G.e(a * sign))

    def conj(self, a):
        out = np.empty(a.shape, dtype=object)
        for idx, x in np.ndenumerate(a):
            out[idx] = x.conj()
        return out

    def mat(self, name, params=()):
        fixed = {"Hadamard": G.H, "S": G.S, "PauliX": G.X, "PauliY": G.Y, "PauliZ": G.Z, "CZ": G.CZ, "CNOT": G.CNOT, "T": G.T}
        if name in fixed:
            return pm(fixed[name])
        if name == "Adjoint(S)":
            return pm_dagger(pm(G.S))
        ps = [p if isinstance(p, Sym) else Sym(p) for p in params]
        if name == "RotXZX":       # documented: R(phi, theta, omega) = RX(omega) RZ(theta) RX(phi)
            return pm_matmul(pm_matmul(pm(G.RX(ps[2])), pm(G.RZ(ps[1]))), pm(G.RX(ps[0])))
        par = {"RZ": G.RZ, "RX": G.RX, "RY": G.RY, "PhaseShift": G.PhaseShift}
        if name in par:
            return pm(par[name](ps[0]))
        raise Unsupported(f"interpreter has no reference semantics for operator {name}")

    def normalise(self, psi):
        return psi


class NumRing:
    """numeric scalars.  exact=True: only Gaussian-integer valued (unnormalised) matrices are used, so complex128 arithmetic is exact
    integer arithmetic (integrality and magnitude are asserted); exact=False: floats, state renormalised after each measurement."""

    def __init__(self, exact):
        self.exact = exact
        self.name = "gaussian-integers" if exact else "float"

    def arr(self, m):
        return np.asarray(m, dtype=complex)

    def is_zero(self, x):
        return x == 0 if self.exact else abs(x) < 1e-8

    def phase(self, angle, sign=1):
        if self.exact:
            if angle == 0:
                return 1.0 + 0j
            raise Unsupported("parametric phase in the Gaussian-integer interpreter")
        return cmath.exp(1j * sign * float(angle))

    def conj(self, a):
        return np.conj(a)

    def mat(self, name, params=()):
        r = 1.0 if self.exact else 1 / math.sqrt(2)
        fixed = {"Hadamard": [[r, r], [r, -r]], "S": [[1, 0], [0, 1j]], "Adjoint(S)": [[1, 0], [0, -1j]], "PauliX": [[0, 1], [1, 0]],
                 "PauliY": [[0, -1j], [1j, 0]], "PauliZ": [[1, 0], [0, -1]],
                 "CZ": [[1, 0, 0, 0], [0, 1, 0, 0], [0, 0, 1, 0], [0, 0, 0, -1]], "CNOT": [[1, 0, 0, 0], [0, 1, 0, 0], [0, 0, 0, 1], [0, 0, 1, 0]]}
        if name in fixed:
            return np.asarray(fixed[name], dtype=complex)
        if self.exact:
            raise Unsupported(f"operator {name} in the Gaussian-integer interpreter")
        p = [float(x) for x in params]
        rx = lambda t: np.array([[math.cos(t / 2), -1j * math.sin(t / 2)], [-1j * math.sin(t / 2), math.cos(t / 2)]])
        rz = lambda t: np.array([[cmath.exp(-1j * t / 2), 0], [0, cmath.exp(1j * t / 2)]])
        if name == "RotXZX":
            return rx(p[2]) @ rz(p[1]) @ rx(p[0])
        if name == "RZ":
            return rz(p[0])
        if name == "RX":
            return rx(p[0])
        if name == "RY":
            return np.array([[math.cos(p[0] / 2), -math.sin(p[0] / 2)], [math.sin(p[0] / 2), math.cos(p[0] / 2)]], dtype=complex)
        if name == "PhaseShift":
            return np.array([[1, 0], [0, cmath.exp(1j * p[0])]])
        if name == "T":
            return np.array([[1, 0], [0, cmath.exp(1j * math.pi / 4)]])
        raise Unsupported(f"interpreter has no reference semantics for operator {name}")

    def normalise(self, psi):
        if self.exact:
            if psi.size and (np.max(np.abs(psi)) > 2.0 ** 50 or np.any(psi != np.round(psi.real) + 1j * np.round(psi.imag))):
                raise RuntimeError("Gaussian-integer interpreter left the exact range")
            return psi
        n = np.linalg.norm(psi[0]) if psi.shape[0] == 1 else np.linalg.norm(psi) / math.sqrt(psi.shape[0])
        return psi / n if n > 0 else psi


class MState:
    """state of the independent interpreter: amplitudes psi[batch, live wires...]; wires not in `live` are in |0> (clean) unless they
    are listed in `dirty` (left in a measured eigenstate by a measurement without reset).  batch index j = basis input |j> on `inputs`."""

    def __init__(self, ring, inputs=()):
        self.ring = ring
        k = len(inputs)
        self.live = list(inputs)
        self.psi = ring.arr(np.eye(2 ** k)).reshape([2 ** k] + [2] * k)
        self.dirty = {}
        self.touched = set(inputs)

    def copy_with(self, psi, live, dirty):
        s = MState.__new__(MState)
        s.ring, s.psi, s.live, s.dirty, s.touched = self.ring, psi, list(live), dict(dirty), set(self.touched)
        return s

    def attach(self, w):
        if w in self.live:
            return
        vec = self.dirty.pop(w, None)
        if vec is None:
            vec = self.ring.arr([1, 0])
        self.psi = self.psi[..., None] * vec
        self.live.append(w)
        self.touched.add(w)

    def apply(self, mat, wires):
        for w in wires:
            self.attach(w)
        k = len(wires)
        axes = [1 + self.live.index(w) for w in wires]
        m = mat.reshape([2] * (2 * k))
        out = np.tensordot(m, self.psi, axes=(list(range(k, 2 * k)), axes))
        self.psi = np.moveaxis(out, list(range(k)), axes)

    def measured(self, w, bra, ket, reset):
        """new state after outcome with eigen-bra `bra` on wire w (None when the amplitude vanishes identically)"""
        self.attach(w)
        ax = 1 + self.live.index(w)
        new = np.tensordot(self.psi, bra, axes=([ax], [0]))
        if all(self.ring.is_zero(x) for x in new.flat) if new.dtype == object else not np.any(np.abs(new) > (0 if self.ring.exact else 1e-9)):
            return None
        live = [x for x in self.live if x != w]
        dirty = dict(self.dirty)
        if not reset:
            dirty[w] = ket
        return self.copy_with(self.ring.normalise(new), live, dirty)

    def apply_op(self, op):
        name = op.name
        wires = list(op.wires)
        ring = self.ring
        if name == "GraphStatePrep":
            hp = op.hyperparameters
            if getattr(hp["one_qubit_ops"], "__name__", "") != "Hadamard" or getattr(hp["two_qubit_ops"], "__name__", "") != "CZ":
                raise Unsupported("graph state with non-default one/two qubit operators")
            graph = hp["graph"]
            nodes = sorted(graph.nodes)          # documented: wires are mapped 1:1 to the (sorted) graph nodes
            if len(nodes) != len(wires):
                raise Unsupported("graph/wires size mismatch")
            at = dict(zip(nodes, wires))
            for w in wires:
                self.apply(ring.mat("Hadamard"), [w])
            for a, b in graph.edges:
                self.apply(ring.mat("CZ"), [at[a], at[b]])
            return
        if name in ("GlobalPhase", "Identity") or not wires:
            return      # global phases are not tracked (equality of states is up to a branch-dependent non-zero scalar)
        self.apply(ring.mat(name, tuple(op.data)), wires)


def m_basis(ring, op):
    """(bras, kets) of the two outcomes of a mid-circuit measurement operator (documented bases, unnormalised):
    MidMeasure: |0>, |1>;  plane XY, angle a: |0> +/- e^{ia}|1>  (X: a=0, Y: a=pi/2)"""
    cls = type(op).__name__
    one = ring.arr([1])[0]
    zero = one - one
    if cls == "MidMeasure":
        kets = [ring.arr([one, zero]), ring.arr([zero, one])]
        return kets, kets
    if cls not in ("ParametricMidMeasure", "XMidMeasure", "YMidMeasure"):
        raise Unsupported(f"measurement operator {cls}")
    if op.plane != "XY":
        raise Unsupported(f"measurement plane {op.plane}")
    if cls == "XMidMeasure":
        ph, phc = one, one
    elif cls == "YMidMeasure":
        ph = ring.arr([1j])[0]
        phc = ring.arr([-1j])[0]
    else:
        ph, phc = ring.phase(op.angle, 1), ring.phase(op.angle, -1)
    s = 1.0 if ring.exact else 1 / math.sqrt(2)
    sc = ring.arr([s])[0]
    kets = [ring.arr([one * sc, ph * sc]), ring.arr([one * sc, (zero - ph) * sc])]
    bras = [ring.arr([one * sc, phc * sc]), ring.arr([one * sc, (zero - phc) * sc])]
    return bras, kets


def is_measurement(op):
    return type(op).__name__ in ("MidMeasure", "ParametricMidMeasure", "XMidMeasure", "YMidMeasure")


def mv_truth(mv, outcomes):
    """value of a MeasurementValue on concrete outcome bits (real processing_fn; a conditional measurement that was not executed
    contributes 0: cond_measure's `v1 or v2` convention)"""
    return bool(mv.processing_fn(*[outcomes.get(m.meas_uid, 0) for m in mv.measurements]))


def mbqc_run(ring, ops, st, leaf, mode="all", rng=None, forced=None):
    """interpret a queued MBQC program; explores every outcome branch (mode 'all'), one sampled branch ('sample') or the given one
    (forced = list of outcome bits).  Returns the first non-None result of leaf(state, outcomes, record), else None."""
    count = [0]

    def rec(i, st, outcomes, record):
        while i < len(ops):
            op = ops[i]
            i += 1
            if type(op).__name__ == "Conditional":
                if not mv_truth(op.meas_val, outcomes):
                    continue
                op = op.base
            if is_measurement(op):
                if op.postselect is not None:
                    raise Unsupported("postselected measurement")
                w = op.wires[0]
                bras, kets = m_basis(ring, op)
                options = []
                for m in (0, 1):
                    s2 = st.measured(w, bras[m], kets[m], bool(op.reset))
                    if s2 is not None:
                        options.append((m, s2))
                if forced is not None:
                    options = [o for o in options if len(record) < len(forced) and o[0] == forced[len(record)]]
                elif mode == "sample" and len(options) > 1:
                    options = [options[rng.randrange(2)]]     # both outcomes of these patterns are equally likely; any feasible one will do
                for m, s2 in options:
                    r = rec(i, s2, {**outcomes, op.meas_uid: m}, record + [m])
                    if r is not None:
                        return r
                return None
            st.apply_op(op)
        count[0] += 1
        return leaf(st, outcomes, record)
    res = rec(0, st, {}, [])
    return res, count[0]


def proportional_to(ring, A, B):
    """A == c.B entrywise for one scalar c != 0"""
    if A.shape != B.shape:
        return False
    if ring.name == "float":
        na, nb = np.linalg.norm(A), np.linalg.norm(B)
        if na < 1e-9 or nb < 1e-9:
            return False
        A, B = A / na, B / nb
        piv = np.unravel_index(int(np.argmax(np.abs(B))), B.shape)
        if abs(A[piv]) < 1e-7:
            return False
        return bool(np.max(np.abs(A * B[piv] - A[piv] * B)) < 1e-7)
    piv = next((idx for idx, x in np.ndenumerate(B) if not ring.is_zero(x)), None)
    if piv is None or ring.is_zero(A[piv]):
        return False
    return all(ring.is_zero(x * B[piv] - A[piv] * B[idx]) for idx, x in np.ndenumerate(A))


def kraus_of(st, outs):
    """matrix K[k, j] = amplitude of |k> on the out wires for basis input |j>, or a string describing why there is none"""
    if st.dirty:
        return f"wire(s) {sorted(st.dirty, key=str)} were measured without reset: left in the measured eigenstate, not |0>"
    if set(st.live) != set(outs):
        return f"wires {sorted(set(st.live) - set(outs), key=str)} are still part of the state (not measured and reset) / live={st.live}"
    psi = np.moveaxis(st.psi, [1 + st.live.index(w) for w in outs], list(range(1, 1 + len(outs))))
    return psi.reshape(psi.shape[0], -1).T


def real_dec():
    import pennylane as qp
    from pennylane.ftqc import decomposition as D
    from pennylane.ftqc.utils import QubitMgr
    from pennylane.core.queuing import AnnotatedQueue
    from pennylane.core.qscript import QuantumScript
    return qp, D, QubitMgr, AnnotatedQueue, QuantumScript


POOLS = [(5, 0, 0), (9, 3, 2), (18, 0, 5)]          # QubitMgr layouts: (num_qubits, start_idx, wires acquired before the in-wire)
POOLS2 = [(15, 0, 0), (20, 2, 3)]


def run_pattern(gate, diag, params, ring, pool, forced=None):
    """RUN the real pattern functions for one gate and interpret what they queued.  Returns None or a violation dict."""
    qp, D, QubitMgr, AnnotatedQueue, QuantumScript = real_dec()
    from pennylane.ftqc import RotXZX
    nq, start, pre = pool
    qm = QubitMgr(num_qubits=nq, start_idx=start)
    for _ in range(pre):
        qm.acquire_qubit()
    two = gate == "CNOT"
    ins = [qm.acquire_qubit() for _ in range(2 if two else 1)]
    active0, inactive0 = set(qm.active), set(qm.inactive)
    mk = {"RZ": lambda: qp.RZ(params[0], "L"), "RotXZX": lambda: RotXZX(params[0], params[1], params[2], "L"), "H": lambda: qp.H("L"),
          "S": lambda: qp.S("L"), "CNOT": lambda: qp.CNOT(["Lc", "Lt"])}
    op = mk[gate]()
    with AnnotatedQueue() as q:
        if two:
            oc, ot, ms = D.queue_cnot(qm, ins[0], ins[1], diag)
            D.cnot_corrections(ms)(oc, ot)
            outs = [oc, ot]
        else:
            o1, ms = D.queue_single_qubit_gate(qm, op, in_wire=ins[0], diagonalize_mcms=diag)
            D.queue_corrections(op, ms)(o1)
            outs = [o1]
    ops = list(QuantumScript.from_queue(q).operations)
    inputs = dict(gate=gate, diagonalize_mcms=diag, pool=dict(num_qubits=nq, start_idx=start, acquired_before=pre), in_wires=ins,
                  params=[str(p) for p in params])
    exp_active = (active0 - set(ins)) | set(outs)
    if set(qm.active) != exp_active or len(set(outs)) != len(outs) or any(o in active0 for o in outs):
        return dict(inputs=inputs, observed=f"QubitMgr.active={sorted(qm.active)} out={outs}",
                    expected=f"active == (active before - in) + out == {sorted(exp_active)}, out wires freshly acquired")
    U = ring.mat(op.name, tuple(op.data))
    st = MState(ring, inputs=ins)

    def leaf(st, outcomes, record):
        bad_touch = st.touched - set(ins) - inactive0
        if bad_touch:
            return dict(inputs=dict(inputs, outcomes=record), observed=f"pattern acts on wires {sorted(bad_touch, key=str)}",
                        expected="only the in-wire(s) and wires acquired from the pool are touched")
        K = kraus_of(st, outs)
        if isinstance(K, str):
            return dict(inputs=dict(inputs, outcomes=record), observed=K,
                        expected="every wire released to the QubitMgr pool is back in |0> (the pool is handed out as |0> to the next pattern)")
        if not proportional_to(ring, K, U):
            return dict(inputs=dict(inputs, outcomes=record), observed="state on the out wire(s) is not c.U|psi> for the basis inputs: K=" + str(K.tolist())[:400],
                        expected=f"out wire(s) carry {gate}|psi> for every input |psi> (one non-zero scalar per outcome branch)")
        return None
    res, n = mbqc_run(ring, ops, st, leaf, forced=forced)
    if res is None and n == 0:
        return dict(inputs=inputs, observed="no outcome branch has non-zero amplitude", expected="at least one feasible branch", vacuous=True)
    return res


PATTERN_FN = {"RZ": "_rz_measurements", "RotXZX": "_rot_measurements", "H": "_hadamard_measurements", "S": "_s_measurements",
              "CNOT": "cnot_measurements"}
PATTERN_PARAMS = {"RZ": ["a"], "RotXZX": ["a", "b", "c"], "H": [], "S": [], "CNOT": []}


def pattern_obligation(gate, diag, seed):
    names = PATTERN_PARAMS[gate]
    symbolic = bool(names)
    pools = POOLS2 if gate == "CNOT" else POOLS
    mode = "diagonalized" if diag else "default"
    name = f"C74/decomposition:{PATTERN_FN[gate]}/teleports-{gate}+aux-wires-reset[{mode}]/all-outcomes"
    desc = (f"real queue_{'cnot + cnot' if gate == 'CNOT' else 'single_qubit_gate + queue'}_corrections for {gate}: on EVERY outcome branch the out wire(s) "
            f"carry {gate}|psi> (one scalar for all basis inputs), all other touched wires are |0> again, QubitMgr frame"
            + (" -- all angles (exact Laurent polynomials)" if symbolic else " -- exact Gaussian-integer arithmetic"))

    def fn():
        rng = random.Random(zlib.crc32(f"{seed}:{name}".encode()))
        ring = PolyRing() if symbolic else NumRing(True)
        params = [sym(n) for n in names]
        for pool in (pools if not symbolic else pools[:2]):
            bad = run_pattern(gate, diag, params, ring, pool)
            if not bad:
                continue
            if bad.get("vacuous"):
                return Outcome(FAULT, "mbqc-interpreter", str(bad))
            if not symbolic:     # the run itself is a native run of the real functions on concrete inputs
                return Outcome(REFUTED, "real-pattern-run+exact-interpreter", str(bad), witness=dict(inputs=bad["inputs"]),
                               replay=dict(confirmed=True, observed=bad["observed"], expected=bad["expected"], inputs=bad["inputs"]))
            # symbolic refutation: replay the same branch at concrete angles on the real functions with the float interpreter
            for _ in range(12):
                pt = {n: math.pi * rng.randint(-46, 46) / 23.0 + rng.uniform(-0.3, 0.3) for n in names}
                fb = run_pattern(gate, diag, [pt[n] for n in names], NumRing(False), pool, forced=bad["inputs"].get("outcomes"))
                if fb and not fb.get("vacuous"):
                    return Outcome(REFUTED, "real-pattern-run+exact-interpreter", str(bad), witness=dict(point=pt, inputs=bad["inputs"]),
                                   replay=dict(confirmed=True, point=pt, observed=fb["observed"], expected=fb["expected"], inputs=fb["inputs"]))
            return Outcome(REFUTED, "real-pattern-run+exact-interpreter", str(bad), witness=dict(inputs=bad["inputs"]),
                           replay=dict(confirmed=False, note="symbolic violation not reproduced at 12 float points"))
        return Outcome(DISCHARGED, "real-pattern-run+exact-interpreter(" + ring.name + ")", desc)
    return Obligation(name, "post", fn, func=(DEC_FILE, PATTERN_FN[gate]), sample=desc, timeout=600)


# ------------------------------------------------------------------------------------------- (C) composition with callee contracts
class Violation(Exception):
    def __init__(self, observed, expected):
        super().__init__(observed)
        self.observed, self.expected = observed, expected


def composition_run(ops_spec, meas_spec, diag, labels):
    """Build the tape, run the REAL convert_to_mbqc_formalism with callee contracts for the four pattern functions, check the result.
    ops_spec: list of (kind, wire indices); meas_spec: None (sample()) or list of wire indices.  Returns None or a violation dict."""
    qp, D, QubitMgr, AnnotatedQueue, QuantumScript = real_dec()
    from pennylane.ftqc import RotXZX
    from pennylane.core.operator import Operator
    L = lambda i: labels[i]
    mkop = {"RZ": lambda w: qp.RZ(sym("t"), L(w[0])), "RotXZX": lambda w: RotXZX(sym("a"), sym("b"), sym("c"), L(w[0])),
            "H": lambda w: qp.H(L(w[0])), "S": lambda w: qp.S(L(w[0])), "X": lambda w: qp.X(L(w[0])), "Y": lambda w: qp.Y(L(w[0])),
            "Z": lambda w: qp.Z(L(w[0])), "I": lambda w: qp.Identity(L(w[0])), "I0": lambda w: qp.Identity(wires=[]),
            "GP": lambda w: qp.GlobalPhase(sym("g")), "CNOT": lambda w: qp.CNOT([L(w[0]), L(w[1])])}
    ops = [mkop[k](w) for k, w in ops_spec]
    mp = qp.sample() if meas_spec is None else qp.sample(wires=[L(i) for i in meas_spec])
    tape = QuantumScript(ops, [mp])
    inputs = dict(operations=[f"{k}{[L(i) for i in w]}" for k, w in ops_spec],
                  measurement="sample()" if meas_spec is None else f"sample(wires={[L(i) for i in meas_spec]})", diagonalize_mcms=diag)

    class Marker(Operator):          # abstract effect queued by a callee contract
        num_wires = None

        def __init__(self, kind, payload, wires):
            self.kind, self.payload = kind, payload
            super().__init__(wires=wires)

    state = dict(in_model=0, mgr=None, body_acquired=[], body_released=[])

    class SpyMgr(QubitMgr):
        def __init__(self, *a, **k):
            super().__init__(*a, **k)
            state["mgr"] = self

        def acquire_qubit(self):
            idx = super().acquire_qubit()
            if not state["in_model"]:
                state["body_acquired"].append(idx)
            return idx

        def release_qubit(self, idx):
            if not state["in_model"]:
                state["body_released"].append(idx)
            return super().release_qubit(idx)

    def pre(cond, observed, expected):
        if not cond:
            raise Violation(observed, expected)

    def model_single(q_mgr, op, in_wire, diagonalize_mcms):
        pre(q_mgr is state["mgr"], "queue_single_qubit_gate called with a different QubitMgr", "the manager that allocated the logical wires")
        pre(bool(diagonalize_mcms) == bool(diag), f"queue_single_qubit_gate(diagonalize_mcms={diagonalize_mcms})", f"diagonalize_mcms={diag} passed on")
        pre(in_wire in q_mgr.active, f"in_wire {in_wire} is not an active wire of the manager", "in-wire holds a logical qubit (active)")
        state["in_model"] += 1
        try:
            aux = q_mgr.acquire_qubits(4)
            q_mgr.release_qubits([in_wire] + aux[:-1])
        finally:
            state["in_model"] -= 1
        toks = [("m", id(op), len(state.setdefault("calls", [])), k) for k in range(4)]
        state["calls"].append(toks)
        Marker("gate1", dict(op=op, src=in_wire, dst=aux[-1], toks=toks), [in_wire, aux[-1]])
        return aux[-1], toks

    def model_corr(op, measurements):
        def f(wire):
            Marker("corr1", dict(op=op, toks=list(measurements), wire=wire), [wire])
        return f

    def model_cnot(q_mgr, ctrl_idx, target_idx, diagonalize_mcms=False):
        pre(q_mgr is state["mgr"], "queue_cnot called with a different QubitMgr", "the manager that allocated the logical wires")
        pre(bool(diagonalize_mcms) == bool(diag), f"queue_cnot(diagonalize_mcms={diagonalize_mcms})", f"diagonalize_mcms={diag} passed on")
        pre(ctrl_idx in q_mgr.active and target_idx in q_mgr.active and ctrl_idx != target_idx,
            f"queue_cnot in-wires {ctrl_idx}, {target_idx} not two distinct active wires", "in-wires hold logical qubits")
        state["in_model"] += 1
        try:
            aux = q_mgr.acquire_qubits(13)
            q_mgr.release_qubits([ctrl_idx, target_idx] + aux[0:5] + aux[6:-1])
        finally:
            state["in_model"] -= 1
        toks = [("m", "cnot", len(state.setdefault("calls", [])), k) for k in range(13)]
        state["calls"].append(toks)
        Marker("gate2", dict(src=[ctrl_idx, target_idx], dst=[aux[5], aux[12]], toks=toks), [ctrl_idx, target_idx, aux[5], aux[12]])
        return aux[5], aux[12], toks

    def model_cnot_corr(measurements):
        def f(ctrl_wire, target_wire):
            Marker("corr2", dict(toks=list(measurements), wires=[ctrl_wire, target_wire]), [ctrl_wire, target_wire])
        return f

    saved = {n: getattr(D, n) for n in ("queue_single_qubit_gate", "queue_corrections", "queue_cnot", "cnot_corrections", "QubitMgr")}
    try:
        D.queue_single_qubit_gate, D.queue_corrections, D.queue_cnot, D.cnot_corrections, D.QubitMgr = \
            model_single, model_corr, model_cnot, model_cnot_corr, SpyMgr
        try:
            (new_tape,), _post = D.convert_to_mbqc_formalism(tape, diagonalize_mcms=diag)
        except Violation as v:
            return dict(inputs=inputs, observed=v.observed, expected=v.expected)
    finally:
        for n, v in saved.items():
            setattr(D, n, v)

    def bad(observed, expected):
        return dict(inputs=inputs, observed=observed, expected=expected)
    if state["body_released"]:
        return bad(f"the body released wires {state['body_released']} itself", "wires are only released by the patterns (after measure+reset)")
    # ---- collapse markers into events
    events = []
    q = list(new_tape.operations)
    i = 0
    while i < len(q):
        o = q[i]
        if isinstance(o, Marker):
            nxt = q[i + 1] if i + 1 < len(q) else None
            if o.kind == "gate1":
                p = o.payload
                if not (isinstance(nxt, Marker) and nxt.kind == "corr1" and nxt.payload["op"] is p["op"] and nxt.payload["toks"] == p["toks"]
                        and nxt.payload["wire"] == p["dst"]):
                    return bad(f"pattern of {p['op'].name} on wire {p['src']}->{p['dst']} is not followed by its byproduct correction on the out wire "
                               f"with its own measurements m1..m4 (got {getattr(nxt, 'payload', nxt)})",
                               "queue_corrections(op, measurements)(out wire) right after queue_single_qubit_gate")
                events.append(("gate1", p["op"], [p["src"]], [p["dst"]]))
                i += 2
                continue
            if o.kind == "gate2":
                p = o.payload
                if not (isinstance(nxt, Marker) and nxt.kind == "corr2" and nxt.payload["toks"] == p["toks"] and nxt.payload["wires"] == p["dst"]):
                    return bad(f"CNOT pattern {p['src']}->{p['dst']} not followed by its corrections on (ctrl out, target out): {getattr(nxt, 'payload', nxt)}",
                               "cnot_corrections(measurements)(ctrl out, target out) right after queue_cnot")
                events.append(("gate2", None, p["src"], p["dst"]))
                i += 2
                continue
            return bad(f"byproduct correction {o.payload} without its pattern", "corrections follow their pattern")
        events.append(("phys", o, list(o.wires), list(o.wires)))
        i += 1
    if len(events) != len(ops):
        return bad(f"{len(events)} operations/patterns for {len(ops)} original operations", "one pattern / physical gate per original operation, in order")
    pos, used = {}, set()
    body_acq = set(state["body_acquired"])

    def locate(w, p):
        """physical wire p is where logical wire w lives now (first use: a clean wire reserved by the body)"""
        if w in pos:
            return pos[w] == p
        if p in body_acq and p not in used and p not in pos.values():
            pos[w] = p
            return True
        return False
    def reserved():
        """clean wires the body holds for logical wires that have not been used yet (a released, reset wire may be handed out again)"""
        return body_acq - used

    for orig, (kind, eop, src, dst) in zip(ops, events):
        nm = orig.name
        if nm == "GlobalPhase":
            ok = kind == "phys" and eop.name == "GlobalPhase" and not src and len(eop.data) == 1 and eop.data[0] is orig.data[0]
        elif nm in ("PauliX", "PauliY", "PauliZ", "Identity"):
            ok = kind == "phys" and type(eop) is type(orig) and len(src) == len(orig.wires) and all(locate(w, p) for w, p in zip(orig.wires, src))
        elif nm == "CNOT":
            ok = kind == "gate2" and all(locate(w, p) for w, p in zip(orig.wires, src)) and len(set(dst)) == 2 and not (set(dst) & (reserved() | set(pos.values())))
        else:
            ok = kind == "gate1" and eop is orig and locate(orig.wires[0], src[0]) and dst[0] not in reserved() and dst[0] not in pos.values()
        if not ok:
            return bad(f"original {orig} became {kind}:{eop if eop is not None else 'CNOT'} on physical wires {src}->{dst} (logical locations {pos})",
                       "the same gate applied to the current physical location of its logical wire(s)")
        used |= set(src) | set(dst)
        for w, d in zip(orig.wires, dst):
            pos[w] = d
    # ---- the final measurement
    ms = new_tape.measurements
    if len(ms) != 1 or type(ms[0]).__name__ != "SampleMP":
        return bad(f"measurements {ms}", "a single sample measurement")
    want = list(mp.wires) if len(mp.wires) else list(tape.wires)
    got = list(ms[0].wires)
    if len(got) != len(want) or len(set(got)) != len(got):
        return bad(f"sample on physical wires {got}", f"one distinct physical wire per requested logical wire {want}")
    for w, p in zip(want, got):
        if not locate(w, p):
            return bad(f"sample(wires={got}): position {want.index(w)} reads physical wire {p}, but logical wire {w!r} is on "
                       f"{pos.get(w, 'a clean reserved wire')} (locations {pos})",
                       f"sample(wires=[location of w for w in {want}]) -- in the order requested by the original measurement")
    return None


def composition_shapes(n, length, alphabet):
    one = [k for k in alphabet if k not in ("CNOT", "GP", "I0")]
    zero = [k for k in alphabet if k in ("GP", "I0")]
    letters = [(k, (w,)) for k in one for w in range(n)] + [(k, ()) for k in zero]
    if "CNOT" in alphabet:
        letters += [("CNOT", (c, t)) for c in range(n) for t in range(n) if c != t]
    for ln in range(0, length + 1):
        yield from itertools.product(letters, repeat=ln)


def meas_specs(n):
    yield None
    for k in range(1, n + 1):
        yield from (list(p) for p in itertools.permutations(range(n), k))


FULL = ["RZ", "RotXZX", "H", "S", "X", "Y", "Z", "I", "I0", "GP", "CNOT"]
SMALL = ["RZ", "X", "GP", "CNOT"]


def composition_obligation(tag, n, length, alphabet, labels, diags):
    name = f"C74/decomposition:convert_to_mbqc_formalism/composition[{tag}]"
    desc = (f"real body with callee contracts for the patterns: every tape of <= {length} operations over {alphabet} on {n} logical wire(s) "
            f"{labels}, diagonalize_mcms in {list(diags)}, every wire assignment, sample() / sample(wires = every ordered non-empty subset): same gates on consistently tracked "
            "wire chains, final sample reads the requested logical wires in the requested order")

    def fn():
        cnt = 0
        for diag in diags:
            for spec in composition_shapes(n, length, alphabet):
                for m in meas_specs(n):
                    used = {i for _, w in spec for i in w} | set(m or [])
                    if not used:
                        continue
                    cnt += 1
                    bad = composition_run(list(spec), m, diag, labels)
                    if bad:
                        return Outcome(REFUTED, "real-body-run+callee-contracts", str(bad), witness=dict(inputs=bad["inputs"]),
                                       replay=dict(confirmed=True, observed=bad["observed"], expected=bad["expected"], inputs=bad["inputs"]))
        if cnt == 0:
            return Outcome(FAULT, "real-body-run+callee-contracts", "empty enumeration")
        return Outcome(DISCHARGED, "real-body-run+callee-contracts", f"{cnt} tapes: " + desc)
    return Obligation(name, "post", fn, func=(DEC_FILE, "convert_to_mbqc_formalism"), sample=desc, timeout=900, size_bounded=True)


# ------------------------------------------------------------------------------------------- (E) bounded end-to-end stand-in
def reduced_density(st, wires):
    for w in wires:
        st.attach(w)
    for w in list(st.dirty):
        st.attach(w)
    psi = st.psi[0]
    order = [st.live.index(w) for w in wires]
    rest = [k for k in range(len(st.live)) if k not in order]
    m = np.transpose(psi, order + rest).reshape(2 ** len(wires), -1)
    rho = m @ m.conj().T
    return rho / np.trace(rho)


def end_to_end_obligation(seed, tier):
    name = "C74/decomposition:convert_to_mbqc_formalism/end-to-end[sampled-circuits,sampled-branches]"
    desc = ("unmodified convert_to_mbqc_formalism on seeded circuits (1-2 logical wires, up to 9 gates, permuted read-out), sampled outcome branches, "
            "independent float interpreter: state on the new sample wires == state of the original circuit on the requested wires (tol 1e-7)")

    def fn():
        qp, D, QubitMgr, AnnotatedQueue, QuantumScript = real_dec()
        from pennylane.ftqc import RotXZX
        rng = random.Random(zlib.crc32(f"{seed}:{name}".encode()))
        ring = NumRing(False)
        ang = lambda: rng.uniform(-3, 3)
        one = [lambda w: qp.H(w), lambda w: qp.S(w), lambda w: qp.RZ(ang(), w), lambda w: RotXZX(ang(), ang(), ang(), w),
               lambda w: qp.X(w), lambda w: qp.Y(w), lambda w: qp.Z(w)]
        circuits = []
        for _ in range(3 if tier == "quick" else 8):        # one wire, long: auxiliary wires get recycled
            ops = [RotXZX(ang(), ang(), ang(), 0)] + [rng.choice(one[:4])(0) for _ in range(8)]
            ops[rng.randrange(1, 3)] = qp.RZ(ang(), 0)
            circuits.append((ops, qp.sample(), False))
        for k in range(4 if tier == "quick" else 10):       # two wires, CNOT, every read-out order
            labs = [0, 1] if k % 2 == 0 else ["b", "a"]
            first = rng.randrange(2)
            ops = [RotXZX(ang(), ang(), ang(), labs[first]), RotXZX(ang(), ang(), ang(), labs[1 - first])]
            ops += [rng.choice(one)(labs[rng.randrange(2)]) for _ in range(2)]
            ops.insert(rng.randrange(2, len(ops) + 1), qp.CNOT([labs[k % 2], labs[1 - k % 2]]))
            ops.append(qp.RZ(ang(), labs[rng.randrange(2)]))
            mw = [[labs[1], labs[0]], [labs[0], labs[1]], [labs[1]], None][k % 4]
            circuits.append((ops, qp.sample() if mw is None else qp.sample(wires=mw), k % 3 == 0))
        for ops, mp, diag in circuits:
            tape = QuantumScript(ops, [mp])
            r = call(lambda: D.convert_to_mbqc_formalism(tape, diagonalize_mcms=diag))
            if r[0] != "ok":
                inp = dict(operations=[repr(o) for o in ops], measurement=repr(mp), diagonalize_mcms=diag)
                return Outcome(REFUTED, "real-conversion+float-interpreter", f"conversion of a supported circuit raised {r[1]}", witness=dict(inputs=inp),
                               replay=dict(confirmed=True, observed=f"raises {r[1]}", expected="a converted tape", inputs=inp))
            (new_tape,), _p = r[1]
            want = list(mp.wires) if len(mp.wires) else list(tape.wires)
            ref = MState(ring)
            for o in ops:
                ref.apply_op(o)
            rho_ref = reduced_density(ref, want)
            got = list(new_tape.measurements[0].wires)
            inputs = dict(operations=[repr(o) for o in ops], measurement=repr(mp), diagonalize_mcms=diag)

            def leaf(st, outcomes, record):
                if len(got) != len(want):
                    return dict(inputs=inputs, observed=f"sample on {got}", expected=f"{len(want)} wires")
                rho = reduced_density(st, got)
                err = float(np.max(np.abs(rho - rho_ref)))
                if err > 1e-7:
                    return dict(inputs=dict(inputs, outcomes="".join(map(str, record))),
                                observed=f"state on the sampled physical wires {got} differs from the original circuit's state on {want}: max|d rho|={err:.4f}",
                                expected="identical reduced states for every outcome branch")
                return None
            for _ in range(2 if tier == "quick" else 4):
                bad, n = mbqc_run(ring, list(new_tape.operations), MState(ring), leaf, mode="sample", rng=rng)
                if bad:
                    return Outcome(REFUTED, "real-conversion+float-interpreter", str(bad), witness=dict(inputs=bad["inputs"]),
                                   replay=dict(confirmed=True, observed=bad["observed"], expected=bad["expected"], inputs=bad["inputs"]))
        return Outcome(DISCHARGED, "real-conversion+float-interpreter(bounded)", desc)
    return Obligation(name, "post", fn, func=(DEC_FILE, "convert_to_mbqc_formalism"), sample=desc, timeout=900, bounded=True)


def add_conversion_half(plan, tier, seed):
    qp, D, QubitMgr, AnnotatedQueue, QuantumScript = real_dec()
    from pennylane.ftqc import RotXZX

    # bindings: the operator classes of the gate set denote the reference matrices used by the interpreter (exact, all angles)
    def bind(nm, mk, ref, names):
        def fn():
            S = [sym(n) for n in names]
            m = poly_matrix(qp.matrix(mk(*S)))
            r = ref(*S)
            if m.shape != r.shape or any(not (a - b).is_zero() for a, b in zip(m.flat, r.flat)):
                return dict(inputs=f"qp.matrix({nm}({', '.join(names)}))", observed=str(m.tolist())[:300], expected="reference matrix of " + nm)
            return None
        ob = native(f"C74/binding:{nm}.matrix==reference[all-angles]", fn, f"real {nm} has the documented matrix for all angles (exact)", "queue_single_qubit_gate")
        ob.func = (DEC_FILE, "queue_single_qubit_gate")
        return ob
    R = PolyRing()
    plan.add(bind("RotXZX", lambda a, b, c: RotXZX(a, b, c, 0), lambda a, b, c: R.mat("RotXZX", (a, b, c)), ["a", "b", "c"]))
    plan.add(bind("RZ", lambda a: qp.RZ(a, 0), lambda a: R.mat("RZ", (a,)), ["a"]))
    plan.add(bind("PhaseShift", lambda a: qp.PhaseShift(a, 0), lambda a: R.mat("PhaseShift", (a,)), ["a"]))
    plan.add(bind("CZ", lambda: qp.CZ([0, 1]), lambda: R.mat("CZ"), []))
    plan.add(bind("Adjoint(S)", lambda: qp.adjoint(qp.S(0)), lambda: R.mat("Adjoint(S)"), []))

    for gate in ("RZ", "RotXZX", "H", "S", "CNOT"):
        for diag in (False, True):
            plan.add(pattern_obligation(gate, diag, seed))
    for f in ("queue_single_qubit_gate", "queue_corrections", "_rz_measurements", "_rot_measurements", "_hadamard_measurements", "_s_measurements",
              "_rotation_corrections", "_hadamard_corrections", "_s_corrections", "queue_cnot", "cnot_measurements", "cnot_corrections",
              "_cnot_xz_corrections", "_generate_cnot_graph", "convert_to_mbqc_formalism"):
        plan.fn_under_contract(DEC_FILE, f)

    thorough = tier != "quick"
    NOC = [k for k in FULL if k != "CNOT"]
    both = (False, True)
    if thorough:
        comps = [("1-wire,len<=3,full-gate-set", 1, 3, NOC, [0], both), ("2-wires,len<=2,full-gate-set", 2, 2, FULL, [0, 1], both),
                 ("2-wires,len<=2,full-gate-set,labels-b-a", 2, 2, FULL, ["b", "a"], both),
                 ("2-wires,len<=4,reduced-gate-set", 2, 4, SMALL, [1, 0], both), ("3-wires,len<=3,reduced-gate-set", 3, 3, SMALL, ["q", 0, 5], both)]
    else:
        comps = [("1-wire,len<=2,full-gate-set", 1, 2, NOC, [0], both), ("1-wire,len<=3,reduced-gate-set", 1, 3, ["RZ", "H", "X", "I0", "GP"], [3], both),
                 ("2-wires,len<=2,full-gate-set", 2, 2, FULL, [0, 1], (False,)),
                 ("2-wires,len<=2,reduced-gate-set,labels-b-a", 2, 2, SMALL + ["H", "I0"], ["b", "a"], (True,)),
                 ("2-wires,len<=3,reduced-gate-set", 2, 3, SMALL, [1, 0], both), ("3-wires,len<=2,reduced-gate-set", 3, 2, SMALL, ["q", 0, 5], (False,))]
    for tag, n, ln, alpha, labels, diags in comps:
        plan.add(composition_obligation(tag, n, ln, alpha, labels, diags))
        plan.size_bounds.append(f"convert_to_mbqc_formalism composition [{tag}]: tapes of <= {ln} operations over {alpha} on {n} wire(s) {labels}, diagonalize_mcms in {list(diags)}; "
                                "all wire assignments and all ordered read-out subsets; angles symbolic")
    plan.add(end_to_end_obligation(seed, tier))

    def rejects():
        bad_tapes = [QuantumScript([qp.H(0)], [qp.expval(qp.Z(0))]), QuantumScript([qp.H(0)], [qp.sample(wires=0), qp.sample(wires=0)]),
                     QuantumScript([qp.H(0)], []), QuantumScript([qp.H(0)], [qp.probs(wires=0)])]
        for t in bad_tapes:
            r = call(D.convert_to_mbqc_formalism, t)
            if r != ("raise", "NotImplementedError"):
                return dict(inputs=repr(t.measurements), observed=repr(r)[:200], expected="NotImplementedError (only a single sample measurement is converted)")
        r = call(D.convert_to_mbqc_formalism, QuantumScript([qp.T(0)], [qp.sample()]))
        if r[0] != "raise":
            return dict(inputs="T(0)", observed=repr(r)[:200], expected="an exception for a gate outside the MBQC gate set")
        return None
    ob = native("C74/decomposition:convert_to_mbqc_formalism/rejects-unsupported-measurements-and-gates", rejects,
                "anything but one sample measurement -> NotImplementedError; gate outside the gate set -> exception", "convert_to_mbqc_formalism", bounded=True)
    ob.func = (DEC_FILE, "convert_to_mbqc_formalism")
    plan.add(ob)

    plan.explanation += (" Conversion half: the real pattern functions of ftqc/decomposition.py (queue_single_qubit_gate/queue_corrections for RZ, RotXZX "
                         "with symbolic angles, H, S; queue_cnot/cnot_corrections) are run and the operators they queue are interpreted on every outcome "
                         "branch by an independent exact interpreter (Laurent polynomials / Gaussian integers): out wire carries U|psi>, all released "
                         "wires are |0>. The real body of convert_to_mbqc_formalism is run with callee contracts for these patterns over enumerated "
                         "tape shapes: same gates on tracked wire chains, read-out wires in the requested order.")
    plan.trusted_base += ["independent MBQC interpreter in contracts/C74.py (graph state = CZ_edges.H^n|0..0>, nodes sorted <-> wires; measurement "
                          "bases |0>,|1> / |0> +- e^{ia}|1>; reset = wire back to |0>; Conditional = apply iff the MeasurementValue is true)",
                          "composition argument (stated, not mechanised): pattern contracts (P) + composition contract (C) + induction over the "
                          "operation list => converted circuit implements the original on the logical wires for every outcome branch"]
    plan.assumptions += ["MeasurementValue arithmetic (^, ~, parity) is evaluated with the REAL processing_fn on concrete outcome bits; a conditional "
                         "measurement that is not executed contributes outcome 0 (cond_measure's `v1 or v2`)",
                         "states are compared up to one non-zero scalar per outcome branch (global phase / branch amplitude); GlobalPhase is not tracked",
                         "pattern functions are wire-label generic: run on 2-3 QubitMgr layouts (set.pop order), not on every labelling",
                         "the original circuit starts in |0..0> (tape semantics), so the initial placement of logical wires on clean wires is free"]
    plan.assumed_contracts += ["QubitMgr.acquire_qubit(s) returns wires from the inactive pool only and release moves them back (real class used, not verified)",
                               "QuantumScript.from_queue / tape.copy keep the queued operators in order (real code used to read the queue)"]
    plan.unverified[:] = [u for u in plan.unverified if not (u.startswith("convert_to_mbqc_gateset / convert_to_mbqc_formalism")
                                                             or u.startswith("measurement-branch correctness"))]
    plan.unverified += ["convert_to_mbqc_gateset (decomposition into the MBQC gate set; graph decomposition solver)",
                        "convert_to_mbqc_formalism on tapes longer / wider than the enumerated shapes is covered only through the stated composition argument",
                        "execution semantics of the devices for ParametricMidMeasure / GraphStatePrep (the interpreter uses the documented semantics)",
                        "program-capture (plxpr) path of make_graph_state / cond_measure"]
