"""C46 Resource counts report what the circuit contains.

Function under contract: pennylane/resource/resource.py `_count_resources` (the two counting loops), executed symbolically on a tape
whose operation / measurement lists have SYMBOLIC length.  Operations are a tagged union {Controlled, ControlledOp, any other
operator class}; names are an uninterpreted hashable sort; the f-string `f"{n_ctrls}{gate_name}"` is an uninterpreted function
(number, name) -> name; the measurement label `_mp_to_str(m, num_wires)` is an uninterpreted function.  Postconditions:

    counts[k]                 == #{op : key(op) == k}      for EVERY name k   (key = name, prefixed by the number of controls
                                                                                   when type(op) is exactly Controlled/ControlledOp
                                                                                   and there is more than one control wire)
    k in counts               <=> that number is > 0
    total_quantum_operations  == sum of the counts == len(operations)
    measurement_processes[m]  == #{mp : label(mp) == m},  sum == len(measurements)
    num_wires                 == len(tape.wires);   circuit_depth == graph depth / None

SpecsResources.__post_init__ / _flatten_dict (total_quantum_operations = sum of the leaf values) are checked size-bounded
(concrete dictionary shapes, symbolic values).
"""
import z3

from vf.common import Plan
from vf.pyvc.engine import (World, T, Int, Bool, Label, LabelSort, RecT, SeqT, MapT, Rec, SeqV, MapV, PyList, Opaque, Unsupp, RaiseExc)
from vf.pyvc.contract import FnContract, Case, LoopSpec, obligations_for, lemma
from vf.pyvc.interp import Model
from vf.pyvc import spec as S
from vf.pyvc import xmaps as X
from vf.pyvc.spec import And, Or, Not, Implies, If

RES = "pennylane/resource/resource.py"

OP_FIELDS = {"name": Label, "control_wires": SeqT(Label)}
STUB = "class {0}:\n    pass\n"
OP_KINDS = ("Controlled", "ControlledOp", "Operator")       # "Operator": every operator whose type is neither of the first two


def build(tier, seed):
    plan = Plan("C46", level="proof")
    try:
        import pennylane  # noqa: F401  (loaded once: the forked obligation workers replay counter-models on the real code)
    except Exception:  # pylint: disable=broad-except
        pass
    plan.explanation = ("_count_resources is executed symbolically on tapes with operation and measurement lists of SYMBOLIC length; the "
                        "counting loops are cut by invariants `counts[k] == number of operations so far whose key is k` (proved at an "
                        "arbitrary name k) and `sum of counts == number of operations so far`; dictionaries are z3 arrays.")
    plan.trusted_base = ["vf/pyvc encoder (Python subset semantics) incl. vf/pyvc/xmaps.py (defaultdict maps, tagged unions)",
                         "z3 (arrays, sequences, datatypes, linear integer arithmetic)",
                         "defining equations of the spec functions count-by-key (snoc) and sum-of-values (store), used by instances"]
    plan.assumptions = ["operator and measurement objects are abstract records (name, control wires / identity): the tape is an input",
                        "names are an uninterpreted hashable sort; f\"{n_ctrls}{gate_name}\" is an uninterpreted function of (n_ctrls, gate_name) "
                        "-- the specification uses the same function, so collisions between formatted names are treated as in the code"]
    plan.assumed_contracts = ["_mp_to_str(mp, num_wires): an uninterpreted function (its string building and `match` statements are not "
                              "interpreted); _obs_to_str likewise",
                              "SpecsResources(...) dataclass construction: fields stored as given, total_quantum_operations = sum of the "
                              "values of `counts` (the latter is what __post_init__/_flatten_dict are checked for, size-bounded)",
                              "tape.graph.get_depth(): an arbitrary integer (CircuitGraph is not under contract)"]
    plan.dropped = ["docstrings, annotations, Resources.__post_init__ (collection of symbolic Expression variables)"]

    OPU = X.UnionT(*OP_KINDS)
    MP = RecT("MeasurementProcess")
    K0 = z3.Const("k0", LabelSort)          # an arbitrary gate name
    M0 = z3.Const("m0", LabelSort)          # an arbitrary measurement label
    FMT = z3.Function("fmt_count_name", z3.IntSort(), LabelSort, LabelSort)          # f"{n_ctrls}{gate_name}"
    IARR = z3.ArraySort(LabelSort, z3.IntSort())
    SUMV = z3.Function("sum_values", IARR, z3.IntSort())                              # sum of a finitely supported value function

    def b_fstring(it, parts, kw):
        if all(isinstance(p, str) for p in parts):
            return "".join(parts)
        if len(parts) == 2 and isinstance(parts[1], z3.ExprRef) and parts[1].sort() == LabelSort:
            from vf.pyvc.engine import to_int_term
            return FMT(to_int_term(parts[0]), parts[1])
        return Opaque("str")

    def typed_defaultdict(it, args, kw):
        if len(args) == 1:
            return X.empty_dmap(it.world, Label)
        return X.b_defaultdict(it, args, kw, None)

    def b_mp_to_str(it, args, kw):
        mp, nw = args
        from vf.pyvc.engine import to_int_term
        return MPSTR(it.world.box(mp, MP), to_int_term(nw))

    def b_specs_resources(it, args, kw):
        """SpecsResources(counts=..., measurement_processes=..., num_wires=..., circuit_depth=...)"""
        if args or set(kw) - {"counts", "measurement_processes", "num_wires", "circuit_depth"}:
            raise Unsupp("SpecsResources called with other arguments than the modelled keywords")
        c = kw["counts"]
        total = SUMV(c.val if getattr(c, "normal", False) else X.normalised_val(it.world, c.dom, c.val, 0)) if isinstance(c, MapV) \
            else sum(c.values())
        return Rec(it.world.classes["_SpecsResourcesRecord"],
                   {"counts": c, "measurement_processes": kw["measurement_processes"], "num_wires": kw["num_wires"],
                    "circuit_depth": kw.get("circuit_depth"), "total_quantum_operations": total})

    stubs = {k: (STUB.format(k), OP_FIELDS) for k in OP_KINDS}
    stubs["MeasurementProcess"] = (STUB.format("MeasurementProcess"), {"ident": Label})
    stubs["CircuitGraph"] = ("class CircuitGraph:\n    def get_depth(self):\n        return self.depth\n", {"depth": Int})
    stubs["Tape"] = (STUB.format("Tape"), {"operations": SeqT(OPU), "measurements": SeqT(MP), "wires": SeqT(Label),
                                          "graph": RecT("CircuitGraph")})
    # record for the RESULT (the real class is a slotted dataclass whose generated __init__ has no source): the constructor call
    # `SpecsResources(...)` is modelled by b_specs_resources below, the record only carries the fields
    stubs["_SpecsResourcesRecord"] = (STUB.format("_SpecsResourcesRecord"),
                                      {"counts": MapT(Label, Int), "measurement_processes": MapT(Label, Int), "num_wires": Int,
                                       "circuit_depth": Int, "total_quantum_operations": Int})
    w = World(RES, stubs=stubs, extra_builtins={"fstring": b_fstring, "defaultdict": typed_defaultdict, "_mp_to_str": b_mp_to_str,
                                                "SpecsResources": b_specs_resources})
    OPs, MPs = w.sort_of(OPU), w.sort_of(MP)
    OSEQ, MSEQ = z3.SeqSort(OPs), z3.SeqSort(MPs)
    MPSTR = z3.Function("mp_to_str", MPs, z3.IntSort(), LabelSort)
    udt = X.union_sort(w, OPU)
    is_c, is_co = udt.recognizer(0), udt.recognizer(1)
    rec_sorts = [w.sort_of(RecT(k)) for k in OP_KINDS]

    def fld(a, alt, f):
        return rec_sorts[alt].accessor(0, f)(udt.accessor(alt, 0)(a))

    # ---- the documented key of an operation (written from the rule, not from the code) ---------------------------------------------
    def name_of(a):
        return z3.If(is_c(a), fld(a, 0, 0), z3.If(is_co(a), fld(a, 1, 0), fld(a, 2, 0)))

    def n_controls(a):
        return z3.If(is_c(a), z3.Length(fld(a, 0, 1)), z3.Length(fld(a, 1, 1)))

    def key_of(a):
        return z3.If(z3.And(z3.Or(is_c(a), is_co(a)), n_controls(a) > 1), FMT(n_controls(a), name_of(a)), name_of(a))

    # indexed counts: F(s, i, ..) = number of positions j < i of s whose key/label is the given one
    CNTK = z3.Function("count_ops_with_key", OSEQ, z3.IntSort(), LabelSort, z3.IntSort())
    CNTM = z3.Function("count_measurements_with_label", MSEQ, z3.IntSort(), z3.IntSort(), LabelSort, z3.IntSort())

    def cntk_def(s_, i, k):
        return [CNTK(s_, 0, k) == 0,
                z3.Implies(z3.And(i >= 0, i < z3.Length(s_)), CNTK(s_, i + 1, k) == CNTK(s_, i, k) + z3.If(key_of(s_[i]) == k, 1, 0))]

    def cntm_def(s_, i, nw, k):
        return [CNTM(s_, 0, nw, k) == 0,
                z3.Implies(z3.And(i >= 0, i < z3.Length(s_)),
                           CNTM(s_, i + 1, nw, k) == CNTM(s_, i, nw, k) + z3.If(MPSTR(s_[i], nw) == k, 1, 0))]

    def sumv_store(arr):
        """instances of the defining equations of sum_values: empty map, and one update (for every store layer of `arr`)"""
        out = [SUMV(z3.K(LabelSort, z3.IntVal(0))) == 0]
        seen = 0
        while z3.is_store(arr) and seen < 4:
            base, k, v = arr.children()
            out.append(SUMV(arr) == SUMV(base) - z3.Select(base, k) + v)
            arr, seen = base, seen + 1
        return out

    def table_ok(m, cnt, k):
        """entry k of a counting dictionary: present iff the count is positive, and then equal to it"""
        return z3.And(z3.Select(m.dom, k) == (cnt > 0), z3.Select(m.val, k) == cnt, cnt >= 0)

    # ---- loop invariants ------------------------------------------------------------------------------------------------------------------
    def inv_ops(v):
        ops, i = v.tape.operations.term, v._i0
        qo = v.quantum_operations
        return And(table_ok(qo, CNTK(ops, i, K0), K0), SUMV(qo.val) == i)

    def ax_ops(v):
        ops, i = v.tape.operations.term, v._i0
        return cntk_def(ops, i, K0) + sumv_store(v.quantum_operations.val)

    def inv_meas(v):
        ms, j = v.tape.measurements.term, v._i1
        mp = v.measurement_processes
        return And(table_ok(mp, CNTM(ms, j, S._t(v.num_wires), M0), M0), SUMV(mp.val) == j)

    def ax_meas(v):
        ms, j = v.tape.measurements.term, v._i1
        return cntm_def(ms, j, S._t(v.num_wires), M0) + sumv_store(v.measurement_processes.val)

    # ---- native (replay) side: real tapes built from a recipe ----------------------------------------------------------------------------
    def build_tape(recipe):
        import pennylane as qp
        from pennylane.ops.op_math import Controlled as C, ControlledOp as CO
        plain = [lambda: qp.Hadamard(0), lambda: qp.RX(0.1, 1), lambda: qp.CNOT([0, 1]), lambda: qp.Toffoli([0, 1, 2]),
                 lambda: qp.CRX(0.4, [2, 0]), lambda: qp.MultiControlledX([0, 1, 2, 3])]
        co_base = [lambda: qp.RX(0.3, 9), lambda: qp.Hadamard(9), lambda: qp.RZ(0.2, 9)]
        c_base = [lambda: qp.Hermitian([[1, 0], [0, -1]], 9), lambda: qp.prod(qp.X(9), qp.Y(8)), lambda: qp.s_prod(2.0, qp.X(9))]
        ops = []
        for kind, idx, nctrl in recipe["ops"]:
            if kind == "Operator":
                ops.append(plain[idx % len(plain)]())
            else:
                cw = list(range(max(1, nctrl)))
                ops.append(CO(co_base[idx % 3](), control_wires=cw) if kind == "ControlledOp" else C(c_base[idx % 3](), control_wires=cw))
        meas_pool = [lambda: qp.expval(qp.Z(0)), lambda: qp.probs(wires=[0, 1]), lambda: qp.sample(), lambda: qp.var(qp.X(1)),
                     lambda: qp.expval(qp.Z(0) @ qp.X(1)), lambda: qp.state()]
        meas = [meas_pool[i % len(meas_pool)]() for i in recipe["meas"]]
        return qp.tape.QuantumScript(ops, meas)

    def lab_index(lab):
        digits = "".join(ch for ch in str(lab) if ch.isdigit())
        return int(digits) if digits else 0

    def gen_tape(rng, m):
        import random
        t = m.get("tape") if isinstance(m, dict) else None
        if rng is None and isinstance(t, dict) and "operations" in t:
            # repair of a solver model: keep the class, the number of control wires and the name identities of each operation
            ops = [(o.get("__class__", "Operator"), lab_index(o.get("name")), len(o.get("control_wires") or [])) for o in t["operations"]]
            meas = [lab_index(x.get("ident")) for x in (t.get("measurements") or [])]
            return {"tape": {"ops": ops, "meas": meas}, "compute_depth": bool(m.get("compute_depth"))}
        rng = rng or random.Random(0)
        ops = [(rng.choice(OP_KINDS), rng.randrange(6), rng.choice([0, 1, 1, 2, 2, 3])) for _ in range(rng.choice([0, 1, 2, 3, 4, 6]))]
        return {"tape": {"ops": ops, "meas": [rng.randrange(6) for _ in range(rng.choice([0, 1, 2, 3]))]},
                "compute_depth": rng.random() < 0.5}

    def native_count(mod, a):
        a["tape"] = build_tape(a["tape"])
        return mod._count_resources(a["tape"], a["compute_depth"])

    def native_post(o, r, nw):
        import importlib
        from collections import Counter
        from pennylane.ops.op_math import Controlled as C, ControlledOp as CO
        mod = importlib.import_module("pennylane.resource.resource")
        tape = nw.tape
        exp = Counter()
        for op in tape.operations:
            k = op.name
            if type(op) in (C, CO) and len(op.control_wires) > 1:
                k = f"{len(op.control_wires)}{k}"
            exp[k] += 1
        expm = Counter(mod._mp_to_str(m, len(tape.wires)) for m in tape.measurements)
        return (r.counts == dict(exp) and sum(r.counts.values()) == len(tape.operations)
                and r.total_quantum_operations == len(tape.operations)
                and r.measurement_processes == dict(expm) and sum(r.measurement_processes.values()) == len(tape.measurements)
                and r.num_wires == len(tape.wires)
                and ((r.circuit_depth == tape.graph.get_depth()) if o.compute_depth else r.circuit_depth is None))

    def post(o, r, nw):
        if not isinstance(o.tape, Rec):
            return native_post(o, r, nw)
        ops, ms = o.tape.operations.term, o.tape.measurements.term
        nwires = z3.Length(o.tape.wires.term)
        depth_ok = (r.circuit_depth == o.tape.graph.depth) if o.compute_depth is True else (r.circuit_depth is None)
        return And(table_ok(r.counts, CNTK(ops, z3.Length(ops), K0), K0), r.total_quantum_operations == z3.Length(ops),
                   SUMV(r.counts.val) == z3.Length(ops),
                   table_ok(r.measurement_processes, CNTM(ms, z3.Length(ms), nwires, M0), M0), SUMV(r.measurement_processes.val) == z3.Length(ms),
                   r.num_wires == nwires, depth_ok,
                   # the tape is only read
                   nw.tape.operations.term == ops, nw.tape.measurements.term == ms, nw.tape.wires.term == o.tape.wires.term,
                   nw.tape.graph.depth == o.tape.graph.depth)

    TAPE = RecT("Tape")
    cases = []
    for lab, cd in (("compute_depth=True", T("const", True)), ("compute_depth=False", T("const", False))):
        cases.append(Case(lab, {"tape": TAPE, "compute_depth": cd}, native_call=native_count, native_gen=gen_tape,
                          ensures=post,
                          loops={0: LoopSpec(inv_ops, types={"quantum_operations": X.DMapT(Label)}, axioms=ax_ops),
                                 1: LoopSpec(inv_meas, types={"measurement_processes": X.DMapT(Label)}, axioms=ax_meas)}))
    fc = FnContract(w, "_count_resources", cases)
    X.use_xinterp(fc)
    plan.fn_under_contract(RES, "_count_resources")
    for ob in obligations_for("C46", fc, tier):
        plan.add(ob)

    # ---- lemmas: what the pointwise statements give for whole dictionaries ------------------------------------------------------------------
    A = z3.Const("A", IARR)
    k1, k2 = z3.Consts("k1 k2", LabelSort)
    v1, v2 = z3.Ints("v1 v2")
    plan.add(lemma("C46", "sum_values/two-updates-commute-and-add", [v1, v2],
                   SUMV(z3.Store(z3.Store(A, k1, z3.Select(A, k1) + v1), k2, z3.Select(z3.Store(A, k1, z3.Select(A, k1) + v1), k2) + v2))
                   == SUMV(A) + v1 + v2,
                   assumptions=sumv_store(z3.Store(z3.Store(A, k1, z3.Select(A, k1) + v1), k2,
                                                   z3.Select(z3.Store(A, k1, z3.Select(A, k1) + v1), k2) + v2))))
    Sa = z3.Const("Sa", OSEQ)
    ii = z3.Int("i")
    plan.add(lemma("C46", "count-by-key/step:0<=count<=index", [ii],
                   z3.And(CNTK(Sa, ii + 1, K0) >= 0, CNTK(Sa, ii + 1, K0) <= ii + 1),
                   assumptions=[ii >= 0, ii < z3.Length(Sa), CNTK(Sa, ii, K0) >= 0, CNTK(Sa, ii, K0) <= ii] + cntk_def(Sa, ii, K0)))

    size_bounded_post_init(plan, tier)
    graph_cache_contracts(plan, tier)
    partial_args_contracts(plan, tier)
    plan.size_bounds = ["SpecsResources.__post_init__ / _flatten_dict: dictionaries with 0..3 entries and one nested dictionary "
                        "(all integer values); larger / deeper dictionaries are not covered"]
    plan.unverified = ["circuit depth (CircuitGraph.get_depth)", "qp.specs level plumbing, transform levels, trainable-parameter counts",
                       "_mp_to_str/_obs_to_str string building (match statements)", "Resources.subs / symbolic Expression counts",
                       "tape.operations / tape.measurements / tape.wires themselves (QuantumScript is the input)"]
    return plan


QS = "pennylane/core/qscript.py"
UTL = "pennylane/resource/_utils.py"


def graph_cache_contracts(plan, tier):
    """The depth in the specs is tape.graph.get_depth(), and `graph` is CACHED in tape._graph.  Cache coherence: a script's cached
    graph is None or the graph of the script's CURRENT operations and measurements.  QuantumScript.__init__ starts with no cache,
    the `graph` property builds the graph of the current circuit, and QuantumScript.copy may only carry the cache over when the
    copy has the original's operations and measurements.  Size-bounded: scripts with 1-2 operations and 1 measurement, replacement
    lists of 0-2 operations / 0-1 measurements."""
    OPSRC = "class {0}:\n    pass\n"
    GRAPHOF = z3.Function("circuit_graph_of", z3.SeqSort(LabelSort), z3.SeqSort(LabelSort), LabelSort)

    def b_graph(it, args, kw):
        ops, meas = args[0], args[1]
        return GRAPHOF(idents(ops), idents(meas))
    w = World(QS, classes={"QuantumScript": {"_ops": Int, "_measurements": Int, "_shots": Label, "_trainable_params": Label, "_graph": Label,
                                             "_specs": Label, "_batch_size": Int, "_obs_sharing_wires": Label, "_obs_sharing_wires_id": Label}},
              stubs={"Operator": (OPSRC.format("Operator"), {"ident": Label}), "MeasurementProcess": (OPSRC.format("MeasurementProcess"), {"ident": Label})},
              extra_builtins={"Shots": lambda it, a, k: a[0], "CircuitGraph": b_graph})
    QSC, OP, MPC = w.classes["QuantumScript"], w.classes["Operator"], w.classes["MeasurementProcess"]
    for prop in ("wires", "par_info", "trainable_params"):       # only handed to the (abstract) CircuitGraph constructor
        QSC.props.pop(prop, None)
        QSC.class_attrs[prop] = __import__("ast").parse("None", mode="eval").body

    def seq_of_labels(xs):
        from vf.pyvc.engine import seq_of
        return seq_of([x.ident for x in xs], LabelSort)

    def idents(v):
        return seq_of_labels(v.items if isinstance(v, PyList) else list(v))

    def recs(ctx, cls, name, n):
        return PyList([Rec(cls, {"ident": z3.Const(ctx.fresh_name(f"{name}{i}"), LabelSort)}) for i in range(n)])

    def mk_script(n_ops, n_meas, cached):
        def mk(ctx, name):
            ops, meas = recs(ctx, OP, f"{name}.op", n_ops), recs(ctx, MPC, f"{name}.mp", n_meas)
            lab = lambda s_: z3.Const(ctx.fresh_name(f"{name}.{s_}"), LabelSort)
            return Rec(QSC, {"_ops": ops, "_measurements": meas, "_shots": lab("shots"), "_trainable_params": lab("tp"),
                             "_graph": GRAPHOF(idents(ops), idents(meas)) if cached else None, "_specs": None,
                             "_batch_size": z3.Int(ctx.fresh_name(f"{name}.bs")), "_obs_sharing_wires": lab("osw"), "_obs_sharing_wires_id": lab("oswid")})
        return mk

    def coherent(t):
        """the cached graph (if any) is the graph of the script's current circuit"""
        if isinstance(t, Rec):
            g = t.f.get("_graph")
            return True if g is None else g == GRAPHOF(idents(t._ops), idents(t._measurements))
        g = t._graph
        return g is None or (len(g.operations) == len(t.operations) and all(a is b for a, b in zip(g.operations, t.operations))
                             and len(g.observables) == len(t.measurements) and all(a is b for a, b in zip(g.observables, t.measurements)))

    def n_depth_ok(t):
        """REPLAY: the depth the specs would report equals the depth of a script built afresh from the same circuit"""
        import pennylane as qp
        return t.graph.get_depth() == qp.tape.QuantumScript(list(t.operations), list(t.measurements)).graph.get_depth()

    # real scripts for the replay
    def real_ops(n, base=0):
        import pennylane as qp
        pool = [lambda: qp.RX(0.1, 0), lambda: qp.CNOT([0, 1]), lambda: qp.Hadamard(1), lambda: qp.RY(0.3, 0)]
        return [pool[(base + i) % len(pool)]() for i in range(n)]

    def real_meas(n, base=0):
        import pennylane as qp
        pool = [lambda: qp.expval(qp.Z(0)), lambda: qp.probs(wires=[1])]
        return [pool[(base + i) % len(pool)]() for i in range(n)]

    def native_copy(n_ops, n_meas, cached, upd, copy_operations):
        def call(mod, a):
            import pennylane as qp
            t = qp.tape.QuantumScript(real_ops(n_ops), real_meas(n_meas), shots=10)
            if cached:
                _ = t.graph
            kws = {}
            if "operations" in upd or "ops" in upd:
                kws["ops" if "ops" in upd else "operations"] = real_ops(upd.get("operations", upd.get("ops")), base=2)
            if "measurements" in upd:
                kws["measurements"] = real_meas(upd["measurements"], base=1)
            if "shots" in upd:
                kws["shots"] = 7
            a["self"] = t
            return t.copy(copy_operations=copy_operations, **kws) if copy_operations else t.copy(**kws)
        return call

    def copy_post(o, r, nw):
        ok = And(coherent(r), coherent(nw.self))
        if not isinstance(r, Rec):
            ok = ok and n_depth_ok(r) and n_depth_ok(nw.self)
        return ok
    cases = []
    variants = [("plain", {}, False), ("copy_operations", {}, True), ("shots", {"shots": 1}, False),
                ("operations:0", {"operations": 0}, False), ("operations:1", {"operations": 1}, False), ("operations:2", {"operations": 2}, False),
                ("ops:0", {"ops": 0}, False), ("measurements:0", {"measurements": 0}, False), ("measurements:1", {"measurements": 1}, False),
                ("operations:0+measurements:1", {"operations": 0, "measurements": 1}, False)]
    for n_ops in (1, 2):
        for cached in (True, False):
            for label, upd, copy_ops in variants:
                params = {"self": T("build", mk_script(n_ops, 1, cached), gen=lambda rng: None)}
                km = {}
                if copy_ops:
                    params["copy_operations"] = T("const", True)
                for key, n_new in upd.items():
                    pname = f"new_{key}"
                    if key == "shots":
                        params[pname] = Label
                    elif key == "measurements":
                        params[pname] = T("build", lambda ctx, name, n_new=n_new: recs(ctx, MPC, name, n_new), gen=lambda rng: None)
                    else:
                        params[pname] = T("build", lambda ctx, name, n_new=n_new: recs(ctx, OP, name, n_new), gen=lambda rng: None)
                    km[key] = pname
                cases.append(Case(f"{n_ops} operations, graph {'cached' if cached else 'not built'}, copy({label})", params, size_bounded=True,
                                  kwargs_map=km, requires=lambda a: coherent(a.self) if isinstance(a.self, Rec) else True, ensures=copy_post,
                                  native_gen=lambda rng, m: {k: None for k in m}, native_call=native_copy(n_ops, 1, cached, upd, copy_ops)))
    fc_copy = FnContract(w, "QuantumScript.copy", cases)

    def native_graph(n_ops, cached):
        def call(mod, a):
            import pennylane as qp
            t = qp.tape.QuantumScript(real_ops(n_ops), real_meas(1))
            if cached:
                _ = t.graph
            a["self"] = t
            return t.graph
        return call
    gcases = []
    for n_ops in (0, 1, 2):
        for cached in (True, False):
            gcases.append(Case(f"{n_ops} operations, graph {'cached' if cached else 'not built'}",
                               {"self": T("build", mk_script(n_ops, 1, cached), gen=lambda rng: None)}, size_bounded=True,
                               requires=lambda a: coherent(a.self) if isinstance(a.self, Rec) else True, native_gen=lambda rng, m: {k: None for k in m}, native_call=native_graph(n_ops, cached),
                               ensures=lambda o, r, nw: And(r == GRAPHOF(idents(o.self._ops), idents(o.self._measurements)), coherent(nw.self),
                                                            nw.self._graph is not None) if isinstance(nw.self, Rec)
                               else (coherent(nw.self) and nw.self._graph is r and n_depth_ok(nw.self))))
    fc_graph = FnContract(w, "QuantumScript.graph", gcases)

    def native_init(mod, a):
        import pennylane as qp
        a["self"] = qp.tape.QuantumScript(real_ops(2), real_meas(1))
        return None
    fc_init = FnContract(w, "QuantumScript.__init__", [
        Case("no cached graph / specs", {"self": T("build", mk_script(0, 0, False), gen=lambda rng: None),
                                          "ops": T("build", lambda ctx, name: recs(ctx, OP, name, 2), gen=lambda rng: None),
                                          "measurements": T("build", lambda ctx, name: recs(ctx, MPC, name, 1), gen=lambda rng: None)},
             size_bounded=True, native_gen=lambda rng, m: {k: None for k in m}, native_call=native_init,
             ensures=lambda o, r, nw: And(nw.self._graph is None, nw.self._specs is None, coherent(nw.self)))])
    for fc in (fc_copy, fc_graph, fc_init):
        X.use_xinterp(fc)
        plan.fn_under_contract(QS, fc.qualname)
        for ob in obligations_for("C46", fc, tier):
            plan.add(ob)
    plan.assumed_contracts.append("CircuitGraph(operations, measurements, ...): a function of the operation and measurement lists (identity of "
                                  "their elements); Shots(x): identity; copy.copy(op): an operator with the same identity")


def partial_args_contracts(plan, tier):
    """resource/_utils.apply_partial_args: the wrapper calls fn with the partial-bound positional arguments first and with the keyword
    arguments merged so that CALL-TIME keywords take precedence over partial-bound ones (functools.partial semantics) -- qp.specs of a
    functools.partial-wrapped QNode must describe the circuit built for the call-time arguments."""
    import ast as _ast
    calls = []

    class Recorder(Model):
        def vf_call(self, interp, args, kwargs):
            interp.ctx.ghost.setdefault("calls", []).append((list(args), dict(kwargs)))
            return z3.Const(interp.ctx.fresh_name("fn_result"), LabelSort)

        def snapshot(self):
            return self
    w = World(UTL, extra_builtins={"__free__": lambda it, a, k: it.ctx.ghost["free"][a[0]]})
    for free in ("fn", "args", "kwargs"):
        w.module_consts[free] = _ast.parse(f"__free__({free!r})", mode="eval").body
    cell = {}

    def lab(ctx, nm):
        return z3.Const(ctx.fresh_name(nm), LabelSort)

    def mk_ghost(n_args, kw_keys):
        def ghost(ctx, a):
            ctx.ghost["free"] = {"fn": Recorder(), "args": tuple(lab(ctx, f"bound{i}") for i in range(n_args)),
                                 "kwargs": {k: lab(ctx, f"bound_{k}") for k in kw_keys}}
        return ghost

    def axioms(o, r, nw, loc):
        cell["free"], cell["calls"] = loc.ghost.free, getattr(loc.ghost, "calls", [])
        return []

    def expected_kwargs(bound, call):
        out = dict(bound)
        out.update(call)            # call-time keywords win
        return out

    def post(n_call, call_keys):
        def ens(o, r, nw):
            free, recorded = cell["free"], cell["calls"]
            if len(recorded) != 1:
                return False
            pos, kws = recorded[0]
            exp_pos = list(free["args"]) + [getattr(o, f"c{i}") for i in range(n_call)]
            exp_kw = expected_kwargs(free["kwargs"], {k: getattr(o, f"kw_{k}") for k in call_keys})
            return And(len(pos) == len(exp_pos), *[a_ == b_ for a_, b_ in zip(pos, exp_pos)], set(kws) == set(exp_kw),
                       *[kws[k] == exp_kw[k] for k in exp_kw if k in kws])
        return ens

    def native(n_args, kw_keys, n_call, call_keys):
        def call(mod, a):
            seen = []

            def fn(*args_, **kwargs_):
                seen.append((list(args_), dict(kwargs_)))
                return "result"
            bound_args = tuple(f"bound{i}" for i in range(n_args))
            bound_kw = {k: f"bound_{k}" for k in kw_keys}
            call_args = tuple(f"call{i}" for i in range(n_call))
            call_kw = {k: f"call_{k}" for k in call_keys}
            res = mod.apply_partial_args(fn, bound_args, bound_kw)(*call_args, **call_kw)
            a["__native__"] = {"ok": res == "result" and seen == [(list(bound_args) + list(call_args), expected_kwargs(bound_kw, call_kw))]}
            return res
        return call
    cases = []
    for n_args, kw_keys, n_call, call_keys in ((0, ("k",), 0, ("k",)), (1, ("k",), 1, ("k", "m")), (2, ("k", "m"), 0, ("m",)), (0, ("k",), 2, ()),
                                               (1, (), 1, ("k",)), (1, ("k", "m"), 1, ("k", "m"))):
        params = {f"c{i}": Label for i in range(n_call)}
        km = {}
        for k in call_keys:
            params[f"kw_{k}"] = Label
            km[k] = f"kw_{k}"
        cases.append(Case(f"bound {n_args} args + keywords {','.join(kw_keys) or 'none'}; call {n_call} args + keywords {','.join(call_keys) or 'none'}",
                          params, size_bounded=True, kwargs_map=km, ghost=mk_ghost(n_args, kw_keys), axioms=axioms,
                          native_gen=lambda rng, m: {k: None for k in m}, native_call=native(n_args, kw_keys, n_call, call_keys),
                          ensures=lambda o, r, nw, n_call=n_call, call_keys=call_keys: (nw.__native__["ok"] if hasattr(nw, "__native__")
                                                                                             else post(n_call, call_keys)(o, r, nw))))
    fc = FnContract(w, "apply_partial_args.<locals>.wrapper", cases)
    X.use_xinterp(fc)
    plan.fn_under_contract(UTL, fc.qualname)
    for ob in obligations_for("C46", fc, tier):
        plan.add(ob)


def size_bounded_post_init(plan, tier):
    """SpecsResources.__post_init__ and _flatten_dict on concrete dictionary shapes with symbolic integer values"""
    def b_fstring(it, parts, kw):
        if all(isinstance(p, str) for p in parts):
            return "".join(parts)
        return Opaque("str")

    def b_setattr(it, args, kw):
        obj, name, val = args
        obj.f[name] = val
        return None
    w = World(RES, classes={"SpecsResources": {"counts": Int, "measurement_processes": Int, "num_wires": Int, "circuit_depth": Int,
                                               "total_quantum_operations": Int}},
              functions=["_flatten_dict"],
              extra_builtins={"fstring": b_fstring, "str": lambda it, a, k: a[0] if isinstance(a[0], str) else Opaque("str"),
                              "object.__setattr__": b_setattr,
                              "super": lambda it, a, k: Opaque("module:superobj"),
                              "superobj.__post_init__": lambda it, a, k: None})

    def leaves(d, prefix=""):
        out = {}
        for k, v in d.items():
            full = f"{prefix}.{k}" if prefix else str(k)
            if isinstance(v, dict):
                out.update(leaves(v, full))
            else:
                out[full] = v
        return out

    def shape_value(shape, ctx, name):
        return {k: (shape_value(v, ctx, f"{name}.{k}") if isinstance(v, dict) else z3.Int(ctx.fresh_name(f"{name}.{k}")))
                for k, v in shape.items()}

    def shape_gen(shape, rng):
        return {k: (shape_gen(v, rng) if isinstance(v, dict) else rng.randint(0, 9)) for k, v in shape.items()}
    shapes = [{}, {"H": 0}, {"H": 0, "CNOT": 0}, {"H": 0, "CNOT": 0, "2C(RX)": 0}, {"H": 0, "grp": {"X": 0, "Y": 0}},
              {"grp": {"X": 0, "sub": {"Z": 0}}, "T": 0}]

    def total(d):
        vals = list(leaves(d).values())
        r = 0
        for x in vals:
            r = r + x
        return r

    def dict_eq(a, b):
        if set(a) != set(b):
            return False
        return And(*[a[k] == b[k] for k in a]) if a else True

    def native_post_init(mod, a):
        a["self"] = mod.SpecsResources(counts=a["self"].counts, measurement_processes={}, num_wires=1)
        return None
    for n, shape in enumerate(shapes):
        dt = T("build", lambda ctx, name, shape=shape: shape_value(shape, ctx, name), gen=lambda rng, shape=shape: shape_gen(shape, rng))
        lab = "shape:" + repr(shape).replace(": 0", "").replace("'", "")
        fc = FnContract(w, "_flatten_dict", [
            Case(lab, {"data": dt}, size_bounded=True,
                 ensures=lambda o, r, nw: And(dict_eq(r, leaves(o.data)), dict_eq(leaves(nw.data), leaves(o.data)), r is not nw.data))])
        X.use_xinterp(fc)
        plan.fn_under_contract(RES, "_flatten_dict")
        for ob in obligations_for("C46", fc, tier):
            plan.add(ob)
        st = T("rec", "SpecsResources", override={"counts": dt, "measurement_processes": T("const", {}), "num_wires": T("const", 1),
                                                   "circuit_depth": T("const", None)})
        fc2 = FnContract(w, "SpecsResources.__post_init__", [
            Case(lab, {"self": st}, size_bounded=True, native_call=native_post_init,
                 ensures=lambda o, r, nw: And(nw.self.total_quantum_operations == total(o.self.counts),
                                              dict_eq(leaves(nw.self.counts), leaves(o.self.counts))))])
        X.use_xinterp(fc2)
        plan.fn_under_contract(RES, "SpecsResources.__post_init__")
        for ob in obligations_for("C46", fc2, tier):
            plan.add(ob)
