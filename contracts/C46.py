"""C46 Resource counts report what the circuit contains.

Function under contract: pennylane/resource/resource.py `_count_resources` (the two counting loops), executed symbolically on a tape
whose operation / measurement lists have SYMBOLIC length.  Operations are a tagged union {Controlled, ControlledOp, any other
operator class}; names are an uninterpreted hashable sort; the f-string `f"{n_ctrls}{gate_name}"` is an uninterpreted function
(number, name) -> name; the measurement label `_mp_to_str(m, num_wires)` is an uninterpreted function.  Postconditions:

    counts[k]                 == #{op : key(op) == k}      for EVERY name k   (key = name, prefixed by the number of controls
                                                                                   when type(op) is exactly Controlled/ControlledOp
                                                                                   and there is more than one control wire)
    k in counts               <=> that number is > 0
    total_quantum_operations  == sum of the counts == len(operations)
    measurement_processes[m]  == #{mp : label(mp) == m},  sum == len(measurements)
    num_wires                 == len(tape.wires);   circuit_depth == graph depth / None

SpecsResources.__post_init__ / _flatten_dict (total_quantum_operations = sum of the leaf values) are checked size-bounded
(concrete dictionary shapes, symbolic values).
"""
import z3

from vf.common import Plan
from vf.pyvc.engine import (World, T, Int, Bool, Label, LabelSort, RecT, SeqT, MapT, Rec, SeqV, MapV, PyList, Opaque, Unsupp, RaiseExc)
from vf.pyvc.contract import FnContract, Case, LoopSpec, obligations_for, lemma
from vf.pyvc import spec as S
from vf.pyvc import xmaps as X
from vf.pyvc.spec import And, Or, Not, Implies, If

RES = "pennylane/resource/resource.py"

OP_FIELDS = {"name": Label, "control_wires": SeqT(Label)}
STUB = "class {0}:\n    pass\n"
OP_KINDS = ("Controlled", "ControlledOp", "Operator")       # "Operator": every operator whose type is neither of the first two


def build(tier, seed):
    plan = Plan("C46", level="proof")
    plan.explanation = ("_count_resources is executed symbolically on tapes with operation and measurement lists of SYMBOLIC length; the "
                        "counting loops are cut by invariants `counts[k] == number of operations so far whose key is k` (proved at an "
                        "arbitrary name k) and `sum of counts == number of operations so far`; dictionaries are z3 arrays.")
    plan.trusted_base = ["vf/pyvc encoder (Python subset semantics) incl. vf/pyvc/xmaps.py (defaultdict maps, tagged unions)",
                         "z3 (arrays, sequences, datatypes, linear integer arithmetic)",
                         "defining equations of the spec functions count-by-key (snoc) and sum-of-values (store), used by instances"]
    plan.assumptions = ["operator and measurement objects are abstract records (name, control wires / identity): the tape is an input",
                        "names are an uninterpreted hashable sort; f\"{n_ctrls}{gate_name}\" is an uninterpreted function of (n_ctrls, gate_name) "
                        "-- the specification uses the same function, so collisions between formatted names are treated as in the code"]
    plan.assumed_contracts = ["_mp_to_str(mp, num_wires): an uninterpreted function (its string building and `match` statements are not "
                              "interpreted); _obs_to_str likewise",
                              "SpecsResources(...) dataclass construction: fields stored as given, total_quantum_operations = sum of the "
                              "values of `counts` (the latter is what __post_init__/_flatten_dict are checked for, size-bounded)",
                              "tape.graph.get_depth(): an arbitrary integer (CircuitGraph is not under contract)"]
    plan.dropped = ["docstrings, annotations, Resources.__post_init__ (collection of symbolic Expression variables)"]

    OPU = X.UnionT(*OP_KINDS)
    MP = RecT("MeasurementProcess")
    K0 = z3.Const("k0", LabelSort)          # an arbitrary gate name
    M0 = z3.Const("m0", LabelSort)          # an arbitrary measurement label
    FMT = z3.Function("fmt_count_name", z3.IntSort(), LabelSort, LabelSort)          # f"{n_ctrls}{gate_name}"
    IARR = z3.ArraySort(LabelSort, z3.IntSort())
    SUMV = z3.Function("sum_values", IARR, z3.IntSort())                              # sum of a finitely supported value function

    def b_fstring(it, parts, kw):
        if all(isinstance(p, str) for p in parts):
            return "".join(parts)
        if len(parts) == 2 and isinstance(parts[1], z3.ExprRef) and parts[1].sort() == LabelSort:
            from vf.pyvc.engine import to_int_term
            return FMT(to_int_term(parts[0]), parts[1])
        return Opaque("str")

    def typed_defaultdict(it, args, kw):
        if len(args) == 1:
            return X.empty_dmap(it.world, Label)
        return X.b_defaultdict(it, args, kw, None)

    def b_mp_to_str(it, args, kw):
        mp, nw = args
        from vf.pyvc.engine import to_int_term
        return MPSTR(it.world.box(mp, MP), to_int_term(nw))

    def b_specs_resources(it, args, kw):
        """SpecsResources(counts=..., measurement_processes=..., num_wires=..., circuit_depth=...)"""
        if args or set(kw) - {"counts", "measurement_processes", "num_wires", "circuit_depth"}:
            raise Unsupp("SpecsResources called with other arguments than the modelled keywords")
        c = kw["counts"]
        total = SUMV(c.val if getattr(c, "normal", False) else X.normalised_val(it.world, c.dom, c.val, 0)) if isinstance(c, MapV) \
            else sum(c.values())
        return Rec(it.world.classes["_SpecsResourcesRecord"],
                   {"counts": c, "measurement_processes": kw["measurement_processes"], "num_wires": kw["num_wires"],
                    "circuit_depth": kw.get("circuit_depth"), "total_quantum_operations": total})

    stubs = {k: (STUB.format(k), OP_FIELDS) for k in OP_KINDS}
    stubs["MeasurementProcess"] = (STUB.format("MeasurementProcess"), {"ident": Label})
    stubs["CircuitGraph"] = ("class CircuitGraph:\n    def get_depth(self):\n        return self.depth\n", {"depth": Int})
    stubs["Tape"] = (STUB.format("Tape"), {"operations": SeqT(OPU), "measurements": SeqT(MP), "wires": SeqT(Label),
                                          "graph": RecT("CircuitGraph")})
    # record for the RESULT (the real class is a slotted dataclass whose generated __init__ has no source): the constructor call
    # `SpecsResources(...)` is modelled by b_specs_resources below, the record only carries the fields
    stubs["_SpecsResourcesRecord"] = (STUB.format("_SpecsResourcesRecord"),
                                      {"counts": MapT(Label, Int), "measurement_processes": MapT(Label, Int), "num_wires": Int,
                                       "circuit_depth": Int, "total_quantum_operations": Int})
    w = World(RES, stubs=stubs, extra_builtins={"fstring": b_fstring, "defaultdict": typed_defaultdict, "_mp_to_str": b_mp_to_str,
                                                "SpecsResources": b_specs_resources})
    OPs, MPs = w.sort_of(OPU), w.sort_of(MP)
    OSEQ, MSEQ = z3.SeqSort(OPs), z3.SeqSort(MPs)
    MPSTR = z3.Function("mp_to_str", MPs, z3.IntSort(), LabelSort)
    udt = X.union_sort(w, OPU)
    is_c, is_co = udt.recognizer(0), udt.recognizer(1)
    rec_sorts = [w.sort_of(RecT(k)) for k in OP_KINDS]

    def fld(a, alt, f):
        return rec_sorts[alt].accessor(0, f)(udt.accessor(alt, 0)(a))

    # ---- the documented key of an operation (written from the rule, not from the code) ---------------------------------------------
    def name_of(a):
        return z3.If(is_c(a), fld(a, 0, 0), z3.If(is_co(a), fld(a, 1, 0), fld(a, 2, 0)))

    def n_controls(a):
        return z3.If(is_c(a), z3.Length(fld(a, 0, 1)), z3.Length(fld(a, 1, 1)))

    def key_of(a):
        return z3.If(z3.And(z3.Or(is_c(a), is_co(a)), n_controls(a) > 1), FMT(n_controls(a), name_of(a)), name_of(a))

    # indexed counts: F(s, i, ..) = number of positions j < i of s whose key/label is the given one
    CNTK = z3.Function("count_ops_with_key", OSEQ, z3.IntSort(), LabelSort, z3.IntSort())
    CNTM = z3.Function("count_measurements_with_label", MSEQ, z3.IntSort(), z3.IntSort(), LabelSort, z3.IntSort())

    def cntk_def(s_, i, k):
        return [CNTK(s_, 0, k) == 0,
                z3.Implies(z3.And(i >= 0, i < z3.Length(s_)), CNTK(s_, i + 1, k) == CNTK(s_, i, k) + z3.If(key_of(s_[i]) == k, 1, 0))]

    def cntm_def(s_, i, nw, k):
        return [CNTM(s_, 0, nw, k) == 0,
                z3.Implies(z3.And(i >= 0, i < z3.Length(s_)),
                           CNTM(s_, i + 1, nw, k) == CNTM(s_, i, nw, k) + z3.If(MPSTR(s_[i], nw) == k, 1, 0))]

    def sumv_store(arr):
        """instances of the defining equations of sum_values: empty map, and one update (for every store layer of `arr`)"""
        out = [SUMV(z3.K(LabelSort, z3.IntVal(0))) == 0]
        seen = 0
        while z3.is_store(arr) and seen < 4:
            base, k, v = arr.children()
            out.append(SUMV(arr) == SUMV(base) - z3.Select(base, k) + v)
            arr, seen = base, seen + 1
        return out

    def table_ok(m, cnt, k):
        """entry k of a counting dictionary: present iff the count is positive, and then equal to it"""
        return z3.And(z3.Select(m.dom, k) == (cnt > 0), z3.Select(m.val, k) == cnt, cnt >= 0)

    # ---- loop invariants ------------------------------------------------------------------------------------------------------------------
    def inv_ops(v):
        ops, i = v.tape.operations.term, v._i0
        qo = v.quantum_operations
        return And(table_ok(qo, CNTK(ops, i, K0), K0), SUMV(qo.val) == i)

    def ax_ops(v):
        ops, i = v.tape.operations.term, v._i0
        return cntk_def(ops, i, K0) + sumv_store(v.quantum_operations.val)

    def inv_meas(v):
        ms, j = v.tape.measurements.term, v._i1
        mp = v.measurement_processes
        return And(table_ok(mp, CNTM(ms, j, S._t(v.num_wires), M0), M0), SUMV(mp.val) == j)

    def ax_meas(v):
        ms, j = v.tape.measurements.term, v._i1
        return cntm_def(ms, j, S._t(v.num_wires), M0) + sumv_store(v.measurement_processes.val)

    # ---- native (replay) side: real tapes built from a recipe ----------------------------------------------------------------------------
    def build_tape(recipe):
        import pennylane as qp
        from pennylane.ops.op_math import Controlled as C, ControlledOp as CO
        plain = [lambda: qp.Hadamard(0), lambda: qp.RX(0.1, 1), lambda: qp.CNOT([0, 1]), lambda: qp.Toffoli([0, 1, 2]),
                 lambda: qp.CRX(0.4, [2, 0]), lambda: qp.MultiControlledX([0, 1, 2, 3])]
        co_base = [lambda: qp.RX(0.3, 9), lambda: qp.Hadamard(9), lambda: qp.RZ(0.2, 9)]
        c_base = [lambda: qp.Hermitian([[1, 0], [0, -1]], 9), lambda: qp.prod(qp.X(9), qp.Y(8)), lambda: qp.s_prod(2.0, qp.X(9))]
        ops = []
        for kind, idx, nctrl in recipe["ops"]:
            if kind == "Operator":
                ops.append(plain[idx % len(plain)]())
            else:
                cw = list(range(max(1, nctrl)))
                ops.append(CO(co_base[idx % 3](), control_wires=cw) if kind == "ControlledOp" else C(c_base[idx % 3](), control_wires=cw))
        meas_pool = [lambda: qp.expval(qp.Z(0)), lambda: qp.probs(wires=[0, 1]), lambda: qp.sample(), lambda: qp.var(qp.X(1)),
                     lambda: qp.expval(qp.Z(0) @ qp.X(1)), lambda: qp.state()]
        meas = [meas_pool[i % len(meas_pool)]() for i in recipe["meas"]]
        return qp.tape.QuantumScript(ops, meas)

    def lab_index(lab):
        digits = "".join(ch for ch in str(lab) if ch.isdigit())
        return int(digits) if digits else 0

    def gen_tape(rng, m):
        import random
        t = m.get("tape") if isinstance(m, dict) else None
        if rng is None and isinstance(t, dict) and "operations" in t:
            # repair of a solver model: keep the class, the number of control wires and the name identities of each operation
            ops = [(o.get("__class__", "Operator"), lab_index(o.get("name")), len(o.get("control_wires") or [])) for o in t["operations"]]
            meas = [lab_index(x.get("ident")) for x in (t.get("measurements") or [])]
            return {"tape": {"ops": ops, "meas": meas}, "compute_depth": bool(m.get("compute_depth"))}
        rng = rng or random.Random(0)
        ops = [(rng.choice(OP_KINDS), rng.randrange(6), rng.choice([0, 1, 1, 2, 2, 3])) for _ in range(rng.choice([0, 1, 2, 3, 4, 6]))]
        return {"tape": {"ops": ops, "meas": [rng.randrange(6) for _ in range(rng.choice([0, 1, 2, 3]))]},
                "compute_depth": rng.random() < 0.5}

    def native_count(mod, a):
        a["tape"] = build_tape(a["tape"])
        return mod._count_resources(a["tape"], a["compute_depth"])

    def native_post(o, r, nw):
        import importlib
        from collections import Counter
        from pennylane.ops.op_math import Controlled as C, ControlledOp as CO
        mod = importlib.import_module("pennylane.resource.resource")
        tape = nw.tape
        exp = Counter()
        for op in tape.operations:
            k = op.name
            if type(op) in (C, CO) and len(op.control_wires) > 1:
                k = f"{len(op.control_wires)}{k}"
            exp[k] += 1
        expm = Counter(mod._mp_to_str(m, len(tape.wires)) for m in tape.measurements)
        return (r.counts == dict(exp) and sum(r.counts.values()) == len(tape.operations)
                and r.total_quantum_operations == len(tape.operations)
                and r.measurement_processes == dict(expm) and sum(r.measurement_processes.values()) == len(tape.measurements)
                and r.num_wires == len(tape.wires)
                and ((r.circuit_depth == tape.graph.get_depth()) if o.compute_depth else r.circuit_depth is None))

    def post(o, r, nw):
        if not isinstance(o.tape, Rec):
            return native_post(o, r, nw)
        ops, ms = o.tape.operations.term, o.tape.measurements.term
        nwires = z3.Length(o.tape.wires.term)
        depth_ok = (r.circuit_depth == o.tape.graph.depth) if o.compute_depth is True else (r.circuit_depth is None)
        return And(table_ok(r.counts, CNTK(ops, z3.Length(ops), K0), K0), r.total_quantum_operations == z3.Length(ops),
                   SUMV(r.counts.val) == z3.Length(ops),
                   table_ok(r.measurement_processes, CNTM(ms, z3.Length(ms), nwires, M0), M0), SUMV(r.measurement_processes.val) == z3.Length(ms),
                   r.num_wires == nwires, depth_ok)

    TAPE = RecT("Tape")
    cases = []
    for lab, cd in (("compute_depth=True", T("const", True)), ("compute_depth=False", T("const", False))):
        cases.append(Case(lab, {"tape": TAPE, "compute_depth": cd}, native_call=native_count, native_gen=gen_tape,
                          ensures=post,
                          loops={0: LoopSpec(inv_ops, types={"quantum_operations": X.DMapT(Label)}, axioms=ax_ops),
                                 1: LoopSpec(inv_meas, types={"measurement_processes": X.DMapT(Label)}, axioms=ax_meas)}))
    fc = FnContract(w, "_count_resources", cases)
    X.use_xinterp(fc)
    plan.fn_under_contract(RES, "_count_resources")
    for ob in obligations_for("C46", fc, tier):
        plan.add(ob)

    # ---- lemmas: what the pointwise statements give for whole dictionaries ------------------------------------------------------------------
    A = z3.Const("A", IARR)
    k1, k2 = z3.Consts("k1 k2", LabelSort)
    v1, v2 = z3.Ints("v1 v2")
    plan.add(lemma("C46", "sum_values/two-updates-commute-and-add", [v1, v2],
                   SUMV(z3.Store(z3.Store(A, k1, z3.Select(A, k1) + v1), k2, z3.Select(z3.Store(A, k1, z3.Select(A, k1) + v1), k2) + v2))
                   == SUMV(A) + v1 + v2,
                   assumptions=sumv_store(z3.Store(z3.Store(A, k1, z3.Select(A, k1) + v1), k2,
                                                   z3.Select(z3.Store(A, k1, z3.Select(A, k1) + v1), k2) + v2))))
    Sa = z3.Const("Sa", OSEQ)
    ii = z3.Int("i")
    plan.add(lemma("C46", "count-by-key/step:0<=count<=index", [ii],
                   z3.And(CNTK(Sa, ii + 1, K0) >= 0, CNTK(Sa, ii + 1, K0) <= ii + 1),
                   assumptions=[ii >= 0, ii < z3.Length(Sa), CNTK(Sa, ii, K0) >= 0, CNTK(Sa, ii, K0) <= ii] + cntk_def(Sa, ii, K0)))

    size_bounded_post_init(plan, tier)
    plan.size_bounds = ["SpecsResources.__post_init__ / _flatten_dict: dictionaries with 0..3 entries and one nested dictionary "
                        "(all integer values); larger / deeper dictionaries are not covered"]
    plan.unverified = ["circuit depth (CircuitGraph.get_depth)", "qp.specs level plumbing, transform levels, trainable-parameter counts",
                       "_mp_to_str/_obs_to_str string building (match statements)", "Resources.subs / symbolic Expression counts",
                       "tape.operations / tape.measurements / tape.wires themselves (QuantumScript is the input)"]
    return plan


def size_bounded_post_init(plan, tier):
    """SpecsResources.__post_init__ and _flatten_dict on concrete dictionary shapes with symbolic integer values"""
    def b_fstring(it, parts, kw):
        if all(isinstance(p, str) for p in parts):
            return "".join(parts)
        return Opaque("str")

    def b_setattr(it, args, kw):
        obj, name, val = args
        obj.f[name] = val
        return None
    w = World(RES, classes={"SpecsResources": {"counts": Int, "measurement_processes": Int, "num_wires": Int, "circuit_depth": Int,
                                               "total_quantum_operations": Int}},
              functions=["_flatten_dict"],
              extra_builtins={"fstring": b_fstring, "str": lambda it, a, k: a[0] if isinstance(a[0], str) else Opaque("str"),
                              "object.__setattr__": b_setattr,
                              "super": lambda it, a, k: Opaque("module:superobj"),
                              "superobj.__post_init__": lambda it, a, k: None})

    def leaves(d, prefix=""):
        out = {}
        for k, v in d.items():
            full = f"{prefix}.{k}" if prefix else str(k)
            if isinstance(v, dict):
                out.update(leaves(v, full))
            else:
                out[full] = v
        return out

    def shape_value(shape, ctx, name):
        return {k: (shape_value(v, ctx, f"{name}.{k}") if isinstance(v, dict) else z3.Int(ctx.fresh_name(f"{name}.{k}")))
                for k, v in shape.items()}

    def shape_gen(shape, rng):
        return {k: (shape_gen(v, rng) if isinstance(v, dict) else rng.randint(0, 9)) for k, v in shape.items()}
    shapes = [{}, {"H": 0}, {"H": 0, "CNOT": 0}, {"H": 0, "CNOT": 0, "2C(RX)": 0}, {"H": 0, "grp": {"X": 0, "Y": 0}},
              {"grp": {"X": 0, "sub": {"Z": 0}}, "T": 0}]

    def total(d):
        vals = list(leaves(d).values())
        r = 0
        for x in vals:
            r = r + x
        return r

    def dict_eq(a, b):
        if set(a) != set(b):
            return False
        return And(*[a[k] == b[k] for k in a]) if a else True

    def native_post_init(mod, a):
        a["self"] = mod.SpecsResources(counts=a["self"].counts, measurement_processes={}, num_wires=1)
        return None
    for n, shape in enumerate(shapes):
        dt = T("build", lambda ctx, name, shape=shape: shape_value(shape, ctx, name), gen=lambda rng, shape=shape: shape_gen(shape, rng))
        lab = "shape:" + repr(shape).replace(": 0", "").replace("'", "")
        fc = FnContract(w, "_flatten_dict", [
            Case(lab, {"data": dt}, size_bounded=True, ensures=lambda o, r, nw: dict_eq(r, leaves(o.data)))])
        X.use_xinterp(fc)
        plan.fn_under_contract(RES, "_flatten_dict")
        for ob in obligations_for("C46", fc, tier):
            plan.add(ob)
        st = T("rec", "SpecsResources", override={"counts": dt, "measurement_processes": T("const", {}), "num_wires": T("const", 1),
                                                   "circuit_depth": T("const", None)})
        fc2 = FnContract(w, "SpecsResources.__post_init__", [
            Case(lab, {"self": st}, size_bounded=True, native_call=native_post_init,
                 ensures=lambda o, r, nw: nw.self.total_quantum_operations == total(o.self.counts))])
        X.use_xinterp(fc2)
        plan.fn_under_contract(RES, "SpecsResources.__post_init__")
        for ob in obligations_for("C46", fc2, tier):
            plan.add(ob)
