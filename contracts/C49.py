"""C49 (index-contraction slice) Quantum-information functions match their definitions.

Covered here -- the functions of pennylane/math/quantum.py and matrix_manipulation.py that involve NO eigendecomposition / log / sqrtm:

    reduce_dm, partial_trace, reduce_statevector, dm_from_state_vector, purity, expectation_value, marginal_prob, expand_matrix

E2: the REAL functions are run on numpy object arrays whose entries are independent symbolic complex numbers (re + i.im, one pair of
real symbols per entry: GENERIC states / matrices, no normalisation or hermiticity assumed) and every entry of the result, and its
shape, is compared AS A POLYNOMIAL with the definition written as explicit index arithmetic on bit strings (wire 0 most significant):

    reduce_dm(rho, I)[a, b]         = sum_t rho[ix(I<-a, rest<-t), ix(I<-b, rest<-t)]         (kept wires in the order given by I)
    partial_trace(M, T)[a, b]       = the same with the kept wires in ascending order, T traced out
    reduce_statevector(psi, I)[a,b] = sum_t psi[ix(a,t)] . conj(psi[ix(b,t)])
    dm_from_state_vector(psi)[i,j]  = psi[i] . conj(psi[j])
    purity(rho, I)                  = Re tr(reduce_dm(rho, I)^2)
    expectation_value(O, psi)       = sum_ij conj(psi[i]) O[i,j] psi[j]
    marginal_prob(p, axes)[a]       = sum of p over the axes that are not kept
    expand_matrix(M, wires, order)  = explicit tensor re-indexing of M onto the wire order

for every register of <= 3 qubits, every ordered subset of kept wires, unbatched and batched (batch of 2).  Equality of the normal forms
is equality for ALL complex entries (a polynomial identity).  SIZE-BOUNDED in the number of qubits; entropies, fidelity, trace
distance, relative entropy, mutual information (eig / log / sqrtm) are NOT covered.
"""
import itertools

import numpy as np

from vf.common import Plan

QFILE = "pennylane/math/quantum.py"
MFILE = "pennylane/math/matrix_manipulation.py"


def _keep_symbolic_astype():
    """math.cast(x, complex128) on an object array of symbols keeps the symbols (A-float-as-real); numeric arrays are cast as usual"""
    import autoray

    def astype(x, dtype, *a, **k):
        if isinstance(x, np.ndarray) and np.asarray(x).dtype == object and not type(x).__name__.startswith("SymArray"):
            return x
        return x.astype(dtype, *a, **k)
    autoray.register_function("numpy", "astype", astype)
    if not getattr(autoray.astype, "_vf_symbolic", False):
        _orig = autoray.astype

        def astype_dispatch(x, dtype_name, **kwargs):
            # pennylane.math.cast goes through autoray.astype; np.stack([...]) of symbolic arrays yields a plain object ndarray
            if isinstance(x, np.ndarray) and x.dtype == object:
                return x
            return _orig(x, dtype_name, **kwargs)
        astype_dispatch._vf_symbolic = True
        autoray.astype = astype_dispatch

    def elementwise(attr, fallback):
        def f(x):
            if isinstance(x, np.ndarray) and x.dtype == object:
                out = np.empty(x.shape, dtype=object)
                for idx, v in np.ndenumerate(x):
                    out[idx] = getattr(v, attr) if hasattr(v, attr) else getattr(np, fallback)(v)
                return out
            return getattr(np, fallback)(x)
        return f
    # numpy's real / imag leave object arrays untouched: take the parts entry by entry (what they do on complex arrays)
    autoray.register_function("numpy", "real", elementwise("real", "real"))
    autoray.register_function("numpy", "imag", elementwise("imag", "imag"))


def build(tier, seed):
    import pennylane as qp
    from vf.symx.oblig import identity_obligation
    from vf.symx.scalar import symarray_c, Sym
    _keep_symbolic_astype()
    plan = Plan("C49", level="other")    # every obligation is size-bounded
    plan.explanation = ("the real index-contraction functions are run on object arrays of generic symbolic complex entries; every result entry and the result "
                        "shape are compared, as polynomials in normal form, with the definition written as explicit bit-string index arithmetic -- per "
                        "register size (<= 3 qubits), kept-wire subset / order and batching")
    plan.trusted_base = ["vf/symx exact ring + Sym scalar (polynomials over Q(i))", "numpy / autoray structural operations on object arrays (reshape, "
                         "transpose, einsum, stack, conj) executed as they are"]
    plan.assumptions = ["numpy interface; casting a symbolic array to complex128 keeps the symbols (A-float-as-real: rounding is not verified)",
                        "check_state=False (the default); the validity checks use allclose on concrete numbers"]
    plan.unverified = ["vn_entropy, vn_entanglement_entropy, mutual_info, relative_entropy, max/min_entropy, fidelity, trace_distance, sqrt_matrix "
                       "(eigendecomposition / log / sqrtm): the rest of the property", "registers of more than 3 qubits", "autograd / tensorflow / torch / jax "
                       "interfaces (e.g. _batched_partial_trace_nonrep_indices)", "check_state=True", "sparse expand_matrix", "cov_matrix, choi_matrix"]
    nmax = 3
    plan.size_bounds = [f"registers of 1..{nmax} qubits, every ordered subset of kept wires, unbatched and batch size 2; expand_matrix: operators on 1-2 wires "
                        f"into wire orders of <= {nmax} wires (all placements and permutations)"]

    # ---- symbolic / numeric generic arrays ----------------------------------------------------------------------------------------
    def names(prefix, shape):
        return [f"{prefix}{'_'.join(map(str, idx))}{part}" for idx in np.ndindex(*shape) for part in ("re", "im")]

    def real_names(prefix, shape):
        return [f"{prefix}{'_'.join(map(str, idx))}" for idx in np.ndindex(*shape)]

    def carr(env, prefix, shape):
        """complex array with entries env[..re] + i env[..im]  (symbolic: SymArrayC; native floats: complex ndarray)"""
        vals = [env[f"{prefix}{'_'.join(map(str, idx))}re"] + 1j * env[f"{prefix}{'_'.join(map(str, idx))}im"] for idx in np.ndindex(*shape)]
        if any(isinstance(v, Sym) for v in vals):
            return symarray_c(vals, shape)
        return np.array(vals, dtype=complex).reshape(shape)

    def rarr(env, prefix, shape):
        vals = [env[f"{prefix}{'_'.join(map(str, idx))}"] for idx in np.ndindex(*shape)]
        a = np.empty(len(vals), dtype=object)
        for i, v in enumerate(vals):
            a[i] = v
        a = a.reshape(shape)
        return a if any(isinstance(v, Sym) for v in vals) else a.astype(float)

    def flat(x):
        a = np.asarray(x, dtype=object)
        return np.array([float(a.ndim)] + [float(s) for s in a.shape] + list(a.reshape(-1)), dtype=object)

    def conj(z):
        return z.conjugate() if hasattr(z, "conjugate") else np.conj(z)

    # ---- index arithmetic: the definitions -----------------------------------------------------------------------------------------
    def index(n, assignment):
        """integer index of the basis state with bit assignment {wire: bit}, wire 0 most significant"""
        i = 0
        for w in range(n):
            i = (i << 1) | assignment[w]
        return i

    def bits(v, k):
        return [(v >> (k - 1 - j)) & 1 for j in range(k)]

    def ref_reduce(get, n, kept):
        """kept: wires in the order that defines the bits of the reduced index; get(i, j): entry of the full operator"""
        kept = list(kept)
        rest = [w for w in range(n) if w not in kept]
        d = 2 ** len(kept)
        out = np.empty((d, d), dtype=object)
        for a in range(d):
            for b in range(d):
                acc = 0
                for t in range(2 ** len(rest)):
                    ia, ib = dict(zip(kept, bits(a, len(kept)))), dict(zip(kept, bits(b, len(kept))))
                    ia.update(zip(rest, bits(t, len(rest))))
                    ib.update(zip(rest, bits(t, len(rest))))
                    acc = acc + get(index(n, ia), index(n, ib))
                out[a, b] = acc
        return out

    def ordered_subsets(n, proper=False):
        for k in range(1, n + (0 if proper else 1)):
            for sub in itertools.permutations(range(n), k):
                yield list(sub)

    def add(name, func, nms, traced, reference, timeout=300):
        plan.add(identity_obligation(name, "post", nms, lambda S: flat(traced(S)), lambda S: flat(reference(S)),
                                     native=lambda env: np.array([complex(z) for z in flat(traced({k: float(v) for k, v in env.items()}))]),
                                     func=func, size_bounded=True, seed=seed, timeout=timeout,
                                     sample="real function on generic symbolic entries == explicit index contraction (entries and shape)"))

    for q in ("reduce_dm", "partial_trace", "reduce_statevector", "dm_from_state_vector", "purity", "_compute_purity", "expectation_value", "marginal_prob"):
        plan.fn_under_contract(QFILE, q)
    for q in ("expand_matrix", "_permute_dense_matrix"):
        plan.fn_under_contract(MFILE, q)

    for n in range(1, nmax + 1):
        d = 2 ** n
        rho_names = names("r", (d, d))
        psi_names = names("v", (d,))
        for kept in ordered_subsets(n):
            tag = f"{n}q/keep{kept}".replace(" ", "")
            add(f"C49/quantum:reduce_dm/{tag}", (QFILE, "reduce_dm"), rho_names,
                lambda S, n=n, d=d, kept=kept: qp.math.reduce_dm(carr(S, "r", (d, d)), kept),
                lambda S, n=n, d=d, kept=kept: ref_reduce(lambda i, j, M=carr(S, "r", (d, d)): M[i, j], n, kept))
            add(f"C49/quantum:reduce_statevector/{tag}", (QFILE, "reduce_statevector"), psi_names,
                lambda S, n=n, d=d, kept=kept: qp.math.reduce_statevector(carr(S, "v", (d,)), kept),
                lambda S, n=n, d=d, kept=kept: ref_reduce(lambda i, j, v=carr(S, "v", (d,)): v[i] * conj(v[j]), n, kept))
            add(f"C49/quantum:purity/{tag}", (QFILE, "purity"), rho_names,
                lambda S, n=n, d=d, kept=kept: qp.math.purity(carr(S, "r", (d, d)), kept),
                lambda S, n=n, d=d, kept=kept: purity_ref(ref_reduce(lambda i, j, M=carr(S, "r", (d, d)): M[i, j], n, kept)))
        # partial_trace: traced wires given (any order), kept wires ascending
        for k in range(0, n + 1):
            for traced_w in itertools.permutations(range(n), k):
                traced_w = list(traced_w)
                kept = [w for w in range(n) if w not in traced_w]
                add(f"C49/quantum:partial_trace/{n}q/trace{traced_w}".replace(" ", ""), (QFILE, "partial_trace"), rho_names,
                    lambda S, d=d, traced_w=traced_w: qp.math.partial_trace(carr(S, "r", (d, d)), traced_w),
                    lambda S, n=n, d=d, kept=kept: ref_reduce(lambda i, j, M=carr(S, "r", (d, d)): M[i, j], n, kept))
        add(f"C49/quantum:dm_from_state_vector/{n}q", (QFILE, "dm_from_state_vector"), psi_names,
            lambda S, d=d: qp.math.dm_from_state_vector(carr(S, "v", (d,))),
            lambda S, d=d: np.array([[carr(S, "v", (d,))[i] * conj(carr(S, "v", (d,))[j]) for j in range(d)] for i in range(d)], dtype=object))
        if n <= 2:
            add(f"C49/quantum:expectation_value/{n}q", (QFILE, "expectation_value"), names("o", (d, d)) + psi_names,
                lambda S, d=d: qp.math.expectation_value(carr(S, "o", (d, d)), carr(S, "v", (d,))),
                lambda S, d=d: np.array(sum(conj(carr(S, "v", (d,))[i]) * carr(S, "o", (d, d))[i, j] * carr(S, "v", (d,))[j]
                                            for i in range(d) for j in range(d)), dtype=object))
        # marginal probabilities: keep every non-empty proper / full subset of axes (ascending, as documented)
        p_names = real_names("p", (d,))
        for k in range(1, n + 1):
            for axes in itertools.combinations(range(n), k):
                axes = list(axes)
                add(f"C49/quantum:marginal_prob/{n}q/axes{axes}".replace(" ", ""), (QFILE, "marginal_prob"), p_names,
                    lambda S, d=d, axes=axes: qp.math.marginal_prob(rarr(S, "p", (d,)), axes),
                    lambda S, n=n, d=d, axes=axes: marginal_ref(rarr(S, "p", (d,)), n, axes))

        # batched (batch of 2): every kept subset in ascending and one permuted order
        if n >= 1:
            b_rho = names("ra", (d, d)) + names("rb", (d, d))
            b_psi = names("va", (d,)) + names("vb", (d,))
            subsets = [list(c) for k in range(1, n + 1) for c in itertools.combinations(range(n), k)]
            subsets += [s[::-1] for s in subsets if len(s) > 1]
            for kept in subsets:
                tag = f"{n}q/keep{kept}/batch2".replace(" ", "")

                def stack2(S, pa, pb, shape):
                    a, b = carr(S, pa, shape), carr(S, pb, shape)
                    st = np.stack([np.asarray(a, dtype=object), np.asarray(b, dtype=object)]) if any(isinstance(x, Sym) for x in np.asarray(a, dtype=object).flat) \
                        else np.stack([a, b])
                    return st.view(type(a)) if type(a).__name__.startswith("SymArray") else st
                add(f"C49/quantum:reduce_dm/{tag}", (QFILE, "reduce_dm"), b_rho,
                    lambda S, d=d, kept=kept: qp.math.reduce_dm(stack2(S, "ra", "rb", (d, d)), kept),
                    lambda S, n=n, d=d, kept=kept: np.stack([ref_reduce(lambda i, j, M=carr(S, p_, (d, d)): M[i, j], n, kept) for p_ in ("ra", "rb")]))
                add(f"C49/quantum:reduce_statevector/{tag}", (QFILE, "reduce_statevector"), b_psi,
                    lambda S, d=d, kept=kept: qp.math.reduce_statevector(stack2(S, "va", "vb", (d,)), kept),
                    lambda S, n=n, d=d, kept=kept: np.stack([ref_reduce(lambda i, j, v=carr(S, p_, (d,)): v[i] * conj(v[j]), n, kept) for p_ in ("va", "vb")]))
                add(f"C49/quantum:purity/{tag}", (QFILE, "purity"), b_rho,
                    lambda S, d=d, kept=kept: qp.math.purity(stack2(S, "ra", "rb", (d, d)), kept),
                    lambda S, n=n, d=d, kept=kept: np.array([purity_ref(ref_reduce(lambda i, j, M=carr(S, p_, (d, d)): M[i, j], n, kept))
                                                             for p_ in ("ra", "rb")], dtype=object))

    # ---- expand_matrix: explicit tensor re-indexing -------------------------------------------------------------------------------------
    def expand_ref(M, wires, order):
        k, n = len(wires), len(order)
        pos = {w: order.index(w) for w in wires}
        D = 2 ** n
        out = np.empty((D, D), dtype=object)
        for r in range(D):
            for c in range(D):
                rb, cb = bits(r, n), bits(c, n)
                if any(rb[q] != cb[q] for q in range(n) if order[q] not in wires):
                    out[r, c] = 0
                    continue
                i = 0
                j = 0
                for w in wires:
                    i = (i << 1) | rb[pos[w]]
                    j = (j << 1) | cb[pos[w]]
                out[r, c] = M[i, j]
        return out
    labels = ["a", 0, 7]
    for k in (1, 2):
        for n in range(k, nmax + 1):
            order = labels[:n]
            for wires in itertools.permutations(order, k):
                wires = list(wires)
                dk = 2 ** k
                add(f"C49/matrix_manipulation:expand_matrix/op-on{wires}/order{order}".replace(" ", ""), (MFILE, "expand_matrix"), names("o", (dk, dk)),
                    lambda S, dk=dk, wires=wires, order=order: qp.math.expand_matrix(carr(S, "o", (dk, dk)), wires=wires, wire_order=order),
                    lambda S, dk=dk, wires=wires, order=order: expand_ref(carr(S, "o", (dk, dk)), wires, order))
            # a permuted wire order as well
            order2 = order[::-1]
            wires = order[:k]
            dk = 2 ** k
            add(f"C49/matrix_manipulation:expand_matrix/op-on{wires}/order{order2}".replace(" ", ""), (MFILE, "expand_matrix"), names("o", (dk, dk)),
                lambda S, dk=dk, wires=wires, order2=order2: qp.math.expand_matrix(carr(S, "o", (dk, dk)), wires=wires, wire_order=order2),
                lambda S, dk=dk, wires=wires, order2=order2: expand_ref(carr(S, "o", (dk, dk)), wires, order2))
    return plan


def purity_ref(R):
    d = R.shape[0]
    acc = 0
    for i in range(d):
        for j in range(d):
            acc = acc + R[i, j] * R[j, i]
    return np.array(real_part(acc), dtype=object)


def real_part(z):
    return z.real if hasattr(z, "real") else np.real(z)


def marginal_ref(p, n, axes):
    k = len(axes)
    out = np.empty(2 ** k, dtype=object)
    for a in range(2 ** k):
        ab = [(a >> (k - 1 - j)) & 1 for j in range(k)]
        acc = 0
        for i in range(2 ** n):
            ib = [(i >> (n - 1 - w)) & 1 for w in range(n)]
            if all(ib[w] == ab[j] for j, w in enumerate(axes)):
                acc = acc + p[i]
        out[a] = acc
    return out
