"""C07 Operator class attribute claims are true.

The seven attribute sets are read from the real module on every run.  For every member an instance builder produces the
real operator on exact symbolic parameters; the attribute's defining predicate is a postcondition on the real matrix,
decided as a Laurent-polynomial identity for all parameter values.
"""
import itertools

import numpy as np
import pennylane as qp
from pennylane.ops.qubit import attributes as A

from vf.common import Plan, Obligation, Outcome, UNDECIDED, DISCHARGED
from vf.symx.oblig import identity_obligation
from vf.symx.scalar import Sym, sym, symarray, symarray_c, poly_matrix, pm_matmul, pm_dagger, pm_eye
from vf.symx.ring import Poly
from contracts.C02 import where_compute_matrix

ATTR_FILE = "pennylane/ops/qubit/attributes.py"


def find_cls(name):
    for mod in (qp, qp.ops, qp.templates):
        if hasattr(mod, name):
            return getattr(mod, name)
    return None


# ---- instance builders: name -> list of (label, n_params, build(params, wires) -> op, n_wires) -----------------------
def _fixed(name):
    cls = find_cls(name)
    nw, npar = cls.num_wires, cls.num_params
    if not isinstance(nw, int) or not isinstance(npar, int):
        return None
    return [("", npar, lambda ps, wires, cls=cls: cls(*ps, wires=wires), nw)]


def builders(name, tier):
    nmax = 3 if tier == "quick" else 4
    if name == "MultiRZ":
        return [(f"[n={n}]", 1, lambda ps, wires: qp.MultiRZ(ps[0], wires=wires), n) for n in range(1, nmax + 1)]
    if name == "Identity":
        return [(f"[n={n}]", 0, lambda ps, wires: qp.Identity(wires=wires), n) for n in range(1, nmax + 1)]
    if name == "PauliRot":
        out = []
        for n in (1, 2):
            for w in map("".join, itertools.product("IXYZ", repeat=n)):
                out.append((f"[{w}]", 1, lambda ps, wires, w=w: qp.PauliRot(ps[0], w, wires=wires), n))
        return out
    if name == "PCPhase":
        return [(f"[n={n},dim={d}]", 1, lambda ps, wires, d=d: qp.PCPhase(ps[0], d, wires=wires), n)
                for n in (1, 2) for d in range(0, 2 ** n + 1)]
    if name == "GlobalPhase":
        return [("", 1, lambda ps, wires: qp.GlobalPhase(ps[0]), 1)]
    if name == "DiagonalQubitUnitary":
        return [(f"[n={n}]", 2 ** n, lambda ps, wires: qp.DiagonalQubitUnitary(_unit(ps), wires=wires), n) for n in (1, 2)]
    if name == "QubitUnitary":
        return [(f"[n={n}]", 4 ** n, lambda ps, wires, n=n: qp.QubitUnitary(_arr(ps).reshape(2 ** n, 2 ** n), wires=wires,
                                                                            unitary_check=False), n) for n in (1,)]
    return _fixed(name)


def _unit(ps):
    """unit-modulus diagonal exp(i p_k): the type invariant of DiagonalQubitUnitary's data"""
    if any(isinstance(p, Sym) for p in ps):
        return symarray_c([(1j * p).exp() for p in ps])
    return np.exp(1j * np.array(ps, dtype=float))


def _arr(ps):
    if any(isinstance(p, Sym) for p in ps):
        return symarray_c(ps)
    return np.array(ps, dtype=complex)


# members that have no decidable obligation here, with the reason (recorded as unverified, not as violations)
SKIP = {
    ("composable_rotations", "Rot"): "documented exception: 'alternative accumulation' (fuse_rot_angles, arctan2-based); no decision procedure",
    ("supports_broadcasting", "SpecialUnitary"): "matrix goes through expm of a batched generator: outside the fragment",
    ("supports_broadcasting", "ControlledQubitUnitary"): "batched base matrices with control projectors: not built",
    ("supports_broadcasting", "QubitUnitary"): "matrix is the data itself",
    ("supports_broadcasting", "StatePrep"): "state preparation template (no matrix kernel)",
    ("supports_broadcasting", "AmplitudeEmbedding"): "state preparation template (no matrix kernel)",
    ("supports_broadcasting", "AngleEmbedding"): "embedding template: matrix only via decomposition",
    ("supports_broadcasting", "IQPEmbedding"): "embedding template: matrix only via decomposition",
    ("supports_broadcasting", "QAOAEmbedding"): "embedding template: matrix only via decomposition",
    ("supports_broadcasting", "PauliRot"): "covered per word in C02 batch obligations? no: see below",
}
del SKIP[("supports_broadcasting", "PauliRot")]
BATCH_OUT_OF_REACH = set()
# the unitarity validation of DiagonalQubitUnitary calls np.allclose -> np.isfinite on an object array: outside reach
OUT_OF_REACH = {"DiagonalQubitUnitary"}


def mat(op, wire_order):
    return qp.matrix(op, wire_order=wire_order)


def build(tier, seed):
    plan = Plan("C07", level="proof")
    plan.explanation = ("Attribute sets are read from the real module; every member's defining predicate is decided on the real "
                        "operator matrix with exact symbolic parameters (all parameter values at once).")
    plan.trusted_base = ["vf/symx exact ring + Sym scalar", "numpy/autoray structural operations on object arrays"]
    plan.assumptions = ["A-float-as-real", "A-float-constants", "numpy interface path; batch size 2 for broadcasting claims"]
    plan.fn_under_contract(ATTR_FILE, "Attribute")
    sets = ["self_inverses", "symmetric_over_all_wires", "symmetric_over_control_wires", "diagonal_in_z_basis",
            "composable_rotations", "has_unitary_generator", "supports_broadcasting"]
    skipped = []
    for setname in sets:
        members = sorted(getattr(A, setname))
        for name in members:
            if (setname, name) in SKIP:
                skipped.append(f"{setname}:{name}: {SKIP[(setname, name)]}")
                continue
            cls = find_cls(name)
            bl = builders(name, tier) if cls is not None else None
            if not bl:
                # a member we have no builder for: undecided, with the name (never silently dropped)
                plan.add(Obligation(f"C07/{setname}/{name}/no-instance-builder", "post",
                                    lambda name=name, setname=setname: Outcome(
                                        UNDECIDED, "no-builder", f"{name} is listed in {setname} but no instance builder / reference exists"),
                                    func=(ATTR_FILE, "Attribute")))
                continue
            func = where_compute_matrix(cls)
            plan.fn_under_contract(*func)
            for label, npar, mk, nw in bl:
                names = [f"p{i}" for i in range(npar)]
                w = list(range(nw))
                base = f"C07/{setname}/{name}{label}"
                sb = bool(label)

                def P(S, names=names):
                    return [S[n] for n in names]

                if setname == "self_inverses":
                    plan.add(identity_obligation(
                        base + "/post:M.M==I", "post", names,
                        lambda S, mk=mk, w=w, P=P: _sq(mat(mk(P(S), w), w)),
                        lambda S, nw=nw: pm_eye(2 ** nw),
                        lambda env, mk=mk, w=w, P=P: (lambda m: m @ m)(np.asarray(mat(mk(P(env), w), w))),
                        seed=seed, func=func, size_bounded=sb, sample="matrix squared == identity"))
                elif setname in ("symmetric_over_all_wires", "symmetric_over_control_wires"):
                    movable = w if setname == "symmetric_over_all_wires" else w[:-1]
                    fixed = [] if setname == "symmetric_over_all_wires" else w[-1:]
                    perms = [list(p) + fixed for p in itertools.permutations(movable) if list(p) != movable]
                    for pw in perms:
                        # the permuted operator's matrix is formed by INDEPENDENT index re-embedding of the canonical
                        # matrix (the real expand step consults this very attribute set and may short-circuit)
                        plan.add(identity_obligation(
                            base + f"/post:wires={pw}", "post", names,
                            lambda S, mk=mk, w=w, pw=pw, P=P, nw=nw: _embed(poly_matrix(mat(mk(P(S), w), w)), pw, nw),
                            lambda S, mk=mk, w=w, P=P: mat(mk(P(S), w), w),
                            lambda env, mk=mk, w=w, pw=pw, P=P, nw=nw: _embed_np(np.asarray(mat(mk(P(env), w), w)), pw, nw),
                            native_ref=lambda env, mk=mk, w=w, P=P: mat(mk(P(env), w), w),
                            seed=seed, func=func, size_bounded=sb or nw > 2,
                            sample="canonical matrix re-embedded on permuted wires == canonical matrix"))
                        # and the real wire-order expansion agrees with the independent embedding
                        plan.add(identity_obligation(
                            base + f"/post:expand(wires={pw})", "post", names,
                            lambda S, mk=mk, w=w, pw=pw, P=P: mat(mk(P(S), pw), w),
                            lambda S, mk=mk, w=w, pw=pw, P=P, nw=nw: _embed(poly_matrix(mat(mk(P(S), w), w)), pw, nw),
                            lambda env, mk=mk, w=w, pw=pw, P=P: mat(mk(P(env), pw), w),
                            native_ref=lambda env, mk=mk, w=w, pw=pw, P=P, nw=nw: _embed_np(np.asarray(mat(mk(P(env), w), w)), pw, nw),
                            seed=seed, func=func, size_bounded=True,
                            sample="real matrix of the operator on permuted wires == independent re-embedding"))
                elif setname == "diagonal_in_z_basis":
                    plan.add(identity_obligation(
                        base + "/post:offdiag==0", "post", names,
                        lambda S, mk=mk, w=w, P=P: _offdiag(poly_matrix(mat(mk(P(S), w), w))),
                        lambda S, nw=nw: _offdiag(pm_eye(2 ** nw)),
                        lambda env, mk=mk, w=w, P=P: _offdiag_np(np.asarray(mat(mk(P(env), w), w))),
                        seed=seed, func=func, size_bounded=sb, bounded=(name in OUT_OF_REACH),
                        sample="all off-diagonal entries identically zero"))
                elif setname == "composable_rotations":
                    if npar != 1:
                        skipped.append(f"{setname}:{name}: multi-parameter member without additive law")
                        continue
                    plan.add(identity_obligation(
                        base + "/post:U(a)U(b)==U(a+b)", "post", ["a", "b"],
                        lambda S, mk=mk, w=w: pm_matmul(poly_matrix(mat(mk([S["a"]], w), w)), poly_matrix(mat(mk([S["b"]], w), w))),
                        lambda S, mk=mk, w=w: mat(mk([S["a"] + S["b"]], w), w),
                        lambda env, mk=mk, w=w: np.asarray(mat(mk([env["a"]], w), w)) @ np.asarray(mat(mk([env["b"]], w), w)),
                        native_ref=lambda env, mk=mk, w=w: mat(mk([env["a"] + env["b"]], w), w),
                        seed=seed, func=func, size_bounded=sb, sample="U(a).U(b) == U(a+b) for all a, b"))
                elif setname == "has_unitary_generator":
                    plan.add(Obligation(base + "/post:G.G^dagger~I", "post",
                                        lambda mk=mk, w=w, npar=npar: _gen_unitary(mk, w, npar), func=func, size_bounded=sb,
                                        sample="generator matrix G satisfies G.G^dagger == c.I with c != 0 (exact)"))
                elif setname == "supports_broadcasting":
                    if npar == 0:
                        continue
                    bnames = [f"{n}_{k}" for n in names for k in (0, 1)]

                    def Pb(S, names=names, obj=True):
                        out = []
                        for n in names:
                            out.append(symarray([S[n + "_0"], S[n + "_1"]]) if obj else np.array([S[n + "_0"], S[n + "_1"]]))
                        return out
                    plan.add(identity_obligation(
                        base + "/post:batched==stack", "post", bnames,
                        lambda S, mk=mk, w=w, Pb=Pb: np.asarray(mat(mk(Pb(S), w), w), dtype=object),
                        lambda S, mk=mk, w=w, names=names: np.stack([np.asarray(mat(mk([S[n + f"_{k}"] for n in names], w), w), dtype=object)
                                                                     for k in (0, 1)]),
                        lambda env, mk=mk, w=w, Pb=Pb: mat(mk(Pb(env, obj=False), w), w),
                        native_ref=lambda env, mk=mk, w=w, names=names: np.stack(
                            [np.asarray(mat(mk([env[n + f"_{k}"] for n in names], w), w)) for k in (0, 1)]),
                        seed=seed, func=func, size_bounded=True, bounded=(name in BATCH_OUT_OF_REACH),
                        sample="matrix of a batch of 2 parameter sets == stack of the two per-element matrices"))
                    if nw >= 2 and nw <= 3:
                        # same claim with the operator's wires non-contiguous in a larger wire order (batched expansion)
                        gw = [2 * k for k in range(nw)]
                        go = list(range(2 * nw - 1))
                        plan.add(identity_obligation(
                            base + f"/post:batched==stack(wires={gw} in {len(go)})", "post", bnames,
                            lambda S, mk=mk, gw=gw, go=go, Pb=Pb: np.asarray(mat(mk(Pb(S), gw), go), dtype=object),
                            lambda S, mk=mk, gw=gw, go=go, names=names: np.stack(
                                [np.asarray(mat(mk([S[n + f"_{k}"] for n in names], gw), go), dtype=object) for k in (0, 1)]),
                            lambda env, mk=mk, gw=gw, go=go, Pb=Pb: mat(mk(Pb(env, obj=False), gw), go),
                            native_ref=lambda env, mk=mk, gw=gw, go=go, names=names: np.stack(
                                [np.asarray(mat(mk([env[n + f"_{k}"] for n in names], gw), go)) for k in (0, 1)]),
                            seed=seed, func=func, size_bounded=True, bounded=(name in BATCH_OUT_OF_REACH),
                            sample="batched matrix on non-contiguous wires == stack of per-element matrices"))
    plan.unverified = skipped + ["batch sizes other than 2", "variable-arity members beyond the enumerated sizes",
                                 "interfaces other than numpy"]
    plan.size_bounds = ["MultiRZ/Identity wires <= 3 (quick) / 4 (thorough)", "PauliRot words of length <= 2",
                        "PCPhase wires <= 2, all dim", "DiagonalQubitUnitary wires <= 2 (generic symbolic diagonal)",
                        "broadcast batch size 2"]
    return plan


def _embed(m, pw, n):
    """matrix of the operator placed on wires pw (pw[0] = its most significant wire) in the order 0..n-1: index arithmetic"""
    from refs.gates import on_wires
    from vf.symx.scalar import Sym
    a = np.empty(m.shape, dtype=object)
    for idx, x in np.ndenumerate(m):
        a[idx] = Sym(x)
    return on_wires(a, pw, n)


def _embed_np(m, pw, n):
    k = len(pw)
    out = np.zeros((2 ** n, 2 ** n), dtype=complex)
    for col in range(2 ** n):
        bits = [(col >> (n - 1 - w)) & 1 for w in range(n)]
        sub_in = 0
        for w in pw:
            sub_in = (sub_in << 1) | bits[w]
        for sub_out in range(2 ** k):
            nb = list(bits)
            for pos, w in enumerate(pw):
                nb[w] = (sub_out >> (k - 1 - pos)) & 1
            row = 0
            for b in nb:
                row = (row << 1) | b
            out[row, col] += m[sub_out, sub_in]
    return out


def _sq(m):
    m = poly_matrix(m)
    return pm_matmul(m, m)


def _offdiag(m):
    out = np.empty(m.shape, dtype=object)
    for (i, j), x in np.ndenumerate(m):
        out[i, j] = Poly() if i == j else x
    return out


def _offdiag_np(m):
    m = np.array(m, dtype=complex)
    m[np.diag_indices(m.shape[0])] = 0
    return m


def _gen_unitary(mk, w, npar):
    from vf.common import REFUTED
    op = mk([0.3 + 0.1 * i for i in range(npar)], w)
    gen = qp.generator(op, format="observable")
    if hasattr(gen, "sparse_matrix") and isinstance(gen, qp.SparseHamiltonian):
        g = np.asarray(gen.sparse_matrix(wire_order=list(gen.wires)).toarray())
    else:
        g = np.asarray(qp.matrix(gen, wire_order=list(gen.wires) or w))
    G = poly_matrix(g)
    GG = pm_matmul(G, pm_dagger(G))
    c = GG[0, 0]
    bad = []
    if c.is_zero():
        bad.append("G.G^dagger[0,0] == 0")
    for (i, j), x in np.ndenumerate(GG):
        want = c if i == j else Poly()
        if not (x - want).is_zero():
            bad.append(f"entry {(i, j)}: {x} != {want}")
    if bad:
        gg = g @ g.conj().T
        return Outcome(REFUTED, "exact-constant-matrix", "; ".join(bad[:3]), witness=dict(point={}, op=repr(op)),
                       replay=dict(confirmed=bool(np.max(np.abs(gg - gg[0, 0] * np.eye(len(gg)))) > 1e-9 or abs(gg[0, 0]) < 1e-9),
                                   observed=str(np.round(gg, 6).tolist())[:400], expected="c * identity"))
    return Outcome(DISCHARGED, "exact-constant-matrix", f"G.G^dagger == ({c}) * I")
