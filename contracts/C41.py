"""C41 Queuing records exactly the program's operations, in order, in the innermost active context.

Two levels, both on the real code of pennylane/core/queuing.py:

(1) QueuingManager level.  The class-level stack `QueuingManager._active_contexts` is a sequence of SYMBOLIC length of queue
    references (ints); the recording queues themselves are opaque: a call `<queue>.append/remove/update_info/get_info(obj)` made
    by the manager is recorded as an EVENT (queue reference, method, object).  Contracts: stack discipline of
    add/remove_active_queue and AnnotatedQueue.__enter__/__exit__, `append/remove/update_info/get_info` touch exactly the
    INNERMOST queue and nothing when not recording, `stop_recording` (a generator-based context manager, executed with the
    with-body substituted at its `yield`, the body being allowed to raise) makes recording() False inside and restores the very same
    list object afterwards on normal AND exceptional exit, `apply` copies under stop_recording and queues the copy.
(2) AnnotatedQueue level.  One queue = the duplicate-free insertion-ordered key sequence (symbolic length) of its OrderedDict base,
    whose four primitive operations are an ASSUMED contract; AnnotatedQueue.append/remove/update_info/get_info/__setitem__/
    __getitem__/__contains__ and WrappedObj.__eq__/__hash__ are verified against it: append puts a new object at the END and leaves
    the order of the others unchanged (so insertion order == call order by induction over the calls), remove deletes exactly
    that object and is silent when it is absent.
"""
import copy
import importlib

import z3

from vf.common import Plan
from vf.pyvc.engine import World, T, Int, Bool, RecT, SeqT, Rec, PyList, SeqV, FuncRef, Unsupp, RaiseExc, fresh, concretize, to_int_term
from vf.pyvc.contract import FnContract, Case, obligations_for, lemma
from vf.pyvc import spec as S
from vf.pyvc.spec import And, Or, Not, If

PID = "C41"
QF = "pennylane/core/queuing.py"
QMOD = "pennylane.core.queuing"
IS = z3.SeqSort(z3.IntSort())
NoneV = T("const", None)
LOCK = 7001                     # the class-level RLock AnnotatedQueue._lock (an opaque object; acquire/release are events)
STACK = ("QueuingManager", "_active_contexts")


def sym(*xs):
    return any(isinstance(x, z3.ExprRef) for x in xs)


def is_int_val(x):
    return (isinstance(x, int) and not isinstance(x, bool)) or (isinstance(x, z3.ArithRef) and x.is_int())


def same_int(a, b):
    """equality of two object / queue references"""
    if is_int_val(a) and is_int_val(b):
        return S._t(a) == S._t(b)
    return False


# ------------------------------------------------------------------------------------------------ symbolic class state
class ClsState(FuncRef):
    """the class object QueuingManager together with the class-level stack this execution starts from (a case parameter, so that
    the solver's counter-model contains the stack)"""

    def __init__(self, info, stack):
        super().__init__("class", info.name, info)
        self.stack = stack

    def snapshot(self):
        return ClsState(self.info, self.stack.snapshot())

    def concretize_with(self, world, model):
        return {"__cls_state__": True, "stack": concretize(world, self.stack, model)}


# ------------------------------------------------------------------------------------------------ native stand-ins (replay)
class Obj:
    """a queueable object; identity is what the queue keys on"""

    def __init__(self, i, state=None):
        self.i, self.c41_state = i, state

    def __repr__(self):
        return f"Obj({self.i})"

    def __copy__(self):
        """a copy observes whether the manager is recording at that moment (a real Operator copy made while recording could be
        queued as a side effect: this is what apply's stop_recording block protects against)"""
        new = type(self)(self.i, self.c41_state)
        if self.c41_state is not None:
            self.c41_state.copy_recording.append(importlib.import_module(QMOD).QueuingManager.recording())
        return new


class QObj(Obj):
    """an object that provides its own `queue` method (like Operator.queue): records the call and appends itself to the context"""

    def queue(self, context=None):
        self.c41_state.queue_calls.append((self, context))
        context.append(self)
        return self


class NState:
    """native environment: initial stack (queue references, innermost last), initial contents of each queue (object ids)"""

    def __init__(self, stack_refs=(), contents=None, raise_in_body=False):
        self.stack_refs = [int(x) for x in stack_refs]
        self.contents = {int(k): [int(i) for i in v] for k, v in (contents or {}).items()}
        self.raise_in_body = raise_in_body
        self.objs, self.queues, self.queue_calls, self.copy_recording = {}, {}, [], []
        self.live_stack, self.after, self.inside = None, None, None

    def obj(self, i, cls=Obj):
        if i not in self.objs:
            self.objs[i] = cls(i, self)
        return self.objs[i]

    def queue(self, ref, mod):
        ref = int(ref)
        if ref not in self.queues:
            q = mod.AnnotatedQueue()
            for i in self.contents.get(ref, []):
                q.append(self.obj(i))
            q.c41_ref = ref
            self.queues[ref] = q
        return self.queues[ref]

    def setup(self, mod):
        self.live_stack = [self.queue(r, mod) for r in self.stack_refs]
        mod.QueuingManager._active_contexts = self.live_stack

    def snapshot_now(self, mod):
        cur = mod.QueuingManager._active_contexts
        return dict(stack=[getattr(q, "c41_ref", None) for q in cur], same_list=cur is self.live_stack, recording=mod.QueuingManager.recording(),
                    contents={r: list(q.queue) for r, q in self.queues.items()})

    def finish(self, mod):
        self.after = self.snapshot_now(mod)
        mod.QueuingManager._active_contexts = []

    def ids(self, objs):
        return [o.i for o in objs]


def state_of(ns):
    for v in (ns if isinstance(ns, dict) else vars(ns)).values():
        st = getattr(v, "c41_state", None)
        if st is not None:
            return st
    raise RuntimeError("no native state attached to the arguments")


def is_native_ns(ns):
    return any(getattr(v, "c41_state", None) is not None for v in vars(ns).values() if not isinstance(v, (Rec, z3.ExprRef)))


def expected_contents(before_ids, method, i):
    """AnnotatedQueue semantics on the list of object ids (reference): append at the end unless present, remove that object"""
    if method == "append":
        return before_ids if i in before_ids else before_ids + [i]
    if method == "remove":
        return [x for x in before_ids if x != i]
    return before_ids


def build(tier, seed):
    plan = Plan(PID, level="proof")
    plan.explanation = (
        "Real bodies of QueuingManager / AnnotatedQueue / WrappedObj / apply / remove_from_program executed symbolically (all paths). "
        "Manager level: the class attribute _active_contexts is threaded as state, a sequence of symbolic length of queue references; "
        "calls made on a queue are logged as events and compared with the specification (exactly one call, on the innermost queue, "
        "with the given object; none when not recording). stop_recording is a generator context manager: its body is executed with an "
        "arbitrary with-body (may raise) substituted at the yield, try/finally with full semantics; normal and exceptional "
        "postconditions state that the previous list OBJECT with its contents is active again. Queue level: the queue is the key sequence "
        "(symbolic length) of its OrderedDict base; the four OrderedDict primitives are an assumed contract and the AnnotatedQueue methods "
        "are verified against it. Order == call order follows by induction over calls from `append puts a new object at the end`.")
    plan.trusted_base = ["vf/pyvc encoder (Python subset; additive extensions for class-level state, `with` on generator context managers "
                         "by substitution at the yield, try/finally with full semantics, super(), del/assign subscripts on records)",
                         "z3 sequence theory", "Python's `with` protocol (calls __exit__ on every exit) for the enter/exit composition lemma"]
    plan.assumptions = ["A-capture-disabled: capture.enabled() is False (program capture is property C42)",
                        "objects and queues are identified by integer references (python identity); WrappedObj keys compare by the identity "
                        "of the wrapped object (verified for WrappedObj.__eq__/__hash__, used by the OrderedDict model)",
                        "single-threaded use (the RLock of AnnotatedQueue is an opaque object whose acquire/release calls are only logged)"]
    plan.assumed_contracts = [
        "collections.OrderedDict: __setitem__(k, v) keeps the key order and appends a NEW key at the end; __delitem__(k) removes k and keeps "
        "the relative order of the other keys (KeyError when absent); __contains__(k) is membership; __getitem__(k) returns the stored value "
        "(KeyError when absent)",
        "a recording queue's append/remove/update_info/get_info called by QueuingManager return normally (get_info may raise QueuingError): "
        "their effect is the AnnotatedQueue-level contract verified separately",
        "copy.copy(op) returns a new object; hasattr(op, 'queue') is an arbitrary boolean of the object"]
    plan.dropped = ["docstrings, annotations, exception messages, __repr__, capture-enabled branches (_capture_apply, pop_op_eqns)"]
    plan.size_bounds = []
    plan.unverified = ["operators consumed by wrapper constructors: proved only for the adjoint / ctrl qfunc wrappers and create_controlled_op2; pow, "
                       "prod, sum, s_prod, exp, create_controlled_op and the SymbolicOp / CompositeOp queue methods only through bounded native scenarios", "qscript.from_queue / process_queue (moved out of queuing.py)",
                       "metadata (kwargs) stored with each queued object; AnnotatedQueue.queue / items (inherited OrderedDict iteration)",
                       "Operator.queue implementations called by apply (only the call with the copy and the given context is checked)",
                       "program capture mode", "multi-threaded use of the global stack"]

    contracts = []

    # ================================================================================================ (1) manager level
    cell = {}

    def events():
        return cell["ctx"].ghost["events"]

    def ev_queue_method(name, returns_info=False):
        def fn(it, args, kw):
            ref, rest = args[0], list(args[1:])
            if isinstance(ref, SeqV) or isinstance(ref, PyList):
                raise Unsupp(f"{name} on a list value")
            it.ctx.ghost["events"].append((name, ref, tuple(rest), dict(kw)))
            if name == "get_info":
                if it.ctx.branch(z3.Bool(it.ctx.fresh_name("get_info_raises"))):
                    raise RaiseExc("QueuingError")
                return z3.Int(it.ctx.fresh_name("info"))
            return None
        return fn

    def ev_copy(it, args, kw):
        (op,) = args
        cur = it.ctx.class_state[STACK]
        rec = it.truthy(cur)
        c = z3.Int(it.ctx.fresh_name("copy"))
        it.ctx.assume(c != to_int_term(op))
        it.ctx.ghost["events"].append(("copy", op, c, rec))
        it.ctx.ghost["copies"] = it.ctx.ghost.get("copies", []) + [c]
        return c

    def seq_pop_at(it, args, kw):
        """list.pop(i) on a symbolic-length list (the code under contract only uses pop(); an edit may pop elsewhere)"""
        o, idx = args[0], (args[1] if len(args) > 1 else -1)
        if not isinstance(o, SeqV) or kw or len(args) > 2:
            raise Unsupp("pop of this value")
        n, i = z3.Length(o.term), to_int_term(idx)
        i = z3.If(i < 0, i + n, i)
        if not it.ctx.branch(z3.And(i >= 0, i < n)):
            raise RaiseExc("IndexError")
        res = o.term[i]
        o.term = z3.Concat(z3.Extract(o.term, 0, i), z3.Extract(o.term, i + 1, n - i - 1))
        return res

    HASQ = z3.Function("has_queue_method", z3.IntSort(), z3.BoolSort())

    def ev_hasattr(it, args, kw):
        o, name = args
        if name == "queue" and (isinstance(o, int) or isinstance(o, z3.ArithRef)):
            return HASQ(to_int_term(o))
        raise Unsupp(f"hasattr({o!r}, {name!r})")

    wq = World(QF, classes={"QueuingManager": {}, "AnnotatedQueue": {}}, functions=["apply", "remove_from_program"],
               extra_builtins={"method:append": ev_queue_method("append"), "method:remove": ev_queue_method("remove"),
                               "method:update_info": ev_queue_method("update_info"), "method:get_info": ev_queue_method("get_info"),
                               "method:queue": ev_queue_method("queue"), "method:acquire": ev_queue_method("acquire"),
                               "method:release": ev_queue_method("release"), "method:pop": seq_pop_at, "copy.copy": ev_copy,
                               "hasattr": ev_hasattr,
                               "capture.enabled": lambda it, a, k: False})
    wq.strict_finally = True

    CLS = T("build", lambda ctx, name: ClsState(wq.classes["QueuingManager"], fresh(ctx, SeqT(Int), "active_contexts")),
            gen=lambda rng: {"__cls_state__": True, "stack": [rng.randint(1, 4) for _ in range(rng.choice([0, 0, 1, 2, 3]))]})

    def qm_ghost(ctx, a):
        """install the class-level state of this path"""
        cell["ctx"] = ctx
        carrier = next((v for v in vars(a).values() if isinstance(v, ClsState)), None)
        st = carrier.stack if carrier is not None else fresh(ctx, SeqT(Int), "active_contexts")
        cell["stack_obj"], cell["S0"] = st, st.term
        ctx.class_state = {STACK: st, ("AnnotatedQueue", "_lock"): LOCK}
        ctx.ghost["events"] = []

    def stack_now():
        return cell["ctx"].class_state[STACK]

    def stack_is(term, same_object=True):
        """the active stack equals `term` (and is still the list object the execution started with)"""
        cur = stack_now()
        if same_object and cur is not cell["stack_obj"]:
            return False
        if not isinstance(cur, SeqV):
            return False
        return cur.term == term

    def top(s0):
        return s0[z3.Length(s0) - 1]

    def pop_of(s0):
        return z3.Extract(s0, 0, z3.Length(s0) - 1)

    # ---- native side of the manager level
    def make_native_gen(obj_params=(), queue_params=(), default_stack=(1, 2), qobj=False):
        def gen(rng, m):
            m = dict(m)
            carrier = next((k for k, v in m.items() if isinstance(v, dict) and v.get("__cls_state__")), None)
            if carrier is not None:
                stack = [int(x) for x in m[carrier]["stack"]]
            elif rng is not None:
                stack = [rng.randint(1, 4) for _ in range(rng.choice([0, 1, 2, 3]))]
            else:
                stack = list(default_stack)
            refs = set(stack) | {int(m[k]) for k in queue_params if isinstance(m.get(k), int)}
            rr = rng
            contents = {r: ([] if rr is None else [rr.randint(0, 5) for _ in range(rr.choice([0, 1, 2]))]) for r in refs}
            contents = {r: list(dict.fromkeys(v)) for r, v in contents.items()}
            st = NState(stack, contents, raise_in_body=(rng is not None and rng.random() < 0.5))
            st.qobj = qobj if rng is None else (rng.random() < 0.5)
            for k in obj_params:
                if isinstance(m.get(k), int):
                    m[k] = st.obj(int(m[k]), QObj if st.qobj else Obj)
            for k in queue_params:
                if isinstance(m.get(k), int):
                    m[k] = ("queue-ref", int(m[k]), st)
            if carrier is not None:
                m[carrier] = ("class", st)
            m["__state__"] = st
            return m
        return gen

    class Holder:
        """carries the native state through replay_case (which only passes the case parameters on)"""

        def __init__(self, st, value=None):
            self.c41_state, self.value = st, value

    def attach_state(gen, param):
        """make sure at least the parameter `param` carries the native state"""
        def g(rng, m):
            m = gen(rng, m)
            st = m.pop("__state__")
            v = m.get(param)
            if isinstance(v, tuple) and v and v[0] in ("class", "queue-ref"):
                m[param] = Holder(st, v)
            elif not hasattr(v, "c41_state"):
                m[param] = Holder(st, v)
            for k, v in list(m.items()):
                if isinstance(v, tuple) and v and v[0] in ("class", "queue-ref"):
                    m[k] = Holder(st, v)
            return m
        return g

    def nat(v, st, mod):
        """native value of a parameter"""
        if isinstance(v, Holder):
            v = v.value
        if isinstance(v, tuple) and v and v[0] == "class":
            return mod.QueuingManager
        if isinstance(v, tuple) and v and v[0] == "queue-ref":
            return st.queue(v[1], mod)
        return v

    def native_call_of(target, argnames, is_classmethod=True):
        def call(mod, args):
            st = state_of(args)
            st.setup(mod)
            try:
                f = mod
                for part in target.split("."):
                    f = getattr(f, part)
                vals = [nat(args[k], st, mod) for k in argnames]
                return f(*vals)
            finally:
                st.finish(mod)
        return call

    def native_frame(o, nw):
        """(before-state snapshot, live state with the observed after-state)"""
        return state_of(o), state_of(nw)

    def native_check(o, nw, exp_stack, touched=None, same_list=True):
        """after-state equals the expectation: stack (as references), same list object, and queue contents: only `touched` = (ref, method,
        object id) may differ from the initial contents, by the AnnotatedQueue reference semantics"""
        before, live = native_frame(o, nw)
        af = live.after
        if af is None or af["stack"] != list(exp_stack) or (same_list and not af["same_list"]):
            return False
        for r, objs in af["contents"].items():
            ids = [x.i for x in objs]
            want = list(before.contents.get(r, []))
            if touched is not None and touched[0] == r:
                want = expected_contents(want, touched[1], touched[2])
            if ids != want:
                return False
        return True

    def ref_val(v):
        if isinstance(v, Holder):
            v = v.value
        if isinstance(v, tuple) and v[0] == "queue-ref":
            return v[1]
        return getattr(v, "c41_ref", v)

    # ---- add_active_queue / remove_active_queue / recording / active_context
    def post_add(o, r, nw):
        if not isinstance(o.cls, ClsState):
            before, _ = native_frame(o, nw)
            return r is None and native_check(o, nw, before.stack_refs + [ref_val(o.queue)])
        return And(r is None, not events(), stack_is(z3.Concat(cell["S0"], z3.Unit(S._t(o.queue)))))
    contracts.append(FnContract(wq, "QueuingManager.add_active_queue", [
        Case("push", {"cls": CLS, "queue": Int}, ghost=qm_ghost, ensures=post_add,
             native_gen=attach_state(make_native_gen(queue_params=("queue",)), "cls"),
             native_call=native_call_of("QueuingManager.add_active_queue", ["queue"]))]))

    def nonempty(o):
        if isinstance(o.cls, ClsState):
            return z3.Length(o.cls.stack.term) > 0
        return len(state_of(o).stack_refs) > 0

    def post_pop(o, r, nw):
        if not isinstance(o.cls, ClsState):
            before, _ = native_frame(o, nw)
            return len(before.stack_refs) > 0 and getattr(r, "c41_ref", None) == before.stack_refs[-1] and \
                native_check(o, nw, before.stack_refs[:-1])
        s0 = cell["S0"]
        return And(not events(), same_int(r, top(s0)), stack_is(pop_of(s0)))
    pop_case = Case("pop", {"cls": CLS}, ghost=qm_ghost, ensures=post_pop, raises={"IndexError": lambda o: Not(nonempty(o))},
                    must_return=nonempty, native_gen=attach_state(make_native_gen(), "cls"),
                    native_call=native_call_of("QueuingManager.remove_active_queue", []))

    def unchanged_exc(name, o, nw):
        """exceptional postcondition: stack and queues untouched"""
        if is_native_ns(o):
            before, _ = native_frame(o, nw)
            return native_check(o, nw, before.stack_refs)
        return And(not events(), stack_is(cell["S0"]))
    pop_case.exc_ensures = unchanged_exc
    contracts.append(FnContract(wq, "QueuingManager.remove_active_queue", [pop_case]))

    def post_recording(o, r, nw):
        if not isinstance(o.cls, ClsState):
            before, _ = native_frame(o, nw)
            return r is (len(before.stack_refs) > 0) and native_check(o, nw, before.stack_refs)
        return And(not events(), stack_is(cell["S0"]), S._t(r) == (z3.Length(cell["S0"]) > 0))
    contracts.append(FnContract(wq, "QueuingManager.recording", [
        Case("", {"cls": CLS}, ghost=qm_ghost, ensures=post_recording, native_gen=attach_state(make_native_gen(), "cls"),
             native_call=native_call_of("QueuingManager.recording", []))]))

    def post_active(o, r, nw):
        if not isinstance(o.cls, ClsState):
            before, _ = native_frame(o, nw)
            want = before.stack_refs[-1] if before.stack_refs else None
            return getattr(r, "c41_ref", None) == want and (r is None) == (want is None) and native_check(o, nw, before.stack_refs)
        s0 = cell["S0"]
        res = (z3.Length(s0) == 0) if r is None else And(z3.Length(s0) > 0, same_int(r, top(s0)))
        return And(not events(), stack_is(s0), res)
    contracts.append(FnContract(wq, "QueuingManager.active_context", [
        Case("", {"cls": CLS}, ghost=qm_ghost, ensures=post_active, native_gen=attach_state(make_native_gen(), "cls"),
             native_call=native_call_of("QueuingManager.active_context", []))]))

    # ---- append / remove / update_info / get_info: exactly one call, on the INNERMOST queue; nothing when not recording
    def delegated(method, o_obj, allow_raise=False):
        """the event log is [<innermost>.method(obj)] when recording and [] otherwise; stack untouched"""
        s0 = cell["S0"]
        ev = events()
        if not ev:
            return And(z3.Length(s0) == 0, stack_is(s0))
        if len(ev) != 1:
            return False
        name, ref, rest, kw = ev[0]
        return And(name == method and len(rest) == 1 and not kw, z3.Length(s0) > 0, same_int(ref, top(s0)), same_int(rest[0], o_obj),
                   stack_is(s0))

    def post_delegate(method):
        def post(o, r, nw):
            if not isinstance(o.cls, ClsState):
                before, live = native_frame(o, nw)
                touched = (before.stack_refs[-1], method, o.obj.i) if before.stack_refs else None
                ok = native_check(o, nw, before.stack_refs, touched=touched)
                if method == "get_info":
                    return ok and ((r is None) if not before.stack_refs else isinstance(r, dict))
                return ok and r is None
            res_ok = True
            if method == "get_info":
                res_ok = (z3.Length(cell["S0"]) == 0) if r is None else (z3.Length(cell["S0"]) > 0)
            elif r is not None:
                return False
            return And(delegated(method, o.obj), res_ok)
        return post
    for method in ("append", "remove", "update_info", "get_info"):
        cs = Case("innermost only", {"cls": CLS, "obj": Int}, ghost=qm_ghost, ensures=post_delegate(method),
                  native_gen=attach_state(make_native_gen(obj_params=("obj",)), "cls"),
                  native_call=native_call_of(f"QueuingManager.{method}", ["obj"]))
        if method == "get_info":
            # the innermost queue's get_info raises QueuingError for an object it does not hold: only possible while recording
            cs.raises = {"QueuingError": lambda o: nonempty(o) if isinstance(o.cls, ClsState) else
                         (len(state_of(o).stack_refs) > 0 and o.obj.i not in state_of(o).contents.get(state_of(o).stack_refs[-1], []))}

            def exc_post(name, o, nw, method=method):
                if not isinstance(o.cls, ClsState):
                    before, _ = native_frame(o, nw)
                    return native_check(o, nw, before.stack_refs)
                return delegated(method, o.obj)
            cs.exc_ensures = exc_post
        contracts.append(FnContract(wq, f"QueuingManager.{method}", [cs]))

    # ---- remove_from_program == remove (capture disabled)
    def post_rfp(o, r, nw):
        if isinstance(o.op, Obj):
            before, _ = native_frame(o, nw)
            touched = (before.stack_refs[-1], "remove", o.op.i) if before.stack_refs else None
            return r is None and native_check(o, nw, before.stack_refs, touched=touched)
        return And(r is None, delegated("remove", o.op))
    contracts.append(FnContract(wq, "remove_from_program", [
        Case("capture disabled", {"op": Int}, ghost=qm_ghost, ensures=post_rfp,
             native_gen=attach_state(make_native_gen(obj_params=("op",)), "op"), native_call=native_call_of("remove_from_program", ["op"]))]))

    # ---- AnnotatedQueue.__enter__ / __exit__ (self is a queue reference: its contents play no role here)
    def post_enter(o, r, nw):
        if isinstance(o.self, Holder):
            before, live = native_frame(o, nw)
            return getattr(r, "c41_ref", None) == ref_val(o.self) and native_check(o, nw, before.stack_refs + [ref_val(o.self)])
        ev = events()
        return And(len(ev) == 1 and ev[0][0] == "acquire" and ev[0][1] == LOCK, same_int(r, o.self),
                   stack_is(z3.Concat(cell["S0"], z3.Unit(S._t(o.self)))))

    def enter_call(mod, args):
        st = state_of(args)
        st.setup(mod)
        try:
            q = nat(args["self"], st, mod)
            return mod.AnnotatedQueue.__enter__(q)
        finally:
            st.finish(mod)
            try:
                mod.AnnotatedQueue._lock.release()
            except RuntimeError:
                pass
    contracts.append(FnContract(wq, "AnnotatedQueue.__enter__", [
        Case("push self", {"self": Int}, ghost=qm_ghost, ensures=post_enter,
             native_gen=attach_state(make_native_gen(queue_params=("self",)), "self"), native_call=enter_call)]))

    def post_exit(o, r, nw):
        if isinstance(o.self, Holder):
            before, live = native_frame(o, nw)
            return r is None and native_check(o, nw, before.stack_refs[:-1])
        ev = events()
        # returns None: an exception raised inside the `with` block is never swallowed
        return And(r is None, len(ev) == 1 and ev[0][0] == "release" and ev[0][1] == LOCK, stack_is(pop_of(cell["S0"])))

    def exit_call(mod, args):
        st = state_of(args)
        st.setup(mod)
        mod.AnnotatedQueue._lock.acquire()
        try:
            q = nat(args["self"], st, mod)
            return mod.AnnotatedQueue.__exit__(q, args["exception_type"], None, None)
        finally:
            st.finish(mod)

    def exit_requires(a):
        if isinstance(a.self, Holder):
            return len(state_of(a).stack_refs) > 0
        return z3.Length(cell["S0"]) > 0
    for lab, et in (("normal exit", NoneV), ("exceptional exit", T("const", ValueError))):
        contracts.append(FnContract(wq, "AnnotatedQueue.__exit__", [
            Case(lab, {"self": Int, "exception_type": et, "exception_value": NoneV, "traceback": NoneV}, ghost=qm_ghost,
                 requires=exit_requires, ensures=post_exit,
                 native_gen=attach_state(make_native_gen(queue_params=("self",)), "self"), native_call=exit_call)]))

    # ---- stop_recording: generator context manager run with an arbitrary with-body at its yield
    def stop_ghost(ctx, a):
        qm_ghost(ctx, a)
        obs = cell["inside"] = []

        def hook(it, value, genv):
            cur = it.ctx.class_state[STACK]
            obs.append((cur, it.truthy(cur), value))
            # the with-body may push and pop balanced contexts on the inner list ...
            if isinstance(cur, PyList):
                cur.items.append(z3.Int(it.ctx.fresh_name("inner_queue")))
                cur.items.pop()
            # ... and may raise
            if it.ctx.branch(z3.Bool(it.ctx.fresh_name("with_body_raises"))):
                raise RaiseExc("BodyError")
        ctx.yield_hook = hook

    def inside_ok():
        obs = cell["inside"]
        # exactly one yield; inside, the active list is a NEW empty list (recording() is False and pushes do not reach the saved one)
        return len(obs) == 1 and obs[0][0] is not cell["stack_obj"] and obs[0][1] is False and obs[0][2] is None

    class BodyError(Exception):
        pass

    def stop_call(mod, args):
        st = state_of(args)
        st.setup(mod)
        try:
            with mod.QueuingManager.stop_recording():
                st.inside = st.snapshot_now(mod)
                if st.raise_in_body:
                    raise BodyError("with-body raises")
        finally:
            st.finish(mod)
        return None

    def stop_native_ok(o, nw):
        before, live = native_frame(o, nw)
        return live.inside is not None and live.inside["recording"] is False and live.inside["stack"] == [] and \
            not live.inside["same_list"] and native_check(o, nw, before.stack_refs)

    def post_stop(o, r, nw):
        if not isinstance(o.cls, ClsState):
            return stop_native_ok(o, nw)
        return And(inside_ok(), not events(), stack_is(cell["S0"]))
    stop_case = Case("with-body returns or raises", {"cls": CLS}, ghost=stop_ghost, ensures=post_stop,
                     raises={"BodyError": lambda o: True}, native_gen=attach_state(make_native_gen(), "cls"), native_call=stop_call)
    stop_case.exc_ensures = lambda name, o, nw: post_stop(o, None, nw)
    contracts.append(FnContract(wq, "QueuingManager.stop_recording", [stop_case]))

    # ---- apply: RuntimeError when not recording; otherwise a copy made under stop_recording is queued, the stack is restored
    def post_apply(ctx_kind):
        def post(o, r, nw):
            if isinstance(o.op, Obj):
                before, live = native_frame(o, nw)
                tgt = before.stack_refs[-1] if ctx_kind != "queue" else ref_val(o.context)
                af = live.after
                if not (isinstance(r, Obj) and r is not nw.op and r.i == o.op.i and af is not None):
                    return False
                got = af["contents"].get(tgt, [])
                want_ids = expected_contents(list(before.contents.get(tgt, [])), "remove", None)
                # the COPY is at the end of the target queue (a new object: the queue keys on identity), everything else unchanged
                ok = [x.i for x in got[:-1]] == want_ids and got and got[-1] is r
                others = all([x.i for x in objs] == before.contents.get(q, []) for q, objs in af["contents"].items() if q != tgt)
                if isinstance(nw.op, QObj):
                    ok = ok and len(live.queue_calls) == 1 and live.queue_calls[0][0] is r
                ok = ok and live.copy_recording == [False]          # exactly one copy, made while NOT recording
                return ok and others and af["stack"] == before.stack_refs and af["same_list"]
            s0 = cell["S0"]
            ev = events()
            if len(ev) != 2 or ev[0][0] != "copy":
                return False
            _, src, c, rec_at_copy = ev[0]
            name, ref, rest, kw = ev[1]
            copied = And(same_int(src, o.op), rec_at_copy is False, same_int(r, c))
            if name == "queue":
                # the copy's own queue method, with the given context
                ctx_ok = list(kw) == ["context"] and (kw["context"] is nw.context if ctx_kind != "default" else
                                                      (isinstance(kw["context"], FuncRef) and kw["context"].name == "QueuingManager"))
                target_ok = And(HASQ(c), same_int(ref, c), not rest and ctx_ok)
            elif name == "append":
                want_ref = top(s0) if ctx_kind != "queue" else o.context
                target_ok = And(Not(HASQ(c)), same_int(ref, want_ref), len(rest) == 1 and same_int(rest[0], c), not kw)
            else:
                return False
            return And(z3.Length(s0) > 0, copied, target_ok, stack_is(s0))
        return post

    def apply_raises(o):
        if isinstance(o.op, Obj):
            return len(state_of(o).stack_refs) == 0
        return z3.Length(cell["S0"]) == 0

    def apply_native(argnames):
        return native_call_of("apply", argnames)
    for lab, params, kind, names in (
            ("context=QueuingManager", {"op": Int, "context": CLS}, "class", ["op", "context"]),
            ("default context", {"op": Int}, "default", ["op"]),
            ("context=a queue", {"op": Int, "context": Int}, "queue", ["op", "context"])):
        cs = Case(lab, dict(params), ghost=qm_ghost, ensures=post_apply(kind), raises={"RuntimeError": apply_raises},
                  must_return=lambda o: Not(apply_raises(o)),
                  native_gen=attach_state(make_native_gen(obj_params=("op",), queue_params=(("context",) if kind == "queue" else ())), "op"),
                  native_call=apply_native(names))
        cs.exc_ensures = unchanged_exc
        contracts.append(FnContract(wq, "apply", [cs]))

    # ================================================================================================ (2) queue level
    def keys_of(v):
        return v.f["_keys"].term if isinstance(v, Rec) else None

    def kid(key):
        """identity of a dictionary key: the wrapped object's identity (WrappedObj.__eq__/__hash__, verified below)"""
        if isinstance(key, Rec) and key.cls.name == "WrappedObj":
            return to_int_term(key.f["obj"])
        raise Unsupp(f"OrderedDict model: key {key!r} is not a WrappedObj")

    def without(s, x):
        """the key sequence with its (only) occurrence of x removed"""
        i = z3.IndexOf(s, z3.Unit(x), 0)
        return z3.Concat(z3.Extract(s, 0, i), z3.Extract(s, i + 1, z3.Length(s) - i - 1))

    def has(s, x):
        return z3.Contains(s, z3.Unit(S._t(x)))

    def od_setitem(it, args, kw):
        proxy, key, value = args
        ks = proxy.obj.f["_keys"]
        x = kid(key)
        if not it.ctx.branch(has(ks.term, x)):
            ks.term = z3.Concat(ks.term, z3.Unit(x))
        return None

    def od_delitem(it, args, kw):
        proxy, key = args
        ks = proxy.obj.f["_keys"]
        x = kid(key)
        if not it.ctx.branch(has(ks.term, x)):
            raise RaiseExc("KeyError")
        ks.term = without(ks.term, x)
        return None

    def od_contains(it, args, kw):
        proxy, key = args
        return has(proxy.obj.f["_keys"].term, kid(key))

    def od_getitem(it, args, kw):
        proxy, key = args
        if not it.ctx.branch(has(proxy.obj.f["_keys"].term, kid(key))):
            raise RaiseExc("KeyError")
        it.ctx.ghost["metadata"] = md = {}
        return md

    wa = World(QF, classes={"AnnotatedQueue": {"_keys": SeqT(Int)}, "WrappedObj": {"obj": Int}},
               extra_builtins={"method:__setitem__": od_setitem, "method:__delitem__": od_delitem, "method:__contains__": od_contains,
                               "method:__getitem__": od_getitem, "id": lambda it, a, k: to_int_term(a[0])})
    AQ, WO = RecT("AnnotatedQueue"), RecT("WrappedObj")

    def aq_ghost(ctx, a):
        cell["ctx"] = ctx

    def oid(v):
        """object identity of an argument given raw or wrapped"""
        if isinstance(v, Rec):
            return to_int_term(v.f["obj"])
        if isinstance(v, z3.ExprRef) or isinstance(v, int):
            return S._t(v)
        return v.obj.i if type(v).__name__ == "WrappedObj" else v.i

    def aq_native_gen(wrapped):
        def gen(rng, m):
            m = dict(m)
            mod = importlib.import_module(QMOD)
            keys = list(dict.fromkeys(int(k) for k in (m["self"].get("_keys") or [])))
            st = NState()
            q = mod.AnnotatedQueue()
            for i in keys:
                q.append(st.obj(i))
            q.c41_state = st
            m["self"] = q
            for k in ("obj", "key"):
                if k in m:
                    i = m[k]["obj"] if isinstance(m[k], dict) else m[k]
                    m[k] = mod.WrappedObj(st.obj(int(i))) if wrapped else st.obj(int(i))
            return m
        return gen

    def nat_keys(q):
        return [k.i for k in q.queue]

    def is_nat(v):
        return not isinstance(v, Rec)

    def post_q_append(o, r, nw):
        if is_nat(o.self):
            return r is None and nat_keys(nw.self) == expected_contents(nat_keys(o.self), "append", oid(o.obj))
        k0, x = keys_of(o.self), oid(o.obj)
        return And(r is None, keys_of(nw.self) == z3.If(has(k0, x), k0, z3.Concat(k0, z3.Unit(x))))

    def post_q_remove(o, r, nw):
        if is_nat(o.self):
            return r is None and nat_keys(nw.self) == expected_contents(nat_keys(o.self), "remove", oid(o.obj))
        k0, x = keys_of(o.self), oid(o.obj)
        return And(r is None, keys_of(nw.self) == z3.If(has(k0, x), without(k0, x), k0))

    def post_q_update(o, r, nw):
        if is_nat(o.self):
            return r is None and nat_keys(nw.self) == nat_keys(o.self)
        return And(r is None, keys_of(nw.self) == keys_of(o.self))

    def post_q_getinfo(o, r, nw):
        if is_nat(o.self):
            return isinstance(r, dict) and nat_keys(nw.self) == nat_keys(o.self) and oid(o.obj) in nat_keys(o.self)
        return And(isinstance(r, dict), has(keys_of(o.self), oid(o.obj)), keys_of(nw.self) == keys_of(o.self))

    def absent(o):
        if is_nat(o.self):
            return oid(o.obj) not in nat_keys(o.self)
        return Not(has(keys_of(o.self), oid(o.obj)))
    for wrapped, ot, lab in ((False, Int, "raw object"), (True, WO, "WrappedObj")):
        gen = aq_native_gen(wrapped)
        contracts.append(FnContract(wa, "AnnotatedQueue.append", [
            Case(f"{lab}", {"self": AQ, "obj": ot}, ghost=aq_ghost, ensures=post_q_append, native_gen=gen)]))
        contracts.append(FnContract(wa, "AnnotatedQueue.remove", [
            Case(f"{lab}", {"self": AQ, "obj": ot}, ghost=aq_ghost, ensures=post_q_remove, native_gen=gen)]))
        contracts.append(FnContract(wa, "AnnotatedQueue.update_info", [
            Case(f"{lab}", {"self": AQ, "obj": ot}, ghost=aq_ghost, ensures=post_q_update, native_gen=gen)]))
        gi = Case(f"{lab}", {"self": AQ, "obj": ot}, ghost=aq_ghost, ensures=post_q_getinfo, raises={"QueuingError": absent},
                  must_return=lambda o: Not(absent(o)), native_gen=gen)
        gi.exc_ensures = lambda name, o, nw: (nat_keys(nw.self) == nat_keys(o.self)) if is_nat(o.self) else (keys_of(nw.self) == keys_of(o.self))
        contracts.append(FnContract(wa, "AnnotatedQueue.get_info", [gi]))
        contracts.append(FnContract(wa, "AnnotatedQueue.__contains__", [
            Case(f"{lab}", {"self": AQ, "key": ot}, ghost=aq_ghost, native_gen=gen,
                 ensures=lambda o, r, nw: (r is (oid(o.key) in nat_keys(o.self))) if is_nat(o.self) else
                 And(S._t(r) == has(keys_of(o.self), oid(o.key)), keys_of(nw.self) == keys_of(o.self)))]))
        contracts.append(FnContract(wa, "AnnotatedQueue.__setitem__", [
            Case(f"{lab}", {"self": AQ, "key": ot, "value": T("const", {})}, ghost=aq_ghost, native_gen=gen,
                 ensures=lambda o, r, nw: (nat_keys(nw.self) == expected_contents(nat_keys(o.self), "append", oid(o.key))) if is_nat(o.self) else
                 keys_of(nw.self) == z3.If(has(keys_of(o.self), oid(o.key)), keys_of(o.self), z3.Concat(keys_of(o.self), z3.Unit(oid(o.key)))))]))

        def absent_key(o):
            if is_nat(o.self):
                return oid(o.key) not in nat_keys(o.self)
            return Not(has(keys_of(o.self), oid(o.key)))
        contracts.append(FnContract(wa, "AnnotatedQueue.__getitem__", [
            Case(f"{lab}", {"self": AQ, "key": ot}, ghost=aq_ghost, native_gen=gen, raises={"KeyError": absent_key},
                 must_return=lambda o, absent_key=absent_key: Not(absent_key(o)),
                 ensures=lambda o, r, nw: isinstance(r, dict) and ((nat_keys(nw.self) == nat_keys(o.self)) if is_nat(o.self) else True))]))

    # WrappedObj: equality / hash by the identity of the wrapped object
    def wo_gen(rng, m):
        mod = importlib.import_module(QMOD)
        st = NState()
        m = dict(m)
        for k in ("self", "other"):
            if isinstance(m.get(k), dict):
                m[k] = mod.WrappedObj(st.obj(int(m[k]["obj"])))
        return m
    contracts.append(FnContract(wa, "WrappedObj.__eq__", [
        Case("other: WrappedObj", {"self": WO, "other": WO}, native_gen=wo_gen,
             ensures=lambda o, r, nw: (r is (o.self.obj.i == o.other.obj.i)) if is_nat(o.self) else S._t(r) == (o.self.obj == o.other.obj)),
        Case("other: raw object", {"self": WO, "other": Int}, native_gen=wo_gen, ensures=lambda o, r, nw: r is False)]))
    contracts.append(FnContract(wa, "WrappedObj.__hash__", [
        Case("", {"self": WO}, native_gen=wo_gen,
             ensures=lambda o, r, nw: (r == id(nw.self.obj)) if is_nat(o.self) else S._t(r) == o.self.obj)]))

    # ================================================================================================ lemmas (composition)
    s_, q_ = z3.Const("stack", IS), z3.Int("q")
    pushed = z3.Concat(s_, z3.Unit(q_))
    lemmas = [
        # `with q:` = __enter__ ; body ; __exit__  (python's with protocol calls __exit__ on every exit): a body that leaves the stack as
        # it found it (nested contexts are balanced by induction on nesting depth) gives back exactly the entry stack
        ("enter-exit-restores-stack", [q_], pop_of(pushed) == s_),
        ("innermost-after-enter-is-self", [q_], top(pushed) == q_),
    ]
    k_, x_, y_ = z3.Const("keys", IS), z3.Int("x"), z3.Int("y")
    app = z3.If(has(k_, x_), k_, z3.Concat(k_, z3.Unit(x_)))
    lemmas += [
        # a NEW object lands at the end, all earlier positions keep their object: insertion order == call order (step of the induction)
        ("append-new-object-is-last", [x_], z3.Implies(z3.Not(has(k_, x_)), z3.And(z3.Length(app) == z3.Length(k_) + 1, app[z3.Length(k_)] == x_,
                                                                             z3.Extract(app, 0, z3.Length(k_)) == k_))),
        ("append-present-object-changes-nothing", [x_], z3.Implies(has(k_, x_), app == k_)),
    ]

    # ================================================================================================ (3) QuantumTape.__enter__ / __exit__
    # tape/tape.py: the tape is itself a recording queue.  QueuingManager's methods are events here (their effect is level (1)); building the
    # tape from its queue (_process_queue) may return or raise.  On EVERY exit path of __exit__ -- also when _process_queue raises -- the
    # context stack has been popped exactly once and the lock released exactly once ("the context stack is restored after exceptions").
    from vf.pyvc.engine import Model as _Model
    TAPE = "pennylane/tape/tape.py"
    tcell = {}

    def tev(name):
        def fn(it, args, kw):
            it.ctx.ghost["events"].append((name,) + tuple(args))
            return None
        return fn

    def mc_process_queue(it, args, kwargs):
        it.ctx.ghost["events"].append(("process_queue", args[0]))
        if it.ctx.branch(z3.Bool(it.ctx.fresh_name("process_queue_raises"))):
            raise RaiseExc("ValueError")
        return None
    wt = World(TAPE, classes={"QuantumTape": {"_trainable_params": NoneV}}, modular={"QuantumTape._process_queue": mc_process_queue},
               extra_builtins={"QueuingManager.append": tev("append"), "QueuingManager.add_active_queue": tev("push"),
                               "QueuingManager.remove_active_queue": tev("pop"), "method:acquire": tev("acquire"), "method:release": tev("release")})

    def tape_ghost(ctx, a):
        tcell["ctx"] = ctx
        ctx.class_state = {("QuantumTape", "_lock"): LOCK}
        ctx.ghost["events"] = []

    def tape_native(invalid):
        def gen(rng, m):
            import random
            inv = invalid if rng is None else (rng.random() < 0.7)
            return dict(m, self=Holder(NState(), inv))
        return gen

    def tape_enter_call(mod, args):
        import pennylane as qp
        h = args["self"]
        outer = qp.queuing.AnnotatedQueue()
        with outer:
            tape = mod.QuantumTape()
            r = mod.QuantumTape.__enter__(tape)
            h.obs = dict(stack=list(qp.QueuingManager._active_contexts), outer=outer, tape=tape, queued=list(outer.queue), ret=r)
            qp.QueuingManager.remove_active_queue()
            mod.QuantumTape._lock.release()
        return r

    def post_tape_enter(o, r, nw):
        if isinstance(nw.self, Holder):
            ob = nw.self.obs
            return ob["ret"] is ob["tape"] and ob["stack"] == [ob["outer"], ob["tape"]] and ob["queued"] == [ob["tape"]]
        ev = tcell["ctx"].ghost["events"]
        return len(ev) == 3 and ev[0] == ("acquire", LOCK) and ev[1][0] == "append" and ev[1][1] is nw.self and ev[2][0] == "push" and \
            ev[2][1] is nw.self and r is nw.self
    contracts.append(FnContract(wt, "QuantumTape.__enter__", [
        Case("lock, queue itself in the enclosing context, then push", {"self": RecT("QuantumTape")}, ghost=tape_ghost, ensures=post_tape_enter,
             native_gen=tape_native(False), native_call=tape_enter_call)]))

    def tape_exit_call(mod, args):
        import pennylane as qp
        h = args["self"]
        outer = qp.queuing.AnnotatedQueue()
        h.obs = None
        with outer:
            tape = mod.QuantumTape()
            mod.QuantumTape.__enter__(tape)
            qp.X(0)
            if h.value:          # an operator after a measurement: building the tape from this queue raises ValueError
                qp.expval(qp.Z(0))
                qp.RX(0.1, 0)
            try:
                return mod.QuantumTape.__exit__(tape, None, None, None)
            finally:
                stack = list(qp.QueuingManager._active_contexts)
                free = mod.QuantumTape._lock.acquire(blocking=False)
                owned_depth = 0
                if free:
                    mod.QuantumTape._lock.release()
                h.obs = dict(stack_ok=stack == [outer], stack=[type(x).__name__ for x in stack])
                while qp.QueuingManager._active_contexts and qp.QueuingManager._active_contexts[-1] is not outer:
                    qp.QueuingManager.remove_active_queue()          # clean up for the harness

    def tape_exit_ok(o, nw):
        if isinstance(nw.self, Holder):
            return nw.self.obs is not None and nw.self.obs["stack_ok"]
        ev = tcell["ctx"].ghost["events"]
        names = [e[0] for e in ev]
        return names.count("pop") == 1 and names.count("release") == 1 and names.count("acquire") == 0 and names.count("push") == 0 and \
            all(e[1] == LOCK for e in ev if e[0] == "release")
    ex_case = Case("every exit path pops the stack and releases the lock once", {"self": RecT("QuantumTape"), "exception_type": NoneV,
                                                                                "exception_value": NoneV, "traceback": NoneV},
                   ghost=tape_ghost, ensures=lambda o, r, nw: And(r is None, tape_exit_ok(o, nw)), raises={"ValueError": lambda o: True},
                   native_gen=tape_native(True), native_call=tape_exit_call)
    ex_case.exc_ensures = lambda name, o, nw: tape_exit_ok(o, nw)
    contracts.append(FnContract(wt, "QuantumTape.__exit__", [ex_case]))

    # ================================================================================================ (4) wrapper constructors dequeue what they consume
    # "operators consumed by wrapper constructors (adjoint, ctrl, pow, arithmetic) are recorded only through their wrapper".
    ADJ, CTL = "pennylane/ops/op_math/adjoint.py", "pennylane/ops/op_math/controlled.py"
    OPB = "pennylane/core/operator/base.py"
    wcell = {}

    class Script(_Model):
        def __init__(self, ops):
            self.operations, self.measurements = PyList(ops), PyList([])

    def wrap_ghost(ctx, a):
        wcell["ctx"] = ctx
        ctx.ghost["events"] = []

    def b_make_qscript(it, args, kw):
        fn = args[0]

        class _Run(_Model):
            def vf_call(self, it2, a2, k2):
                it2.ctx.ghost["events"].append(("run-qfunc", fn, tuple(a2), dict(k2)))
                return Script([Rec(wop.classes["Operator"], {"_id": 900}), Rec(wop.classes["Operator"], {"_id": 901})])
        return _Run()

    def leaves_of(x, out):
        """assumed contract of qp.pytrees.flatten with is_leaf = isinstance(., Operator): leaves of nested tuples / lists / dicts"""
        if isinstance(x, (tuple, list)):
            for y in x:
                leaves_of(y, out)
        elif isinstance(x, PyList):
            for y in x.items:
                leaves_of(y, out)
        elif isinstance(x, dict):
            for y in x.values():
                leaves_of(y, out)
        else:
            out.append(x)
        return out

    def b_flatten(it, args, kw):
        return (PyList(leaves_of(args[0], [])), None)

    def wev(name, ret=None):
        def fn(it, args, kw):
            it.ctx.ghost["events"].append((name,) + tuple(args))
            return ret(it, args, kw) if ret else None
        return fn

    def token(label):
        return lambda it, args, kw: Rec(wop.classes["Operator"], {"_id": label})
    wop = World(ADJ, classes={"Operator": (OPB, {"_id": NoneV})}, functions=["_adjoint_transform", "_make_adjoint_op", "_single_op_eager"],
                modular={"_make_adjoint_op": wev("make-adjoint", token(950)), "_single_op_eager": wev("eager-adjoint", token(951))},
                extra_builtins={"qp.capture.enabled": lambda it, a, k: False, "qp.tape.make_qscript": b_make_qscript, "qp.pytrees.flatten": b_flatten,
                                "qp.QueuingManager.remove": wev("remove"), "reversed": lambda it, a, k: PyList(list(reversed(it.iter_concrete(a[0]))))})
    OPR = RecT("Operator")

    def qfunc_wrapper_post(build_call, op_params, native_name):
        """the wrapper dequeues exactly the Operator instances among its positional AND keyword arguments (also inside lists / dicts)"""
        def post(o, r, nw):
            if not hasattr(r, "interp"):
                return True          # native side: see the bounded stand-ins below
            it = Interp(wcell["ctx"], None)
            args, kwargs, expect = build_call(nw)
            it.call(r, args, kwargs)
            removed = [e[1] for e in wcell["ctx"].ghost["events"] if e[0] == "remove"]
            return len(removed) == len(expect) and all(any(x is y for y in removed) for x in expect) and \
                all(isinstance(x, Rec) and x.cls.name == "Operator" for x in removed)
        return post
    from vf.pyvc.interp import Interp
    QFUNC = T("const", FuncRef("builtin", "user_qfunc"))

    class NSobj:
        def __init__(self, d):
            self.__dict__.update(d)

    def call_shapes(nw):
        a, b, c = nw.op_a, nw.op_b, nw.op_c
        return ([0.3, a], {"gate": b, "ops": PyList([c, 7]), "scale": 2}, [a, b, c])

    def ops_ghost(ctx, a):
        wrap_ghost(ctx, a)
        wcell["ops"] = {k: fresh(ctx, OPR, k) for k in ("op_a", "op_b", "op_c")}
    contracts.append(FnContract(wop, "_adjoint_transform", [
        Case(f"lazy={lazy}: operators passed positionally, by keyword and inside a keyword list are dequeued",
             {"qfunc": QFUNC, "lazy": T("const", lazy)}, ghost=ops_ghost,
             ensures=lambda o, r, nw: qfunc_wrapper_post(lambda _nw: call_shapes(NSobj(wcell["ops"])), None, "adjoint")(o, r, nw),
             native_call=lambda mod, args: None, native_gen=lambda rng, m: m)
        for lazy in (True, False)]))

    # ---- _ctrl_transform.<locals>.wrapper
    wctl = World(CTL, classes={"Operator": (OPB, {"_id": NoneV}), "Allocate": ("pennylane/allocation.py", {}), "Deallocate": ("pennylane/allocation.py", {})},
                 functions=["_ctrl_transform", "create_controlled_op2"],
                 extra_builtins={"qp.capture.enabled": lambda it, a, k: False, "qp.tape.make_qscript": b_make_qscript, "qp.pytrees.flatten": b_flatten,
                                 "qp.QueuingManager.remove": wev("remove"), "qp.QueuingManager.recording": lambda it, a, k: True,
                                 "ctrl": wev("ctrl", token(960)), "qp.apply": wev("apply"), "qp.X": wev("X", token(961)),
                                 "len": lambda it, a, k: (len(a[0].operations.items) if isinstance(a[0], Script) else it.b_len(a, k, None))})

    ctl_ghost = ops_ghost
    contracts.append(FnContract(wctl, "_ctrl_transform", [
        Case("operators passed positionally, by keyword and inside a keyword list are dequeued",
             {"op": QFUNC, "control": T("const", (5,)), "control_values": T("const", (True,)), "work_wires": NoneV, "one_controlled": T("const", False)},
             ghost=ctl_ghost, ensures=lambda o, r, nw: qfunc_wrapper_post(lambda _nw: call_shapes(NSobj(wcell["ops"])), None, "ctrl")(o, r, nw),
             native_call=lambda mod, args: None, native_gen=lambda rng, m: m)]))

    # ---- create_controlled_op2: the consumed operator is dequeued on EVERY path (directly, or as the base handed to ControlledOp2, whose
    # constructor dequeues its base -- controlled2.py, assumed)
    C2_SRC = "class Controlled2:\n    pass\n"
    W_SRC = "class AbstractWires:\n    def __len__(self):\n        return self.n\n"

    def b_dispatch(it, args, kw):
        if it.ctx.branch(z3.Bool(it.ctx.fresh_name("custom_controlled_op_registered"))):
            return Rec(wc2.classes["Operator"], {"_id": 970})
        return FuncRef("builtin", "NotImplemented")
    wc2 = World(CTL, classes={"Operator": (OPB, {"_id": NoneV})},
                stubs={"Controlled2": (C2_SRC, {"base": NoneV, "control_wires": NoneV, "control_values": NoneV, "work_wires": NoneV,
                                                "work_wire_type": NoneV}), "AbstractWires": (W_SRC, {"n": Int})},
                functions=["create_controlled_op2"],
                extra_builtins={"qp.QueuingManager.remove": wev("remove"), "pop_op_eqns": lambda it, a, k: None, "custom_ctrl_dispatch": b_dispatch,
                                "resolve_work_wire_type": lambda it, a, k: "borrowed", "_resolve_ctrl_values": lambda it, a, k: None,
                                "_concat_wires": lambda it, a, k: a[0], "ctrl": wev("ctrl", token(971)), "ControlledOp2": wev("ControlledOp2", token(972))})
    AW = RecT("AbstractWires")

    def post_c2(kind):
        def post(o, r, nw):
            if not isinstance(nw.op, Rec):
                return True
            ev = wcell["ctx"].ghost["events"]
            removed = [e for e in ev if e[0] == "remove" and e[1] is nw.op]
            as_base = [e for e in ev if e[0] == "ControlledOp2" and e[1] is nw.op]
            other_removed = [e for e in ev if e[0] == "remove" and e[1] is not nw.op]
            return (bool(removed) or bool(as_base)) and not other_removed
        return post
    c2_op = {"plain operator": OPR,
             "already controlled operator": T("build", lambda ctx, name: Rec(wc2.classes["Controlled2"], {
                 "base": fresh(ctx, OPR, "base"), "control_wires": fresh(ctx, AW, "cw"), "control_values": None, "work_wires": fresh(ctx, AW, "ww"),
                 "work_wire_type": "borrowed"}), gen=lambda rng: None)}
    for lab, opt in c2_op.items():
        contracts.append(FnContract(wc2, "create_controlled_op2", [
            Case(lab, {"op": opt, "control_wires": AW, "control_values": NoneV, "work_wires": AW, "work_wire_type": T("const", "borrowed")},
                 ghost=wrap_ghost, ensures=post_c2(lab), native_call=lambda mod, args: None, native_gen=lambda rng, m: dict(m, op=None))]))

    # ---- bounded native stand-ins (labelled bounded): every wrapper constructor inside a recording context, operands passed positionally / by
    # keyword / nested in a list / already wrapped; afterwards no consumed operand is left in the recording and the result is recorded
    def wrapper_scenarios():
        import pennylane as qp

        def sub(x, g=None, ops=()):          # a user subroutine that receives operators as arguments
            qp.RX(x, 0)
        sc = {}
        sc["adjoint(op)"] = lambda: (lambda a: ([a], [qp.adjoint(a)]))(qp.S(0))
        sc["adjoint(op, lazy=False)"] = lambda: (lambda a: ([a], [qp.adjoint(a, lazy=False)]))(qp.S(0))
        sc["adjoint(qfunc)(x, op) positional operand"] = lambda: (lambda a: ([a], [qp.adjoint(sub)(0.3, a)]))(qp.Y(1))
        sc["adjoint(qfunc)(x, g=op) keyword operand"] = lambda: (lambda a: ([a], [qp.adjoint(sub)(0.3, g=a)]))(qp.Y(1))
        sc["adjoint(qfunc)(x, ops=[op, op]) operands in a keyword list"] = lambda: (lambda a, b: ([a, b], [qp.adjoint(sub)(0.3, ops=[a, b])]))(qp.X(2), qp.Y(2))
        sc["ctrl(op, control)"] = lambda: (lambda a: ([a], [qp.ctrl(a, 1)]))(qp.S(0))
        sc["ctrl(CRX, control): already controlled operand"] = lambda: (lambda a: ([a], [qp.ctrl(a, 0)]))(qp.CRX(0.3, [1, 2]))
        sc["ctrl(ctrl(S, 2), 0): nested ctrl"] = lambda: (lambda a: (lambda inner: ([a, inner], [qp.ctrl(inner, 0)]))(qp.ctrl(a, 2)))(qp.S(3))
        sc["ctrl(CSWAP, control)"] = lambda: (lambda a: ([a], [qp.ctrl(a, 3)]))(qp.CSWAP([0, 1, 2]))
        sc["ctrl(qfunc, control)(x, g=op) keyword operand"] = lambda: (lambda a: ([a], []) if qp.ctrl(sub, control=3)(0.3, g=a) is not None or True else None)(qp.Y(1))
        sc["pow(op, 2)"] = lambda: (lambda a: ([a], [qp.pow(a, 2)]))(qp.S(0))
        sc["pow(op, 2, lazy=False)"] = lambda: (lambda a: ([a], [qp.pow(a, 2, lazy=False)]))(qp.T(0))
        sc["prod(a, b)"] = lambda: (lambda a, b: ([a, b], [qp.prod(a, b)]))(qp.X(0), qp.Y(1))
        sc["a @ b"] = lambda: (lambda a, b: ([a, b], [a @ b]))(qp.X(0), qp.Y(1))
        sc["sum(a, b)"] = lambda: (lambda a, b: ([a, b], [qp.sum(a, b)]))(qp.X(0), qp.Y(1))
        sc["a + b"] = lambda: (lambda a, b: ([a, b], [a + b]))(qp.X(0), qp.Y(1))
        sc["s_prod(2.0, a)"] = lambda: (lambda a: ([a], [qp.s_prod(2.0, a)]))(qp.X(0))
        sc["2.0 * a"] = lambda: (lambda a: ([a], [2.0 * a]))(qp.X(0))
        sc["exp(a, 1j)"] = lambda: (lambda a: ([a], [qp.exp(a, 1j)]))(qp.X(0))
        sc["prod(adjoint(a), ctrl(b, 2)): nested wrappers"] = lambda: (lambda a, b: (lambda x, y: ([a, b, x, y], [qp.prod(x, y)]))(qp.adjoint(a), qp.ctrl(b, 2)))(qp.S(0), qp.T(1))
        return sc
    SCENARIO_NAMES = ["adjoint(op)", "adjoint(op, lazy=False)", "adjoint(qfunc)(x, op) positional operand", "adjoint(qfunc)(x, g=op) keyword operand",
                      "adjoint(qfunc)(x, ops=[op, op]) operands in a keyword list", "ctrl(op, control)", "ctrl(CRX, control): already controlled operand",
                      "ctrl(ctrl(S, 2), 0): nested ctrl", "ctrl(CSWAP, control)", "ctrl(qfunc, control)(x, g=op) keyword operand", "pow(op, 2)",
                      "pow(op, 2, lazy=False)", "prod(a, b)", "a @ b", "sum(a, b)", "a + b", "s_prod(2.0, a)", "2.0 * a", "exp(a, 1j)",
                      "prod(adjoint(a), ctrl(b, 2)): nested wrappers"]
    from vf.common import Obligation, Outcome, DISCHARGED, REFUTED

    def scenario_obligation(name):
        def fn():
            import pennylane as qp
            build_ = wrapper_scenarios()[name]
            with qp.queuing.AnnotatedQueue() as q:
                qp.H(5)
                consumed, results = build_()
                qp.H(6)
            queue = list(q.queue)
            results = [r for x in results for r in (x if isinstance(x, (list, tuple)) else [x])]
            left = [repr(c) for c in consumed if any(c is o for o in queue)]
            missing = [repr(r) for r in results if not any(r is o for o in queue)]
            shown = [repr(o) for o in queue]
            if left or missing:
                return Outcome(REFUTED, "native-standin", f"consumed operands still recorded: {left}; results not recorded: {missing}",
                               witness=dict(scenario=name, recorded=shown),
                               replay=dict(confirmed=True, observed=shown, expected="only the wrapper result(s) between H(5) and H(6)", inputs=name))
            return Outcome(DISCHARGED, "native-standin", f"recorded {shown}", extra=dict(bounded=True))
        return Obligation(f"{PID}/op_math:wrapper constructors/native: {name}", "bounded", fn, bounded=True, timeout=180,
                          sample="queue contents after constructing the wrapper inside an AnnotatedQueue")
    for nm_ in SCENARIO_NAMES:
        plan.add(scenario_obligation(nm_))
    plan.size_bounds.append("wrapper constructors: 20 native scenarios (bounded stand-in); E1 contracts for the adjoint / ctrl qfunc wrappers and create_controlled_op2")

    for fc in contracts:
        plan.fn_under_contract(fc.world.file, fc.qualname)
        for ob in obligations_for(PID, fc, tier):
            plan.add(ob)
    for nm, vs, goal in lemmas:
        plan.add(lemma(PID, nm, vs, goal))
    return plan
