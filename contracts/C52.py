"""C52 Observable grouping partitions correctly.

 (a) the integer trick of `_adj_matrix_from_symplectic`:  per qubit, with a = 2x+z in {0,1,2,3},  (a.b).(a-b) != 0  <=>  a != b, a != 0, b != 0
     <=> the two single-qubit Paulis anticommute (exact reference matrices; 16 pairs, complete), the value stays inside int8;
     the OR / XOR-parity reductions over the qubit axis give exactly  not-qwc / anticommuting / commuting:  the REAL function is run on
     EVERY pair of Pauli words on n <= 3 qubits (complete finite enumeration per n) and on random register sizes, against the
     relation computed from the exact Kronecker-product matrices (n <= 3) / from the letters.
 (b) E1 contracts (size-bounded in the number N of observables, every colour / index / identity pattern symbolic), with the ASSUMED
     contract of rustworkx.graph_greedy_color (total: one colour per node; proper: adjacent nodes get different colours):
       PauliGroupingStrategy._idx_partitions_dict_from_graph   groups = the colour classes: every index exactly once, same group <=> same
                                                               colour, hence members pairwise NON-adjacent in the complement graph
       PauliGroupingStrategy.idx_partitions_from_graph          the same partition as tuples; custom indices travel by position; length check
       items_partitions_from_idx_partitions                     result[g][k] == items[idx_partitions[g][k]]  (lists / tuples, singleton groups)
       compute_partition_indices                                all-wireless shortcut: one group with every index; otherwise the partition above
       _partition_coeffs                                        first-match loop: every coefficient ends up at the position of an observable
                                                               identical to the one it came with, each coefficient used exactly once
 (c) end to end on the real code (size-bounded / sampled): group_observables and compute_partition_indices, all grouping types and colouring
     methods, lists of words on <= 2 wires with duplicates and identities: a partition, members pairwise related (exact matrices),
     coefficients travel with their observables; the complement graph handed to rustworkx has exactly the adjacency edges.
"""
import itertools
import random

import numpy as np
import z3

from vf.common import Plan, Obligation, Outcome, DISCHARGED, REFUTED, UNDECIDED
from vf.pyvc.engine import T, Int, Bool, Label, LabelSort, SeqT, ListT, TupleT, RecT, Rec, PyList, SeqV, Unsupp, RaiseExc
from vf.pyvc.interp import Closure
from vf.pyvc.contract import FnContract, Case, obligations_for
from vf.pyvc.ext import XWorld, XInterp, with_standin
from vf.pyvc.spec import And, Or, Not, Implies
from vf.symx.scalar import poly_matrix, pm_matmul, pm_kron, pm_eye
from refs import gates as G

FILE = "pennylane/pauli/grouping/group_observables.py"
LETTERS = "IXYZ"
TYPES = ("qwc", "commuting", "anticommuting")


def real():
    import pennylane as qp
    import importlib
    GO = importlib.import_module("pennylane.pauli.grouping.group_observables")      # (the package re-exports a function of the same name)
    return qp, GO


# ------------------------------------------------------------------------------------------------ reference relations
def gauss(m):
    re = np.zeros(m.shape, dtype=np.int64)
    im = np.zeros(m.shape, dtype=np.int64)
    for idx, x in np.ndenumerate(poly_matrix(m)):
        c = x.const_value()
        assert set(c.d) <= {0, 24}
        re[idx], im[idx] = int(c.d.get(0, 0)), int(c.d.get(24, 0))
    return re, im


_REF = {}


def ref1(ch):
    if ch not in _REF:
        _REF[ch] = gauss({"I": G.I2, "X": G.X, "Y": G.Y, "Z": G.Z}[ch])
    return _REF[ch]


def g_kron(a, b):
    return np.kron(a[0], b[0]) - np.kron(a[1], b[1]), np.kron(a[0], b[1]) + np.kron(a[1], b[0])


def g_mul(a, b):
    return a[0] @ b[0] - a[1] @ b[1], a[0] @ b[1] + a[1] @ b[0]


def word_matrix(word):
    key = "w:" + word
    if key not in _REF:
        m = (np.ones((1, 1), dtype=np.int64), np.zeros((1, 1), dtype=np.int64))
        for ch in word:
            m = g_kron(m, ref1(ch))
        _REF[key] = m
    return _REF[key]


def related(w1, w2, gtype):
    """the grouping relation from first principles: exact matrices for (anti)commutation, letters for qubit-wise commutation"""
    if gtype == "qwc":
        return all(a == b or a == "I" or b == "I" for a, b in zip(w1, w2))
    ab, ba = g_mul(word_matrix(w1), word_matrix(w2)), g_mul(word_matrix(w2), word_matrix(w1))
    if gtype == "commuting":
        return bool(np.all(ab[0] == ba[0]) and np.all(ab[1] == ba[1]))
    return bool(np.all(ab[0] == -ba[0]) and np.all(ab[1] == -ba[1]))


def related_letters(w1, w2, gtype):
    """the same relation by the parity lemma (used beyond 3 qubits, where it is cross-checked against the matrices up to 3)"""
    anti = sum(1 for a, b in zip(w1, w2) if a != b and a != "I" and b != "I")
    return anti == 0 if gtype == "qwc" else (anti % 2 == 0) == (gtype == "commuting")


XZ = {"I": (0, 0), "X": (1, 0), "Y": (1, 1), "Z": (0, 1)}


def symplectic(words):
    return np.array([[XZ[ch][0] for ch in w] + [XZ[ch][1] for ch in w] for w in words], dtype=int)


def native_ob(name, fn, desc, func, **kw):
    def run():
        bad = fn()
        if bad:
            return Outcome(REFUTED, "real-code-run+exact-reference", str(bad)[:1500], witness=dict(inputs=bad.get("inputs")),
                           replay=dict(confirmed=True, observed=bad.get("observed"), expected=bad.get("expected", desc), inputs=bad.get("inputs")))
        return Outcome(DISCHARGED, "real-code-run+exact-reference", desc)
    return Obligation(name, "post", run, func=(FILE, func), sample=desc, timeout=kw.pop("timeout", 900), **kw)


def call(f, *a, **k):
    try:
        return ("ok", f(*a, **k))
    except Exception as ex:  # pylint: disable=broad-except
        return ("raise", type(ex).__name__)


# ------------------------------------------------------------------------------------------------ E1 models
class GroupsV(dict):
    """collections.defaultdict(list) whose KEYS are symbolic: slot number -> list, with the key value of each slot"""

    def __init__(self):
        super().__init__()
        self.slot_keys = []


class GInterp(XInterp):
    def index(self, obj, idx, node=None):
        if isinstance(obj, GroupsV):
            for slot, k in enumerate(obj.slot_keys):
                c = self.equal(idx, k)
                if c is True or (c is not False and self.ctx.branch(c)):
                    return obj[slot]
            obj.slot_keys.append(idx)
            obj[len(obj.slot_keys) - 1] = PyList([])          # __missing__ of defaultdict(list): a new empty list is stored
            return obj[len(obj.slot_keys) - 1]
        return super().index(obj, idx, node)

    def b_sorted(self, args, kw, node):
        v = args[0]
        items = self.iter_concrete(v)
        if not kw and items and all(isinstance(x, tuple) and x and isinstance(x[0], int) and not isinstance(x[0], bool) for x in items) \
                and len({x[0] for x in items}) == len(items):
            return PyList(sorted(items, key=lambda x: x[0]))      # tuples with pairwise different concrete first components
        return super().b_sorted(args, kw, node)


def build(tier, seed):
    plan = Plan("C52", level="other")
    plan.explanation = ("(a) the per-qubit integer formula is decided exhaustively (16 letter pairs, z3 + exact matrices) and the real adjacency function is run "
                        "on every pair of Pauli words on <= 3 qubits against the relation computed from exact Kronecker-product matrices; (b) the real "
                        "grouping bookkeeping (colour classes, index / item partitions, wireless shortcut, first-match coefficient loop) is executed "
                        "symbolically for each number of observables up to the bound with symbolic colours, indices and identity patterns, under the "
                        "assumed contract of rustworkx.graph_greedy_color; (c) the public functions are run end to end on small word lists.")
    plan.trusted_base = ["vf/pyvc encoder + vf/pyvc/ext.py", "z3", "refs/gates.py I, X, Y, Z; numpy integer Kronecker / matrix products (exact on Gaussian integers)",
                         "mathematical lemma (stated): tensor products of Pauli letters commute iff the number of anticommuting positions is even -- "
                         "confirmed here against the exact matrices for all pairs of words on <= 3 qubits"]
    plan.assumptions = ["observables are abstract items; `are_identical_pauli_words` is an equivalence relation on them (confirmed on all pairs of words on <= 2 wires)",
                        "_partition_coeffs never inspects coefficient values (cast_like / take move them): coefficients are abstract pairwise distinct tokens",
                        "the partition handed to _partition_coeffs is a rearrangement of the observables up to identity of Pauli words (it is produced from them)"]
    plan.assumed_contracts = ["rustworkx.graph_greedy_color(graph, strategy) returns a dict with exactly one colour per node index and different colours on the two "
                              "ends of every edge (total, proper colouring); confirmed on every graph with <= 4 nodes for the three strategies (bounded stand-in)",
                              "qp.math.take(c, indices, axis=0)[k] == c[indices[k]]; qp.math.shape(c)[0] == len(c); qp.math.cast_like([0]*n, c) is a sequence of length n",
                              "operator.itemgetter(*idx)(items) == items[idx[0]] for one index, the tuple of the items otherwise",
                              "numpy logical_or.reduce / logical_xor.reduce over the qubit axis are OR / parity (confirmed by the enumerations of (a))"]
    plan.unverified = ["recursive_largest_first (graph_colouring.py) beyond the end-to-end runs of (c)", "observables_to_binary_matrix / pauli_to_binary / binary_to_pauli "
                       "beyond the letter codes checked in (a)", "diagonalisation of groups of more than 2 words / on more than 3 wires",
                       "more than N observables in the symbolic contracts (no proof for all sizes)", "optimality of the colouring (not part of the property)",
                       "_compute_partition_indices_rlf beyond the end-to-end runs"]
    plan.dropped = ["docstrings, annotations, exception messages", "the rustworkx < 0.15 branches (new_rx is True in this environment)"]
    qp, GO = real()
    quick = tier == "quick"

    # =================================================================================================== (a) adjacency
    def per_qubit():
        a, b = z3.Ints("a b")
        dom = z3.And(a >= 0, a <= 3, b >= 0, b <= 3)
        v = (a * b) * (a - b)
        s = z3.Solver()
        s.add(dom, z3.Not(z3.And((v != 0) == z3.And(a != b, a != 0, b != 0), v >= -128, v <= 127, a * b <= 127)))
        if s.check() != z3.unsat:
            return dict(inputs=str(s.model()), observed="formula differs", expected="(a.b).(a-b) != 0 <=> a != b, a != 0, b != 0, inside int8")
        # the code a = 2x + z of each letter as the real conversion produces it, and the formula against the exact matrices
        code = {}
        for ch in LETTERS:
            op = {"I": qp.Identity, "X": qp.X, "Y": qp.Y, "Z": qp.Z}[ch](0)
            row = np.asarray(qp.pauli.observables_to_binary_matrix([op], n_qubits=1, wire_map={0: 0}))[0]
            if tuple(int(t) for t in row) != XZ[ch]:
                return dict(inputs=ch, observed=row.tolist(), expected=f"symplectic code {XZ[ch]} (x | z)")
            code[ch] = 2 * int(row[0]) + int(row[1])
        if code["I"] != 0 or len(set(code.values())) != 4:
            return dict(inputs="letter codes", observed=code, expected="I -> 0 and four different codes")
        for p, q in itertools.product(LETTERS, repeat=2):
            val = (code[p] * code[q]) * (code[p] - code[q])
            if (val != 0) != related(p, q, "anticommuting"):
                return dict(inputs=[p, q], observed=val, expected="non-zero exactly when the single-qubit matrices anticommute")
        return None
    plan.add(native_ob("C52/group_observables:_adj_matrix_from_symplectic/per-qubit-formula[16 letter pairs]", per_qubit,
                       "(a.b).(a-b) != 0 <=> the two letters anticommute (exact matrices), values inside int8, letter codes as produced by the real conversion",
                       "_adj_matrix_from_symplectic"))

    def adjacency(n):
        def fn():
            words = ["".join(w) for w in itertools.product(LETTERS, repeat=n)]
            S = symplectic(words)
            for gtype in TYPES:
                S0 = S.copy()
                got = call(GO._adj_matrix_from_symplectic, S, grouping_type=gtype)
                if got[0] != "ok" or np.asarray(got[1]).shape != (len(words), len(words)) or not np.array_equal(S, S0):
                    return dict(inputs=dict(n_qubits=n, grouping_type=gtype), observed=repr(got)[:300], expected="a square boolean matrix, input untouched")
                adj = np.asarray(got[1])
                for i, w1 in enumerate(words):
                    for j, w2 in enumerate(words):
                        exp = not related(w1, w2, gtype)
                        if related(w1, w2, gtype) != related_letters(w1, w2, gtype):
                            return dict(inputs=[w1, w2, gtype], observed="parity lemma disagrees with the exact matrices", expected="agreement")
                        if bool(adj[i, j]) != exp:
                            return dict(inputs=dict(word_i=w1, word_j=w2, grouping_type=gtype), observed=bool(adj[i, j]),
                                        expected=f"{exp}: edge of the complement graph <=> the words are NOT {gtype}")
            return None
        return native_ob(f"C52/group_observables:_adj_matrix_from_symplectic/all-word-pairs[{n} qubits]", fn,
                         f"all {4 ** n} x {4 ** n} pairs of words, three grouping types: adjacency == NOT relation (relation from exact matrices)",
                         "_adj_matrix_from_symplectic", size_bounded=True)
    for n in (1, 2, 3):
        plan.add(adjacency(n))
    plan.fn_under_contract(FILE, "_adj_matrix_from_symplectic")
    plan.size_bounds.append("adjacency: every pair of Pauli words on 1, 2, 3 qubits (complete per qubit count); 4..7 qubits sampled")

    def adjacency_random():
        rng = random.Random(seed)
        for _ in range(20 if quick else 100):
            n, m = rng.randint(4, 7), rng.randint(2, 9)
            words = ["".join(rng.choice(LETTERS) for _ in range(n)) for _ in range(m)]
            for gtype in TYPES:
                adj = np.asarray(GO._adj_matrix_from_symplectic(symplectic(words), grouping_type=gtype))
                for i, j in itertools.product(range(m), repeat=2):
                    if bool(adj[i, j]) != (not related_letters(words[i], words[j], gtype)):
                        return dict(inputs=dict(word_i=words[i], word_j=words[j], grouping_type=gtype), observed=bool(adj[i, j]), expected="NOT relation")
        return None
    plan.add(native_ob("C52/group_observables:_adj_matrix_from_symplectic/sampled[4..7 qubits]", adjacency_random, "seeded random word lists on larger registers (letter-parity reference)",
                       "_adj_matrix_from_symplectic", bounded=True))

    # =================================================================================================== (b) E1 contracts
    NMAX = 4 if quick else 5
    plan.size_bounds.append(f"symbolic grouping contracts: N = 1..{NMAX} observables (every colouring, adjacency, index and identity pattern of that size)")
    STUB_OBS = ("class Obs:\n    pass\n", {"wires": SeqT(Label)})
    import ast as _ast

    def mk_world(n, **kw):
        classes = {"PauliGroupingStrategy": {"graph_colourer": T("const", "lf"), "grouping_type": T("const", "qwc"),
                                             "complement_graph": TupleT(*[Int] * n, *[Bool] * (n * (n - 1) // 2)),
                                             "observables": ListT(RecT("Obs"), n)}}
        w = XWorld(FILE, classes=classes, stubs={"Obs": STUB_OBS}, functions=["items_partitions_from_idx_partitions", "compute_partition_indices",
                                                                             "_partition_coeffs"], **kw)
        w.module_consts["RX_STRATEGIES"] = _ast.parse('{"lf": "lf", "dsatur": "dsatur", "gis": "gis"}', mode="eval").body
        w.module_consts["new_rx"] = _ast.parse("True", mode="eval").body

        def greedy_color(it, args, kw_):
            g = args[0]
            return {i: g[i] for i in range(n)}                        # the colour of node i (assumed contract: total; proper is in `requires`)

        def itemgetter(it, args, kw_):
            idxs = list(args)
            body = "__it[__i0]" if len(idxs) == 1 else "(" + ", ".join(f"__it[__i{k}]" for k in range(len(idxs))) + ",)"
            lam = _ast.parse(f"lambda __it: {body}", mode="eval").body
            return Closure(lam, {f"__i{k}": v for k, v in enumerate(idxs)}, it)
        w.extra_builtins.update({"rx.graph_greedy_color": greedy_color, "defaultdict": lambda it, a, k: GroupsV(), "itemgetter": itemgetter})
        return w

    def pairs(n):
        return [(i, j) for i in range(n) for j in range(i + 1, n)]

    def colours(g, n):
        return [g[i] for i in range(n)]

    def adj_of(g, n):
        return {p: g[n + k] for k, p in enumerate(pairs(n))}

    def proper(g, n):
        a = adj_of(g, n)
        return And(*[Implies(a[(i, j)], g[i] != g[j]) for (i, j) in pairs(n)], True)

    def is_symbolic(*xs):
        return any(isinstance(x, (z3.ExprRef, Rec, PyList, SeqV, GroupsV)) or (isinstance(x, (tuple, list)) and is_symbolic(*x)) for x in xs)

    def groups_list(r):
        """[(colour key, [indices])] of a GroupsV / defaultdict; or of a tuple of tuples (no keys)"""
        if isinstance(r, GroupsV):
            return [(k, list(r[s].items)) for s, k in enumerate(r.slot_keys)]
        if isinstance(r, dict):
            return [(k, list(v)) for k, v in r.items()]
        return [(None, list(x.items if isinstance(x, PyList) else x)) for x in (r.items if isinstance(r, PyList) else r)]

    def partition_post(groups, g, n, with_keys=True):
        """groups: [(key, [idx])]: every index 0..n-1 exactly once, ascending inside a group; members share the group's colour, different groups have
        different colours; members are pairwise non-adjacent"""
        flat = [i for _, idxs in groups for i in idxs]
        if sorted(flat) != list(range(n)) or any(list(idxs) != sorted(idxs) or not idxs for _, idxs in groups):
            return False
        a = adj_of(g, n)
        cs = []
        for gi, (k, idxs) in enumerate(groups):
            for i in idxs:
                if with_keys:
                    cs.append(g[i] == k)
                for j in idxs:
                    if i < j:
                        cs.append(g[i] == g[j])
                        cs.append(Not(a[(i, j)]))
            for gj, (k2, idxs2) in enumerate(groups):
                if gi < gj:
                    cs.append(g[idxs[0]] != g[idxs2[0]])
        return And(*cs, True)

    class FakeGraph:
        pass

    def native_strategy(fields_graph, n, obs=None):
        """a real PauliGroupingStrategy whose complement graph / colouring are the counter-model's (an instance of the assumed contract)"""
        st = object.__new__(GO.PauliGroupingStrategy)
        st.graph_colourer, st.grouping_type = "lf", "qwc"
        st.observables = obs if obs is not None else [qp.Z(i) for i in range(n)]
        st.__dict__["complement_graph"] = FakeGraph()
        return st

    def with_colouring(mod, g, n, f):
        old = mod.rx.graph_greedy_color
        mod.rx.graph_greedy_color = lambda graph, strategy=None: {i: int(g[i]) for i in range(n)}
        try:
            return f()
        finally:
            mod.rx.graph_greedy_color = old

    contracts = []
    for n in range(1, NMAX + 1):
        w = mk_world(n)
        SELF = T("rec", "PauliGroupingStrategy")

        def graph_of(s):
            return s.f["complement_graph"] if isinstance(s, Rec) else s.__vf_graph__

        def ncall_dict(mod, a, n=n):
            g = a["self"].__dict__.get("complement_graph")
            return None

        # the real object cannot carry the tuple as its graph: native calls rebuild the object from the model
        def realize_self(fields, n=n):
            st = native_strategy(None, n)
            st.__vf_graph__ = fields["complement_graph"]
            return st
        w.stub_realize["PauliGroupingStrategy"] = realize_self
        w.stub_realize["Obs"] = lambda f: qp.Identity() if not f.get("wires") else qp.Z(len(f["wires"]))

        def call_dict(mod, a, n=n):
            st = a["self"]
            return with_colouring(mod, st.__vf_graph__, n, lambda: type(st)._idx_partitions_dict_from_graph.func(st))

        def dict_post(o, r, nn, n=n):
            g = graph_of(o.self)
            return partition_post(groups_list(r), g, n)
        contracts.append(FnContract(w, "PauliGroupingStrategy._idx_partitions_dict_from_graph", [
            Case(f"N={n}-observables", {"self": SELF}, requires=lambda a, n=n: proper(graph_of(a.self), n), ensures=dict_post,
                 native_call=call_dict, size_bounded=True)]))

        def call_idx(mod, a, n=n):
            st = a["self"]
            return with_colouring(mod, st.__vf_graph__, n, lambda: st.idx_partitions_from_graph(a.get("observables_indices")))

        def idx_post(o, r, nn, n=n):
            g = graph_of(o.self)
            ok_shape = isinstance(r, tuple) and all(isinstance(x, tuple) for x in r)
            return And(ok_shape, partition_post(groups_list(r), g, n, with_keys=False))
        contracts.append(FnContract(w, "PauliGroupingStrategy.idx_partitions_from_graph", [
            Case(f"N={n}-observables/relative-indices", {"self": SELF, "observables_indices": T("none")},
                 requires=lambda a, n=n: proper(graph_of(a.self), n), ensures=idx_post, native_call=call_idx, size_bounded=True)]))

        # custom indices: the given indices travel by position (pairwise different indices let the positions be read back)
        def custom_post(o, r, nn, n=n):
            g = graph_of(o.self)
            items = o.observables_indices.items if isinstance(o.observables_indices, PyList) else list(o.observables_indices)
            if not (isinstance(r, tuple) and all(isinstance(x, tuple) and len(x) > 0 for x in r)):
                return False
            flat = [x for grp in r for x in grp]
            if len(flat) != n:
                return False
            a = adj_of(g, n)
            cs = [Or(*[x == items[i] for i in range(n)]) for x in flat]                   # every entry is one of the given indices
            cs += [Or(*[x == items[i] for x in flat]) for i in range(n)]                  # every given index occurs
            where = [(gi, u, x) for gi, grp in enumerate(r) for u, x in enumerate(grp)]
            for (g1, u, x), (g2, v, y) in itertools.combinations(where, 2):
                for i, j in itertools.permutations(range(n), 2):
                    both = And(x == items[i], y == items[j])
                    if g1 == g2:
                        cs.append(Implies(both, And(g[i] == g[j], Not(a[(min(i, j), max(i, j))]), i < j)))
                    else:
                        cs.append(Implies(both, g[i] != g[j]))
            return And(*cs, True)

        def distinct_items(a, n=n):
            items = a.observables_indices.items if isinstance(a.observables_indices, PyList) else list(a.observables_indices)
            if n < 2:
                return True
            if is_symbolic(items):
                return z3.Distinct(*items)
            return len(set(items)) == len(items)
        contracts.append(FnContract(w, "PauliGroupingStrategy.idx_partitions_from_graph", [
            Case(f"N={n}-observables/custom-indices", {"self": SELF, "observables_indices": ListT(Int, n)},
                 requires=lambda a, n=n: And(proper(graph_of(a.self), n), distinct_items(a)), ensures=custom_post, native_call=call_idx, size_bounded=True),
            Case(f"N={n}-observables/custom-indices-of-wrong-length", {"self": SELF, "observables_indices": ListT(Int, n + 1)},
                 requires=lambda a, n=n: proper(graph_of(a.self), n), ensures=lambda o, r, nn: False, raises={"ValueError": lambda o: True},
                 native_call=call_idx, size_bounded=True)]))

    # items_partitions_from_idx_partitions: every group shape of <= NMAX items, symbolic indices and items
    wi = mk_world(1)

    def compositions(total):
        if total == 0:
            yield ()
            return
        for first in range(1, total + 1):
            for rest in compositions(total - first):
                yield (first,) + rest
    shapes = [c for tot in range(1, (3 if quick else 4) + 1) for c in compositions(tot)]
    for shape in shapes:
        nitems = sum(shape) + 1
        for ret_tuples in (False, True):
            IDX = ListT_of_lists = T("build", lambda ctx, nm, shape=shape: PyList([PyList([z3.Int(ctx.fresh_name(f"{nm}_{gi}_{k}")) for k in range(sz)])
                                                                                   for gi, sz in enumerate(shape)]),
                                     gen=lambda rng, shape=shape, nitems=nitems: [[rng.randrange(nitems) for _ in range(sz)] for sz in shape])

            def in_range(a, nitems=nitems):
                idxs = [i for grp in (a.idx_partitions.items if isinstance(a.idx_partitions, PyList) else a.idx_partitions)
                        for i in (grp.items if isinstance(grp, PyList) else grp)]
                return And(*[And(i >= 0, i < nitems) for i in idxs], True)          # node indices, as every call site passes them

            def items_post(o, r, nn, ret_tuples=ret_tuples):
                parts = [list(grp.items if isinstance(grp, PyList) else grp) for grp in (o.idx_partitions.items if isinstance(o.idx_partitions, PyList) else o.idx_partitions)]
                items = list(o.items.items if isinstance(o.items, PyList) else o.items)
                outer = r.items if isinstance(r, PyList) else r
                if isinstance(r, (PyList, list)) == ret_tuples or len(outer) != len(parts):
                    return False
                cs = []
                for grp, idxs in zip(outer, parts):
                    inner = grp.items if isinstance(grp, PyList) else grp
                    if isinstance(grp, (PyList, list)) == ret_tuples or len(inner) != len(idxs):
                        return False
                    for x, i in zip(inner, idxs):
                        if isinstance(i, z3.ExprRef):
                            cs.append(And(*[Implies(Or(i == k, i == k - len(items)), x == items[k]) for k in range(len(items))], True))
                        else:
                            cs.append(x == items[i])
                return And(*cs, True)
            lab = f"groups{list(shape)}/{'tuples' if ret_tuples else 'lists'}"
            contracts.append(FnContract(wi, "items_partitions_from_idx_partitions", [
                Case(lab, {"items": ListT(Label, nitems), "idx_partitions": IDX, "return_tuples": T("const", ret_tuples)}, requires=in_range,
                     ensures=items_post, size_bounded=True, max_paths=3000)]))

    # compute_partition_indices: wireless shortcut / delegation (method != 'rlf')
    for n in range(1, NMAX + 1):
        wc = None

        def init_model(it, args, kw_, n=n):
            """PauliGroupingStrategy(observables, grouping_type=, graph_colourer=): the object of the contracts above (graph over all N observables)"""
            obj = args[0]
            obj.f["observables"] = args[1]
            obj.f["graph_colourer"], obj.f["grouping_type"] = "lf", "qwc"
            g = it.ctx.ghost["graph"]
            obj.f["complement_graph"] = g
            return None
        wc = mk_world(n, modular={"PauliGroupingStrategy.__init__": init_model})

        def cpi_ghost(ctx, a, n=n):
            g = tuple([z3.Int(ctx.fresh_name(f"colour{i}")) for i in range(n)] + [z3.Bool(ctx.fresh_name(f"adj{p}")) for p in pairs(n)])
            ctx.ghost["graph"] = g
            ctx.assume(proper(g, n) if n > 1 else z3.BoolVal(True))

        def cpi_post(o, r, nn, n=n):
            if not (isinstance(r, tuple) and all(isinstance(x, tuple) for x in r)):
                return False
            flat = [i for grp in r for i in grp]
            if not (sorted(flat) == list(range(n)) and all(len(grp) > 0 for grp in r)):
                return False
            if o.grouping_type != "anticommuting":
                return True
            # observables without wires commute with everything: under 'anticommuting' two of them never share a group
            obs = o.observables.items if isinstance(o.observables, PyList) else o.observables

            def wireless(i):
                w_ = obs[i].f["wires"] if isinstance(obs[i], Rec) else obs[i].wires
                return (z3.Length(w_.term) == 0) if isinstance(w_, SeqV) else (len(w_) == 0)
            if is_symbolic(obs) and not all(isinstance(wireless(i), bool) for i in range(n)):
                allw = And(*[wireless(i) for i in range(n)], True)
                return Implies(allw, all(len(grp) == 1 for grp in r))
            return (not all(wireless(i) for i in range(n))) or all(len(grp) == 1 for grp in r)

        wc.stub_realize["Obs"] = lambda f: qp.Identity() if not f.get("wires") else qp.Z(len(f["wires"]))
        contracts.append(FnContract(wc, "compute_partition_indices", [
            Case(f"N={n}-observables/{gt}/method=lf", {"observables": ListT(RecT("Obs"), n), "grouping_type": T("const", gt), "method": T("const", "lf")},
                 ghost=cpi_ghost, ensures=cpi_post, size_bounded=True) for gt in TYPES]))

    # _partition_coeffs: first-match loop; observables / partition members are abstract items with an identity class, coefficients distinct tokens
    wp = mk_world(1)
    CLS = z3.Function("pauli_word_class", LabelSort, z3.IntSort())
    wp.extra_builtins.update({
        "are_identical_pauli_words": lambda it, a, k: CLS(a[0]) == CLS(a[1]),
        "copy": lambda it, a, k: PyList(list(a[0].items)) if isinstance(a[0], PyList) else a[0],
        "qp.math.shape": lambda it, a, k: (len(a[0].items),),
        "qp.math.cast_like": lambda it, a, k: a[0],
        "qp.math.take": lambda it, a, k: PyList([it.index(a[0], i) for i in (a[1].items if isinstance(a[1], PyList) else a[1])]),
    })
    pc_shapes = [c for tot in range(1, (3 if quick else 4) + 1) for c in compositions(tot)]
    for shape in pc_shapes:
        n = sum(shape)
        PART = T("build", lambda ctx, nm, shape=shape: PyList([PyList([z3.Const(ctx.fresh_name(f"{nm}_{gi}_{k}"), LabelSort) for k in range(sz)])
                                                               for gi, sz in enumerate(shape)]), gen=None)

        def flat_part(a):
            return [x for grp in (a.partitioned_paulis.items if isinstance(a.partitioned_paulis, PyList) else a.partitioned_paulis)
                    for x in (grp.items if isinstance(grp, PyList) else grp)]

        def rearrangement(a, n=n):
            p, obs = flat_part(a), list(a.observables.items)
            cs = []
            for t in range(n):
                cnt_p = z3.Sum(*[z3.If(CLS(p[s]) == CLS(p[t]), 1, 0) for s in range(n)])
                cnt_o = z3.Sum(*[z3.If(CLS(obs[j]) == CLS(p[t]), 1, 0) for j in range(n)])
                cs.append(cnt_p == cnt_o)
            coeffs = list(a.coefficients.items)
            return And(*cs, z3.Distinct(*coeffs) if n > 1 else True)

        def coeff_post(o, r, nn, n=n, shape=shape):
            p, obs, coeffs = flat_part(o), list(o.observables.items), list(o.coefficients.items)
            outer = r.items if isinstance(r, PyList) else r
            if len(outer) != len(shape) or any(len(g.items if isinstance(g, PyList) else g) != sz for g, sz in zip(outer, shape)):
                return False
            flat = [x for g in outer for x in (g.items if isinstance(g, PyList) else g)]
            cs = [Or(*[And(flat[t] == coeffs[j], CLS(obs[j]) == CLS(p[t])) for j in range(n)]) for t in range(n)]
            if n > 1:
                cs.append(z3.Distinct(*flat))
            same_obs = And(*[x == y for x, y in zip(nn.observables.items, o.observables.items)], len(nn.observables.items) == n)
            return And(*cs, same_obs)
        def pc_gen(rng, m, n=n, shape=shape):
            """native instance: observables from a small pool (duplicates likely), partition = a rearrangement cut into the group shape"""
            rng = rng or random.Random(7)
            pool = [qp.X(0), qp.Z(0), qp.X(0) @ qp.Y(1), qp.Identity(1), qp.Y(1), qp.Z(0) @ qp.Z(1), qp.X(0) @ qp.Identity(1)]
            obs = [rng.choice(pool) for _ in range(n)]
            perm = list(range(n))
            rng.shuffle(perm)
            flat, parts, k = [obs[i] for i in perm], [], 0
            for sz in shape:
                parts.append(flat[k:k + sz])
                k += sz
            return dict(partitioned_paulis=parts, observables=obs, coefficients=[10.0 + i for i in range(n)])

        def coeff_post_any(o, r, nn, n=n, shape=shape, coeff_post=coeff_post):
            if is_symbolic(o.observables, o.coefficients):
                return coeff_post(o, r, nn)
            same = qp.pauli.are_identical_pauli_words
            flat_p = [x for grp in o.partitioned_paulis for x in grp]
            flat_r = [float(x) for grp in r for x in grp]
            if [len(grp) for grp in r] != list(shape) or sorted(flat_r) != sorted(float(c) for c in o.coefficients):
                return False
            return all(same(o.observables[o.coefficients.index(c)], w_) for c, w_ in zip(flat_r, flat_p)) and len(nn.observables) == n
        contracts.append(FnContract(wp, "_partition_coeffs", [
            Case(f"groups{list(shape)}", {"partitioned_paulis": T("build", PART.args[0], gen=lambda rng: None), "observables": ListT(Label, n),
                                          "coefficients": ListT(Label, n)},
                 requires=lambda a, f=rearrangement: f(a) if is_symbolic(a.observables) else True, ensures=coeff_post_any, size_bounded=True, max_paths=5000,
                 native_gen=pc_gen)]))

    for fc in contracts:
        for case in fc.cases:
            case.interp_cls = GInterp
        for ob, case in zip(obligations_for("C52", fc, tier, timeout=600), fc.cases):
            plan.add(with_standin(ob, fc, case, tries=400, budget_s=20))
        plan.fn_under_contract(FILE, fc.qualname)

    # =================================================================================================== (c) the real code, end to end
    def op_of(word, wires=(0, 1), wireless_identity=False):
        ops = [{"X": qp.X, "Y": qp.Y, "Z": qp.Z}[ch](w_) for ch, w_ in zip(word, wires) if ch != "I"]
        if not ops:
            return qp.Identity() if wireless_identity else qp.Identity(wires[0])
        return ops[0] if len(ops) == 1 else qp.prod(*ops)

    WORDS2 = ["".join(w_) for w_ in itertools.product(LETTERS, repeat=2)]
    POOL = [(w_, op_of(w_)) for w_ in WORDS2] + [("II", op_of("II", wireless_identity=True)), ("XY", qp.Y(1) @ qp.X(0)), ("ZI", qp.Z(0) @ qp.Identity(1))]

    def identical_is_equivalence():
        for (w1, o1), (w2, o2) in itertools.product(POOL, repeat=2):
            got = call(qp.pauli.are_identical_pauli_words, o1, o2)
            if got != ("ok", w1 == w2):
                return dict(inputs=[repr(o1), repr(o2)], observed=repr(got), expected=f"{w1 == w2}: identical Pauli words <=> equal letters on every wire")
        return None
    plan.add(native_ob("C52/utils:are_identical_pauli_words/all-pairs[<=2 wires]", identical_is_equivalence,
                       "are_identical_pauli_words is equality of the words (hence an equivalence relation): the abstraction used by the _partition_coeffs contract",
                       "_partition_coeffs", size_bounded=True))

    def graph_construction():
        for n in range(1, 5):
            for bits in itertools.product((0, 1), repeat=n * (n - 1) // 2):
                adj = np.zeros((n, n), dtype=bool)
                for (i, j), bv in zip(pairs(n), bits):
                    adj[i, j] = adj[j, i] = bool(bv)
                st = native_strategy(None, n)
                st.__dict__.pop("complement_graph", None)
                st.__dict__["adj_matrix"] = adj
                g = st.complement_graph
                edges = sorted(tuple(sorted(e)) for e in g.edge_list())
                if g.num_nodes() != n or list(g.node_indices()) != list(range(n)) or edges != sorted(p for p, bv in zip(pairs(n), bits) if bv):
                    return dict(inputs=adj.astype(int).tolist(), observed=dict(nodes=g.num_nodes(), edges=edges), expected="nodes 0..N-1 and exactly the adjacency edges")
                for strat in ("lf", "dsatur", "gis"):
                    col = GO.rx.graph_greedy_color(g, strategy=GO.RX_STRATEGIES[strat])
                    if sorted(col) != list(range(n)) or any(col[i] == col[j] for (i, j) in edges):
                        return dict(inputs=dict(adjacency=adj.astype(int).tolist(), strategy=strat), observed=dict(col), expected="a total proper colouring (assumed contract of rustworkx)")
        return None
    plan.add(native_ob("C52/group_observables:PauliGroupingStrategy.complement_graph/all-adjacencies[<=4 nodes]+rustworkx-contract", graph_construction,
                       "the graph handed to rustworkx has nodes 0..N-1 and exactly the adjacency edges; graph_greedy_color is total and proper on every such graph "
                       "(stand-in for the assumed contract)", "PauliGroupingStrategy.complement_graph", bounded=True))

    METHODS = ("lf", "rlf", "dsatur", "gis")

    def check_list(entries, only_wireless_anticommuting=False):
        """entries: [(word, operator)]; returns a failure dict or None.  The combination (grouping_type 'anticommuting', some observable
        without wires) is checked by its own obligation (only_wireless_anticommuting=True) and skipped here."""
        words = [w_ for w_, _ in entries]
        ops = [o for _, o in entries]
        k = len(ops)
        coeffs = [10.0 + i for i in range(k)]
        mixed_wireless = any(len(o.wires) == 0 for o in ops)
        for gtype, method in itertools.product(TYPES, METHODS):
            if (gtype == "anticommuting" and mixed_wireless) != only_wireless_anticommuting:
                continue
            inp = dict(observables=[repr(o) for o in ops], grouping_type=gtype, method=method)
            got = call(GO.group_observables, list(ops), list(coeffs), gtype, method)
            if got[0] != "ok" or len(got[1]) != 2:
                return dict(inputs=inp, observed=repr(got)[:300], expected="(groups, coefficient groups)")
            groups, cgroups = got[1]
            flat_ops = [o for grp in groups for o in grp]
            flat_c = [float(c) for grp in cgroups for c in grp]
            wof = lambda o: next((w_ for w_, o2 in POOL if qp.pauli.are_identical_pauli_words(o, o2)), None)
            gw = [[wof(o) for o in grp] for grp in groups]
            if sorted(w_ for grp in gw for w_ in grp) != sorted(words) or [len(g_) for g_ in groups] != [len(c_) for c_ in cgroups]:
                return dict(inputs=inp, observed=[[repr(o) for o in grp] for grp in groups], expected="every observable exactly once")
            if sorted(flat_c) != coeffs or any(words[int(c - 10)] != w_ for c, w_ in zip(flat_c, [w_ for grp in gw for w_ in grp])):
                return dict(inputs=inp, observed=dict(groups=gw, coefficients=[list(map(float, c_)) for c_ in cgroups]), expected="each coefficient next to an observable identical to its own")
            for grp in gw:
                for w1, w2 in itertools.combinations(grp, 2):
                    if not related(w1, w2, gtype):
                        return dict(inputs=inp, observed=gw, expected=f"members of a group pairwise {gtype} (exact matrices): {w1}, {w2} are not")
            only = call(GO.group_observables, list(ops), None, gtype, method)
            if only[0] != "ok" or [[wof(o) for o in grp] for grp in only[1]] != gw:
                return dict(inputs=inp, observed=repr(only)[:300], expected="the same groups without coefficients")
            got = call(GO.compute_partition_indices, list(ops), gtype, method)
            if got[0] != "ok" or sorted(i for grp in got[1] for i in grp) != list(range(k)) or not all(isinstance(grp, tuple) for grp in got[1]):
                return dict(inputs=inp, observed=repr(got)[:300], expected="a partition of the indices 0..k-1")
            for grp in got[1]:
                for i, j in itertools.combinations(grp, 2):
                    if not related(words[i], words[j], gtype):
                        return dict(inputs=inp, observed=repr(got[1]), expected=f"members of a group pairwise {gtype}: indices {i}, {j} are not")
        return None

    def e2e_complete():
        for k in (1, 2):
            for entries in itertools.product(POOL, repeat=k):
                bad = check_list(list(entries))
                if bad:
                    return bad
        return None
    plan.add(native_ob("C52/group_observables:group_observables+compute_partition_indices/all-lists[<=2 observables on <=2 wires]", e2e_complete,
                       "every list of <= 2 observables (16 words on 2 wires + wireless identity + reordered products), 3 grouping types x 4 methods: partition, pairwise "
                       "relation by exact matrices, coefficients travel", "group_observables", size_bounded=True, timeout=1500))
    plan.size_bounds.append("end-to-end: all lists of <= 2 observables over 19 operators on <= 2 wires; longer lists sampled")

    def e2e_wireless_anticommuting():
        for k in (2, 3):
            for entries in itertools.product(POOL, repeat=k):
                bad = check_list(list(entries), only_wireless_anticommuting=True)
                if bad:
                    return bad
        return None
    plan.add(native_ob("C52/group_observables:group_observables/anticommuting-with-wireless-observables", e2e_wireless_anticommuting,
                       "grouping_type 'anticommuting' with observables that have no wires (qp.Identity()): members of every group pairwise anticommute "
                       "(group_observables and compute_partition_indices)", "group_observables", size_bounded=True, timeout=1500))

    def e2e_sampled():
        rng = random.Random(seed)
        for _ in range(40 if quick else 400):
            bad = check_list([rng.choice(POOL) for _ in range(rng.randint(3, 7))])
            if bad:
                return bad
        return None
    plan.add(native_ob("C52/group_observables:group_observables+compute_partition_indices/sampled-lists[3..7 observables]", e2e_sampled,
                       "seeded random lists with duplicates and identities, all grouping types and methods", "group_observables", bounded=True, timeout=1500))
    plan.fn_under_contract(FILE, "group_observables")

    # =================================================================================================== (d) diagonalisation of qwc words / groups
    UFILE = "pennylane/pauli/utils.py"
    from vf.symx.ring import Poly

    def pmat(m):
        return poly_matrix(np.asarray(m))

    def pm_eq(A, B):
        return A.shape == B.shape and all((x - y).is_zero() for x, y in zip(A.flat, B.flat))

    def pm_dag(A):
        out = np.empty(A.shape[::-1], dtype=object)
        for (i, j), x in np.ndenumerate(A):
            out[j, i] = x.conj()
        return out
    REFP = {ch: poly_matrix({"I": G.I2, "X": G.X, "Y": G.Y, "Z": G.Z}[ch]) for ch in LETTERS}
    FACTORS = ["-", "I", "X", "Y", "Z", "XX", "ZZ", "IY"]           # per wire: absent / explicit identity / letter / cancelling or padded products

    def build(spec, wires):
        """operator with the given factor string per wire (in wire order) + the exact matrix it denotes on `wires`"""
        ops, mats = [], []
        for wr, f in zip(wires, spec):
            m = pm_eye(2)
            for ch in (f if f != "-" else ""):
                ops.append({"I": qp.Identity, "X": qp.X, "Y": qp.Y, "Z": qp.Z}[ch](wr))
                m = pm_matmul(m, REFP[ch])
            mats.append(m)
        full = pm_eye(1)
        for m in mats:
            full = pm_kron(full, m)
        op = ops[0] if len(ops) == 1 else qp.prod(*ops)
        effective = {wr: ("I" if f in ("-", "I", "XX", "ZZ") else f.replace("I", "")) for wr, f in zip(wires, spec)}
        return op, full, effective

    def gates_matrix(gates, wires):
        U = pm_eye(2 ** len(wires))
        for g in gates:
            if type(g).__name__ not in ("RX", "RY") or len(g.wires) != 1:
                raise ValueError(f"unexpected diagonalising gate {g}")
            U = pm_matmul(pmat(qp.matrix(g, wire_order=wires)), U)
        return U

    def diag_ok(D, P_eff, coeff, wires):
        """D is coeff times a word with Z exactly on the wires where P is not the identity, nothing but Z / Identity"""
        rep = D.pauli_rep
        if rep is None or len(rep) != 1:
            return "not a single Pauli word"
        (pw, c), = rep.items()
        want = {wr for wr, ch in P_eff.items() if ch != "I"}
        if any(v != "Z" for v in dict(pw).values()) or set(dict(pw)) != want:
            return f"diagonal word {dict(pw)}: expected Z exactly on {sorted(map(str, want))}"
        if complex(c) != complex(coeff):
            return f"coefficient {c} instead of {coeff}"
        return None

    def one_word(spec, wires, coeff=None):
        op, Pm, eff = build(spec, wires)
        if coeff is not None:
            op = coeff * op
            Pm = np.vectorize(lambda x: x * to_poly_const(coeff), otypes=[object])(Pm)
        inp = dict(operator=repr(op), wires=list(map(str, wires)))
        got = call(qp.pauli.diagonalize_pauli_word, op)
        if got[0] != "ok":
            return dict(inputs=inp, observed=repr(got), expected="a diagonal Pauli word")
        D = got[1]
        bad = diag_ok(D, eff, 1 if coeff is None else coeff, wires)
        if bad:
            return dict(inputs=inp, observed=f"{D!r}: {bad}", expected="Z exactly on the wires where the word is not the identity (same coefficient)")
        grp = call(qp.pauli.diagonalize_qwc_pauli_words, [op])
        if grp[0] != "ok" or len(grp[1]) != 2 or len(grp[1][1]) != 1:
            return dict(inputs=inp, observed=repr(grp)[:300], expected="(diagonalising gates, [diagonal word])")
        gates, (D2,) = grp[1]
        U = gates_matrix(gates, wires)
        lhs = pm_matmul(pm_matmul(U, Pm), pm_dag(U))
        for Dk in (D, D2):
            if not pm_eq(lhs, pmat(qp.matrix(Dk, wire_order=wires))):
                return dict(inputs=inp, observed=dict(gates=[repr(g) for g in gates], diagonal=repr(Dk)), expected="U . P . U^dagger == D exactly")
        return None

    def to_poly_const(c):
        from vf.symx.scalar import to_poly
        return to_poly(c)

    def diag_words():
        wires = [0, "a", 2]
        for spec in itertools.product(FACTORS, repeat=3):
            if all(f == "-" for f in spec):
                continue
            bad = one_word(spec, wires)
            if bad:
                return bad
        for spec in itertools.product(["-", "I", "X", "Y", "Z"], repeat=2):
            if all(f == "-" for f in spec):
                continue
            if all(f in ("-", "I") for f in spec):
                continue                                  # scalar multiples of the identity: their own obligation below
            for coeff in (2.0, -0.5):
                bad = one_word(spec, [1, 0], coeff)
                if bad:
                    return bad
        return None

    def diag_scaled_identity():
        for spec in (("I", "-"), ("I", "I"), ("-", "I")):
            for coeff in (2.0, -0.5):
                bad = one_word(spec, [1, 0], coeff)
                if bad:
                    return bad
        return None
    plan.add(native_ob("C52/utils:diagonalize_pauli_word/scalar-multiple-of-identity-keeps-its-coefficient", diag_scaled_identity,
                       "c * Identity is diagonalised to c * Identity (the member keeps its coefficient): U.P.U^dagger == D", "diagonalize_qwc_groupings", size_bounded=True))
    plan.add(native_ob("C52/utils:diagonalize_pauli_word+diagonalize_qwc_pauli_words/all-words[<=3 wires, explicit identities, cancelling factors]", diag_words,
                       "for every word on <= 3 wires (each wire: absent, explicit Identity, X, Y, Z, X.X, Z.Z, I.Y; also scalar multiples on 2 wires): D has Z exactly on "
                       "the non-identity wires with the same coefficient, and U.P.U^dagger == D exactly for the returned gates", "diagonalize_qwc_groupings",
                       size_bounded=True, timeout=1500))

    def diag_groups():
        wires = [0, 1]
        words = [sp for sp in itertools.product(["-", "I", "X", "Y", "Z"], repeat=2) if not all(f == "-" for f in sp)]
        for s1, s2 in itertools.product(words, repeat=2):
            (o1, m1, e1), (o2, m2, e2) = build(s1, wires), build(s2, wires)
            qwc = all(e1[w_] == e2[w_] or "I" in (e1[w_], e2[w_]) for w_ in wires)
            got = call(qp.pauli.diagonalize_qwc_pauli_words, [o1, o2])
            inp = dict(group=[repr(o1), repr(o2)])
            if not qwc:
                if got != ("raise", "ValueError"):
                    return dict(inputs=inp, observed=repr(got)[:300], expected="ValueError: the words are not qubit-wise commuting")
                continue
            if got[0] != "ok":
                return dict(inputs=inp, observed=repr(got), expected="(gates, diagonal words)")
            gates, Ds = got[1]
            U = gates_matrix(gates, wires)
            for Pm, eff, D in zip((m1, m2), (e1, e2), Ds):
                bad = diag_ok(D, eff, 1, wires)
                if bad or not pm_eq(pm_matmul(pm_matmul(U, Pm), pm_dag(U)), pmat(qp.matrix(D, wire_order=wires))):
                    return dict(inputs=inp, observed=dict(gates=[repr(g) for g in gates], diagonal=[repr(d) for d in Ds], problem=bad),
                                expected="one set of gates maps EVERY member to its diagonal word: U . P_i . U^dagger == D_i")
            gg = call(qp.pauli.diagonalize_qwc_groupings, [[o1, o2], [o2]])
            if gg[0] != "ok" or len(gg[1][0]) != 2 or [repr(d) for d in gg[1][1][0]] != [repr(d) for d in Ds]:
                return dict(inputs=inp, observed=repr(gg)[:300], expected="diagonalize_qwc_groupings applies diagonalize_qwc_pauli_words group by group")
        return None
    plan.add(native_ob("C52/utils:diagonalize_qwc_pauli_words+diagonalize_qwc_groupings/all-pairs[2 wires]", diag_groups,
                       "every pair of words on 2 wires (explicit identities included): qwc pairs are diagonalised by ONE gate set with U.P_i.U^dagger == D_i; other pairs raise ValueError",
                       "diagonalize_qwc_groupings", size_bounded=True, timeout=1500))
    plan.size_bounds.append("diagonalisation: every word on <= 3 wires with 8 factor shapes per wire; every pair of words on 2 wires")
    return plan
