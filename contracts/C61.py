"""C61 Optimizers apply their documented update rules (gradient optimizers).

The INDUCTIVE STEP is proved: from an arbitrary symbolic accumulator state, symbolic hyperparameters, two trainable and one
non-trainable argument and an uninterpreted gradient function, `step` / `step_and_cost` of the real optimizer return the
documented update (transcribed from the class docstrings) and leave the documented new accumulator; the first step
(accumulator None) separately.  Induction over steps then covers every history.
"""
import math
import random

import numpy as np
import sympy as sp
import pennylane as qp

from vf.common import Plan, Obligation, Outcome, DISCHARGED, REFUTED, UNDECIDED, FAULT
from vf.symx.sscalar import SS, is_zero_expr
from vf.symx.ring import Unsupported

x, c, y = sp.symbols("x c y", real=True)
eta, mom, decay, b1, b2, eps = sp.symbols("eta m gamma beta1 beta2 epsilon", positive=True)
A1, A2 = sp.symbols("a1 a2", real=True)
V1, V2 = sp.symbols("v1 v2", positive=True)
t = sp.Symbol("t", integer=True, positive=True)
G1, G2, F = sp.Function("G1"), sp.Function("G2"), sp.Function("F")


# ---- documented update rules (class docstrings), per trainable coordinate -----------------------------------------------------
def ref_gd(state, g, xs):
    return [xi - eta * gi for xi, gi in zip(xs, g)], state


def ref_momentum(state, g, xs):
    a = [mom * ai + eta * gi for ai, gi in zip(state, g)]
    return [xi - ai for xi, ai in zip(xs, a)], a


def ref_adagrad(state, g, xs):
    a = [ai + gi ** 2 for ai, gi in zip(state, g)]
    return [xi - eta / sp.sqrt(ai + eps) * gi for xi, ai, gi in zip(xs, a, g)], a


def ref_rmsprop(state, g, xs):
    a = [decay * ai + (1 - decay) * gi ** 2 for ai, gi in zip(state, g)]
    return [xi - eta / sp.sqrt(ai + eps) * gi for xi, ai, gi in zip(xs, a, g)], a


def ref_adam(state, g, xs):
    fm, sm, tt = state
    tt = tt + 1
    a = [b1 * ai + (1 - b1) * gi for ai, gi in zip(fm, g)]
    b = [b2 * bi + (1 - b2) * gi ** 2 for bi, gi in zip(sm, g)]
    eta_t = eta * sp.sqrt(1 - b2 ** tt) / (1 - b1 ** tt)
    return [xi - eta_t * ai / (sp.sqrt(bi) + eps) for xi, ai, bi in zip(xs, a, b)], (a, b, tt)


def configs():
    """(name, make optimizer with prior state, state extractor, reference, gradient evaluation point)"""
    out = []

    def mk_gd(first):
        return qp.GradientDescentOptimizer(stepsize=SS(eta))
    out.append(("GradientDescent", mk_gd, lambda o: None, lambda st, g, xs: ref_gd(st, g, xs), None, [False]))

    def mk_mom(cls):
        def mk(first):
            o = cls(stepsize=SS(eta), momentum=SS(mom))
            if not first:
                o.accumulation = [SS(A1), 0.0, SS(A2)]
            return o
        return mk
    out.append(("Momentum", mk_mom(qp.MomentumOptimizer), lambda o: [o.accumulation[0], o.accumulation[2]], ref_momentum,
                "plain", [False, True]))
    out.append(("NesterovMomentum", mk_mom(qp.NesterovMomentumOptimizer), lambda o: [o.accumulation[0], o.accumulation[2]],
                ref_momentum, "nesterov", [False, True]))

    def mk_ada(first):
        o = qp.AdagradOptimizer(stepsize=SS(eta), eps=SS(eps))
        if not first:
            o.accumulation = [SS(V1), 0.0, SS(V2)]
        return o
    out.append(("Adagrad", mk_ada, lambda o: [o.accumulation[0], o.accumulation[2]], ref_adagrad, "plain", [False, True]))

    def mk_rms(first):
        o = qp.RMSPropOptimizer(stepsize=SS(eta), decay=SS(decay), eps=SS(eps))
        if not first:
            o.accumulation = [SS(V1), 0.0, SS(V2)]
        return o
    out.append(("RMSProp", mk_rms, lambda o: [o.accumulation[0], o.accumulation[2]], ref_rmsprop, "plain", [False, True]))

    def mk_adam(first):
        o = qp.AdamOptimizer(stepsize=SS(eta), beta1=SS(b1), beta2=SS(b2), eps=SS(eps))
        if not first:
            o.accumulation = {"fm": [SS(A1), 0, SS(A2)], "sm": [SS(V1), 0, SS(V2)], "t": t}
        return o
    out.append(("Adam", mk_adam, lambda o: (o.accumulation["fm"][0], o.accumulation["fm"][2], o.accumulation["sm"][0],
                                            o.accumulation["sm"][2], o.accumulation["t"]), ref_adam, "adam", [False, True]))
    return out


def E(v):
    if isinstance(v, SS):
        return v.e
    if isinstance(v, float):
        return sp.nsimplify(v, rational=True)
    return sp.sympify(v)


def run_symbolic(name, mk, state_of, ref, kind, first, method):
    """returns list of (label, traced expr, reference expr)"""
    opt = mk(first)
    args = (SS(x), 3.0, SS(y))            # trainable, non-trainable (plain float), trainable
    calls = []

    def grad_fn(*a, **k):
        pts = [E(v) for v in a]
        calls.append(pts)
        return (SS(G1(*pts)), SS(G2(*pts)))

    def objective(*a, **k):
        return SS(F(*[E(v) for v in a]))
    if method == "step":
        new = opt.step(objective, *args, grad_fn=grad_fn)
        fwd = None
    else:
        new, fwd = opt.step_and_cost(objective, *args, grad_fn=grad_fn)
    # prior state in reference form
    zero = sp.Integer(0)
    if name == "GradientDescent":
        st0 = None
    elif name == "Adam":
        st0 = ([zero, zero], [zero, zero], zero) if first else ([A1, A2], [V1, V2], t)
    elif name in ("Adagrad", "RMSProp"):
        st0 = [zero, zero] if first else [V1, V2]
    else:
        st0 = [zero, zero] if first else [A1, A2]
    # where the gradient must have been evaluated
    if name == "NesterovMomentum" and not first:
        pt = [x - mom * A1, sp.Integer(3), y - mom * A2]
    else:
        pt = [x, sp.Integer(3), y]
    pairs = [("gradient evaluated once", sp.Integer(len(calls)), sp.Integer(1))]
    for i, (got, want) in enumerate(zip(calls[0] if calls else [], pt)):
        pairs.append((f"gradient evaluation point arg{i}", got, want))
    g = [G1(*pt), G2(*pt)]
    new_ref, st_ref = ref(st0, g, [x, y])
    pairs.append(("new arg0 (trainable)", E(new[0]), new_ref[0]))
    pairs.append(("new arg1 (non-trainable unchanged)", E(new[1]), sp.Integer(3)))
    pairs.append(("new arg2 (trainable)", E(new[2]), new_ref[1]))
    if name != "GradientDescent":
        got = state_of(opt)
        if name == "Adam":
            a, b, tt = st_ref
            want = (a[0], a[1], b[0], b[1], tt)
        else:
            want = st_ref
        for i, (gv, wv) in enumerate(zip(got, want)):
            pairs.append((f"accumulator component {i}", E(gv), wv))
    if method == "step_and_cost":
        pairs.append(("returned cost is the objective at the PRE-step arguments", E(fwd), F(x, sp.Integer(3), y)))
    return pairs


def numeric_check(pairs, rng, n=30):
    """look for a float point where traced and reference differ"""
    syms = sorted({s for _, a, b in pairs for s in (sp.sympify(a) - sp.sympify(b)).free_symbols}, key=str)
    fm = {G1: lambda *a: math.sin(a[0]) * a[1] + a[2] ** 2, G2: lambda *a: a[0] * a[2] - a[1], F: lambda *a: a[0] ** 2 + a[1] * a[2]}
    for _ in range(n):
        env = {s: (rng.randint(1, 9) if s == t else rng.uniform(0.1, 0.9)) for s in syms}
        for label, a, b in pairs:
            d = (sp.sympify(a) - sp.sympify(b)).subs(env)
            d = d.replace(G1, lambda *a_: sp.Float(fm[G1](*[float(v) for v in a_])))
            d = d.replace(G2, lambda *a_: sp.Float(fm[G2](*[float(v) for v in a_])))
            d = d.replace(F, lambda *a_: sp.Float(fm[F](*[float(v) for v in a_])))
            try:
                val = complex(sp.N(d))
            except Exception:  # pylint: disable=broad-except
                continue
            if abs(val) > 1e-9:
                return label, {str(k): float(v) for k, v in env.items()}, abs(val)
    return None


def native_replay(name, first, method, env):
    """the REAL optimizer with floats at the witness point against the documented formulas evaluated with floats"""
    ev = lambda s: env.get(str(s), 0.5)
    hp = dict(eta=ev(eta), m=ev(mom), gamma=ev(decay), beta1=ev(b1), beta2=ev(b2), epsilon=ev(eps))
    f = lambda a, b_, c_: a ** 2 + b_ * c_
    g1 = lambda a, b_, c_: math.sin(a) * b_ + c_ ** 2
    g2 = lambda a, b_, c_: a * c_ - b_
    from pennylane import numpy as pnp
    xa, ya = pnp.array(ev(x), requires_grad=True), pnp.array(ev(y), requires_grad=True)
    cls = {"GradientDescent": qp.GradientDescentOptimizer, "Momentum": qp.MomentumOptimizer, "NesterovMomentum": qp.NesterovMomentumOptimizer,
           "Adagrad": qp.AdagradOptimizer, "RMSProp": qp.RMSPropOptimizer, "Adam": qp.AdamOptimizer}[name]
    kw = dict(stepsize=hp["eta"])
    if name in ("Momentum", "NesterovMomentum"):
        kw["momentum"] = hp["m"]
    if name == "RMSProp":
        kw.update(decay=hp["gamma"], eps=hp["epsilon"])
    if name == "Adagrad":
        kw["eps"] = hp["epsilon"]
    if name == "Adam":
        kw.update(beta1=hp["beta1"], beta2=hp["beta2"], eps=hp["epsilon"])
    opt = cls(**kw)
    a1, a2, v1, v2, tt = ev(A1), ev(A2), ev(V1), ev(V2), int(env.get("t", 3))
    if not first:
        if name in ("Momentum", "NesterovMomentum"):
            opt.accumulation = [a1, 0.0, a2]
        elif name in ("Adagrad", "RMSProp"):
            opt.accumulation = [v1, 0.0, v2]
        elif name == "Adam":
            opt.accumulation = {"fm": [a1, 0, a2], "sm": [v1, 0, v2], "t": tt}
    gf = lambda a, b_, c_: (g1(float(a), float(b_), float(c_)), g2(float(a), float(b_), float(c_)))
    if method == "step":
        new = opt.step(f, xa, 3.0, ya, grad_fn=gf)
        fwd = None
    else:
        new, fwd = opt.step_and_cost(f, xa, 3.0, ya, grad_fn=gf)
    # documented formulas with floats
    X, Y = ev(x), ev(y)
    px, py = (X - hp["m"] * a1, Y - hp["m"] * a2) if (name == "NesterovMomentum" and not first) else (X, Y)
    G = [g1(px, 3.0, py), g2(px, 3.0, py)]
    if first:
        a1 = a2 = v1 = v2 = 0.0
        tt = 0
    if name == "GradientDescent":
        want = [X - hp["eta"] * G[0], Y - hp["eta"] * G[1]]
    elif name in ("Momentum", "NesterovMomentum"):
        acc = [hp["m"] * a1 + hp["eta"] * G[0], hp["m"] * a2 + hp["eta"] * G[1]]
        want = [X - acc[0], Y - acc[1]]
    elif name == "Adagrad":
        acc = [v1 + G[0] ** 2, v2 + G[1] ** 2]
        want = [X - hp["eta"] / math.sqrt(acc[0] + hp["epsilon"]) * G[0], Y - hp["eta"] / math.sqrt(acc[1] + hp["epsilon"]) * G[1]]
    elif name == "RMSProp":
        acc = [hp["gamma"] * v1 + (1 - hp["gamma"]) * G[0] ** 2, hp["gamma"] * v2 + (1 - hp["gamma"]) * G[1] ** 2]
        want = [X - hp["eta"] / math.sqrt(acc[0] + hp["epsilon"]) * G[0], Y - hp["eta"] / math.sqrt(acc[1] + hp["epsilon"]) * G[1]]
    else:
        tt += 1
        fm_ = [hp["beta1"] * a1 + (1 - hp["beta1"]) * G[0], hp["beta1"] * a2 + (1 - hp["beta1"]) * G[1]]
        sm_ = [hp["beta2"] * v1 + (1 - hp["beta2"]) * G[0] ** 2, hp["beta2"] * v2 + (1 - hp["beta2"]) * G[1] ** 2]
        et = hp["eta"] * math.sqrt(1 - hp["beta2"] ** tt) / (1 - hp["beta1"] ** tt)
        want = [X - et * fm_[0] / (math.sqrt(sm_[0]) + hp["epsilon"]), Y - et * fm_[1] / (math.sqrt(sm_[1]) + hp["epsilon"])]
    got = [float(new[0]), float(new[2])]
    err = max(abs(got[0] - want[0]), abs(got[1] - want[1]), abs(float(new[1]) - 3.0))
    if fwd is not None:
        err = max(err, abs(float(fwd) - f(X, 3.0, Y)))
    return dict(confirmed=bool(err > 1e-9), max_abs_err=err, observed=got + ([float(fwd)] if fwd is not None else []),
                expected=want + ([f(X, 3.0, Y)] if fwd is not None else []), point={k: float(v) for k, v in env.items()})


def make_ob(name, mk, state_of, ref, kind, first, method, seed):
    label = f"C61/{name}.{method}/{'first-step' if first else 'inductive-step'}/post"
    file = {"GradientDescent": "gradient_descent", "Momentum": "momentum", "NesterovMomentum": "nesterov_momentum",
            "Adagrad": "adagrad", "RMSProp": "rms_prop", "Adam": "adam"}[name]
    cls = {"GradientDescent": "GradientDescentOptimizer", "Momentum": "MomentumOptimizer", "NesterovMomentum": "NesterovMomentumOptimizer",
           "Adagrad": "AdagradOptimizer", "RMSProp": "RMSPropOptimizer", "Adam": "AdamOptimizer"}[name]

    def replay(w):
        return native_replay(name, first, method, (w or {}).get("point") or {})

    def fn():
        rng = random.Random(seed * 1000 + hash(label) % 997)
        try:
            pairs = run_symbolic(name, mk, state_of, ref, kind, first, method)
        except Unsupported as ex:
            return Outcome(UNDECIDED, "trace", f"trace left the fragment: {ex}")
        bad = [(l, a, b) for l, a, b in pairs if not is_zero_expr(sp.sympify(a) - sp.sympify(b))]
        if not bad:
            return Outcome(DISCHARGED, "sympy-rational-normal-form", f"{len(pairs)} components identical (sqrt and symbolic powers as atoms)",
                           extra=dict(sub_obligations=len(pairs)))
        wit = numeric_check(bad, rng)
        if wit is None:
            return Outcome(UNDECIDED, "sympy", "expressions not syntactically identical but no numeric difference found: " +
                           "; ".join(f"{l}: {sp.simplify(sp.sympify(a) - sp.sympify(b))}"[:200] for l, a, b in bad[:2]))
        l, env, err = wit
        rp = native_replay(name, first, method, env)
        return Outcome(REFUTED, "sympy-rational-normal-form", f"component `{l}` differs from the documented rule (|diff|={err:.3g})",
                       witness=dict(point=env, component=l), replay=rp)
    return Obligation(label, "post", fn, func=(f"pennylane/optimize/{file}.py", f"{cls}.apply_grad"), replay=replay, timeout=300,
                      sample="new parameters, new accumulator, gradient evaluation point and returned cost equal the documented rule")


def rotosolve_obligations(tier):
    """E1 contract on RotosolveOptimizer.min_analytic: the returned position is the closed-form point u = -pi/(2f) - B/f or
    u + one PERIOD (2*pi/f) of the objective, and lies in (-pi/f, pi/f]; the returned value is C - A."""
    import z3
    from vf.pyvc.engine import World, T, Float, FloatV, real_of
    from vf.pyvc.contract import FnContract, Case, obligations_for
    from vf.pyvc.spec import And, Or
    PI = z3.Real("pi")
    ATAN2 = z3.Function("arctan2", z3.RealSort(), z3.RealSort(), z3.RealSort())
    SQRT = z3.Function("sqrt", z3.RealSort(), z3.RealSort())

    def b_atan2(it, args, kw):
        y, x_ = real_of(args[0]), real_of(args[1])
        r = ATAN2(y, x_)
        it.ctx.assume(z3.And(r >= -PI, r <= PI))          # assumed contract of numpy.arctan2: result in [-pi, pi]
        return FloatV(r)

    def b_sqrt(it, args, kw):
        a = real_of(args[0])
        r = SQRT(a)
        it.ctx.assume(z3.Implies(a >= 0, z3.And(r >= 0, r * r == a)))
        return FloatV(r)
    w = World("pennylane/optimize/rotosolve.py", classes={"RotosolveOptimizer": {}},
              extra_builtins={"np.arctan2": b_atan2, "np.sqrt": b_sqrt})
    w.module_values = {"np.pi": FloatV(PI)}

    def ghost(ctx, a):
        ctx.assume(z3.And(PI > z3.RealVal("3.14"), PI < z3.RealVal("3.15")))

    def post(o, r, n):
        if isinstance(o.freq, float):
            # native (replay) form: the returned position minimises the single-frequency objective and lies in (-pi/f, pi/f]
            F_ = o.objective_fn
            x_min, y_min = float(r[0]), float(r[1])
            grid_min = min(F_(-math.pi / o.freq + k * 2 * math.pi / o.freq / 2000) for k in range(2001))
            return abs(F_(x_min) - grid_min) < 1e-5 and abs(y_min - grid_min) < 1e-5 and -math.pi / o.freq < x_min <= math.pi / o.freq + 1e-12
        f = o.freq.t
        F = o.objective_fn
        f0 = o.f0.t
        shift = PI / (2 * f)
        fp, fm = F(shift), F(-shift)
        B = ATAN2(2 * f0 - fp - fm, fp - fm)
        u = -shift - B / f
        period = 2 * PI / f
        x_min, y_min = r[0].t, r[1].t
        C = (fp + fm) / 2
        return And(Or(x_min == u, x_min == u + period), x_min > -PI / f, x_min <= PI / f,
                   y_min == C - SQRT((f0 - C) * (f0 - C) + (fp - fm) * (fp - fm) / 4))
    def native_gen(rng, m):
        """replay / search: a concrete single-frequency objective A*cos(f*x - phi) + C (the function class of the property)"""
        import random as _r
        rr = rng or _r.Random(12345)
        f = rr.choice([0.5, 1.0, 1.5, 2.0, 0.75])
        A, phi, C = rr.uniform(0.2, 2.0), rr.uniform(-3.1, 3.1), rr.uniform(-1, 1)
        fn = lambda x_, A=A, f=f, phi=phi, C=C: A * math.cos(f * x_ - phi) + C
        return dict(objective_fn=fn, freq=f, f0=fn(0.0))
    fc = FnContract(w, "RotosolveOptimizer.min_analytic", [
        Case("f0 given", {"objective_fn": T("ufunc", "objective"), "freq": Float, "f0": Float},
             requires=lambda a: (a.freq > 0) if isinstance(a.freq, float) else (a.freq.t > 0), ghost=ghost, ensures=post,
             native_gen=native_gen)])
    return obligations_for("C61", fc, tier), ("pennylane/optimize/rotosolve.py", "RotosolveOptimizer.min_analytic")


def build(tier, seed):
    plan = Plan("C61", level="proof")
    plan.explanation = ("The real step/step_and_cost run on symbolic scalars from an ARBITRARY accumulator state with an uninterpreted "
                        "gradient function; every output component is compared with the documented rule as a rational function "
                        "(sqrt terms and symbolic powers treated as atoms). Induction over steps covers every history.")
    plan.trusted_base = ["vf/symx/sscalar.py (sympy-backed scalar)", "sympy together/expand", "transcription of the docstring formulas"]
    plan.assumptions = ["A-float-as-real", "gradient supplied through grad_fn (autograd itself not verified)",
                        "two trainable + one non-trainable scalar argument (the update is coordinate-wise)"]
    plan.unverified = ["QNG, QNSPSA, SPSA, Rotosolve, Rotoselect, ShotAdaptive, Riemannian optimizers", "array-valued arguments"]
    for name, mk, state_of, ref, kind, firsts in configs():
        file = {"GradientDescent": "gradient_descent", "Momentum": "momentum", "NesterovMomentum": "nesterov_momentum",
                "Adagrad": "adagrad", "RMSProp": "rms_prop", "Adam": "adam"}[name]
        for first in firsts:
            for method in ("step", "step_and_cost"):
                ob = make_ob(name, mk, state_of, ref, kind, first, method, seed)
                plan.add(ob)
                plan.fn_under_contract(*ob.func)
    try:
        obs, fn_ = rotosolve_obligations(tier)
        for ob in obs:
            plan.add(ob)
        plan.fn_under_contract(*fn_)
        plan.assumed_contracts.append("numpy.arctan2 returns a value in [-pi, pi]; numpy.sqrt(a)^2 == a for a >= 0 (Rotosolve.min_analytic)")
    except Exception as ex:  # pylint: disable=broad-except
        plan.notes["rotosolve_contract_error"] = repr(ex)
    plan.fn_under_contract("pennylane/optimize/gradient_descent.py", "GradientDescentOptimizer.step")
    plan.fn_under_contract("pennylane/optimize/gradient_descent.py", "GradientDescentOptimizer.step_and_cost")
    plan.fn_under_contract("pennylane/optimize/gradient_descent.py", "GradientDescentOptimizer.compute_grad")
    plan.fn_under_contract("pennylane/optimize/nesterov_momentum.py", "NesterovMomentumOptimizer.compute_grad")
    return plan
