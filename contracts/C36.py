"""C36 Finite-difference coefficients are exact on polynomials of the promised degree.

Part 1 (all n >= 1, approx_order >= 1, symbolic): the real body of gradients/finite_difference.py:finite_diff_coeffs is executed up to
its call of linalg_solve with numpy modelled abstractly (np.arange = an interval of consecutive numbers, `shifts ** arange(len).reshape(-1,1)`
= the Vandermonde matrix of the shifts, zeros_like + one item assignment = the right-hand side).  Proved from the code: the
argument checks, the number of shifts (n + approx_order for forward / backward and for odd n centred, n + approx_order - 1 for
even n centred), the strategy-specific range of consecutive integers containing 0, A[k, i] = s_i**k for k = 0..N-1, b = n! * e_n with
n inside the vector.  With the ASSUMED contract of scipy.linalg.solve (A @ c == b; a Vandermonde matrix with distinct nodes is
non-singular) the moment conditions  sum_i c_i * s_i**k == n! * [k == n]  (k < N) hold, i.e. exactness on polynomials of degree < N.
For even n in the centred strategy one more order follows from the symmetry of the nodes (lemma stated, checked concretely in part 2).

Part 2 (size-bounded, exact): for every n <= 4, approx_order <= 6 and strategy the REAL function is run; the Vandermonde system is
solved independently in exact rational arithmetic; the returned [coefficients; shifts] array must consist of exactly the columns of
the exact solution except the (coefficient 0, shift 0) column, ordered by |shift|, each coefficient within 1e-9 * max|c| (normwise error of the float solve); and the exact
solution satisfies the moment conditions for every k < n + approx_order (exactness on all polynomials of degree < n + approx_order).

Part 3 (history independence; "for EVERY call" of the property): finite_diff_coeffs is memoised (functools.cache) and hands the SAME numpy
array to every caller, so the property holds for a later call only if no earlier caller wrote into that array.  (a) FRAME obligations
(vf/frame/npalias.py, a numpy-aware instance of the may-alias analysis of C18): every in-repo function that calls finite_diff_coeffs is
enumerated from the ASTs on every run; each of its write sites (item / attribute assignment, `x op= v` on a name, in-place methods,
out= arguments, np.copyto/put/..., callee summaries, nested functions included) must not target the returned array or anything that may
be a view of it (rows from unpacking, slices, convert_like/asarray/reshape results).  (b) bounded native stand-ins: the real finite_diff,
spsa_grad (num_directions 1..3) and finite_diff_jvp are run, post-processing included, for every small (n, approx_order, strategy);
afterwards the memoised finite_diff_coeffs (keyword and positional call form) must still equal the recomputed stencil.
"""
import importlib
import math
from fractions import Fraction

import z3

from vf.common import Plan, Obligation, Outcome, DISCHARGED, REFUTED, UNDECIDED, FAULT, REPO
from vf.pyvc.engine import World, T, Int, Model, FloatV, Unsupp, RaiseExc, to_int_term, real_of, is_intlike
from vf.pyvc.contract import FnContract, Case, obligations_for
from vf.pyvc import spec as S
from vf.pyvc.spec import And, Or, Not

PID = "C36"
FD = "pennylane/gradients/finite_difference.py"
FMOD = "pennylane.gradients.finite_difference"
FACT = z3.Function("factorial", z3.IntSort(), z3.IntSort())


# ---------------------------------------------------------------------------------------------- abstract numpy values
class Arange(Model):
    """np.arange(lo, hi): the numbers lo, lo+1, ... below hi (lo, hi real terms); ASSUMED numpy contract: consecutive, distinct"""

    def __init__(self, lo, hi):
        self.lo, self.hi = lo, hi
        outer = self

        class _Reshape(Model):
            def vf_call(self, it, args, kw):
                if list(args) != [-1, 1]:
                    raise Unsupp("reshape of an arange to another shape")
                return Column(outer)
        self.reshape = _Reshape()

    def length(self):
        d = self.hi - self.lo
        return z3.If(d > 0, -z3.ToInt(-d), z3.IntVal(0))          # ceil(hi - lo)

    def vf_binop(self, it, name, other, swapped, node):
        if name == "pow" and not swapped and isinstance(other, Column):
            return Vander(self, other.of)          # shifts ** exponents[:, None]: entry [k, i] = shifts[i] ** exponents[k]
        raise Unsupp(f"operation {name} on an arange")


class Column(Model):
    def __init__(self, of):
        self.of = of


class Vander(Model):
    def __init__(self, nodes, exps):
        self.nodes, self.exps = nodes, exps


class ZVec(Model):
    """np.zeros_like(v) with item assignments"""

    def __init__(self, like):
        self.like, self.entries = like, []

    def vf_setitem(self, it, idx, v):
        n, i = self.like.length(), to_int_term(idx)
        if not it.ctx.branch(z3.And(i >= -n, i < n)):
            raise RaiseExc("IndexError")
        self.entries.append((z3.If(i < 0, i + n, i), v))


class StopAtSolve(Exception):
    pass


# ---------------------------------------------------------------------------------------------- exact reference (part 2)
def spec_shifts(n, order, strategy):
    """the nodes the documentation promises (independent of the code)"""
    if strategy == "forward":
        return list(range(0, n + order))
    if strategy == "backward":
        return list(range(-(n + order) + 1, 1))
    count = n + order if n % 2 == 1 else n + order - 1          # centred: symmetric around 0
    half = (count - 1) // 2
    return list(range(-half, half + 1))


def solve_exact(nodes, n):
    """c with  sum_i c_i * s_i**k == n! * [k == n]  for k < len(nodes): Gauss-Jordan elimination over the rationals"""
    N = len(nodes)
    M = [[Fraction(s) ** k for s in nodes] + [Fraction(math.factorial(n) if k == n else 0)] for k in range(N)]
    for col in range(N):
        piv = next(r for r in range(col, N) if M[r][col] != 0)
        M[col], M[piv] = M[piv], M[col]
        M[col] = [x / M[col][col] for x in M[col]]
        for r in range(N):
            if r != col and M[r][col] != 0:
                M[r] = [x - M[r][col] * y for x, y in zip(M[r], M[col])]
    return [M[i][N] for i in range(N)]


def exact_obligation(n, order, strategy):
    name = f"{PID}/finite_difference:finite_diff_coeffs/exact n={n} approx_order={order} {strategy}"

    def fn():
        mod = importlib.import_module(FMOD)
        nodes = spec_shifts(n, order, strategy)
        c = solve_exact(nodes, n)
        inputs = dict(n=n, approx_order=order, strategy=strategy)
        # the exact solution is exact on every polynomial of degree < n + approx_order (for even n centred this is one order more than
        # the system enforces: the symmetry lemma, checked here)
        for k in range(n + order):
            if sum(ci * Fraction(s) ** k for ci, s in zip(c, nodes)) != (math.factorial(n) if k == n else 0):
                return Outcome(FAULT, "exact-rational", f"reference solution violates the moment condition k={k}: specification error")
        try:
            out = mod.finite_diff_coeffs(n, order, strategy)
        except Exception as ex:  # pylint: disable=broad-except
            return Outcome(REFUTED, "exact-rational", f"raised {type(ex).__name__}: {ex}", witness=inputs,
                           replay=dict(confirmed=True, observed=f"raised {type(ex).__name__}", inputs=inputs))
        got = [(float(out[0][j]), float(out[1][j])) for j in range(out.shape[1])]
        want = [(ci, s) for ci, s in zip(c, nodes) if not (ci == 0 and s == 0)]
        problems = []
        if out.shape[0] != 2 or len(got) != len(want):
            problems.append(f"{len(got)} columns, expected {len(want)}")
        if any(abs(a[1]) > abs(b[1]) for a, b in zip(got, got[1:])):
            problems.append("columns not ordered by |shift|")
        by_shift = {float(s): ci for ci, s in want}
        scale = max([Fraction(1)] + [abs(ci) for ci in c])
        for cf, sh in got:
            if sh not in by_shift:
                problems.append(f"unexpected shift {sh}")
            elif abs(Fraction(cf) - by_shift[sh]) > Fraction(1, 10 ** 9) * scale:      # normwise relative 1e-9 (float linear solve)
                problems.append(f"coefficient at shift {sh}: {cf} vs exact {by_shift[sh]}")
        if len({sh for _, sh in got}) != len(got):
            problems.append("repeated shift")
        if problems:
            return Outcome(REFUTED, "exact-rational", "; ".join(problems[:4]), witness=inputs,
                           replay=dict(confirmed=True, observed=[list(x) for x in got], expected=[[str(ci), s] for ci, s in want], inputs=inputs))
        return Outcome(DISCHARGED, "exact-rational", f"{len(got)} columns equal the exact rational solution to 1e-9; moments exact for k < {n + order}")
    return Obligation(name, "exact", fn, func=(FD, "finite_diff_coeffs"), size_bounded=True, timeout=400,
                      sample="real output vs exact rational solution of the Vandermonde system")


# ---------------------------------------------------------------------------------------------- part 3: history independence
PRODUCER = "finite_diff_coeffs"
GRID = [(n, order, st) for n in (1, 2) for order in (1, 2) for st in ("forward", "backward", "center") if not (st == "center" and order % 2)]


def is_memoised():
    """does the real finite_diff_coeffs carry a memoising decorator (functools.cache / lru_cache / cached ...)? read from the AST"""
    import ast
    tree = ast.parse(open(f"{REPO}/{FD}").read())
    fn = next(n for n in tree.body if isinstance(n, ast.FunctionDef) and n.name == PRODUCER)
    return any("cache" in ast.unparse(d) for d in fn.decorator_list), [ast.unparse(d) for d in fn.decorator_list]


def stencil_state(mod):
    """compare what the (memoised) finite_diff_coeffs returns NOW, in both call forms, with a recomputation by the undecorated body
    (or, without __wrapped__, with the independent exact rational solution): -> list of discrepancies"""
    import numpy as np
    fdc = mod.finite_diff_coeffs
    raw = getattr(fdc, "__wrapped__", None)
    bad = []
    for n, order, st in GRID:
        for form, got in (("keyword", fdc(n=n, approx_order=order, strategy=st)), ("positional", fdc(n, order, st))):
            got = np.asarray(got, dtype=float)
            if raw is not None:
                want = np.asarray(raw(n, order, st), dtype=float)
                same = got.shape == want.shape and bool(np.array_equal(got, want))
            else:
                nodes = spec_shifts(n, order, st)
                exact = {float(s_): float(c_) for c_, s_ in zip(solve_exact(nodes, n), nodes) if not (c_ == 0 and s_ == 0)}
                want = np.array([[exact[k] for k in sorted(exact, key=abs)], sorted(exact, key=abs)])
                same = got.shape == want.shape and bool(np.allclose(got[0], [exact.get(float(x), np.nan) for x in got[1]], rtol=1e-9, atol=1e-12))
            if not same:
                bad.append(dict(n=n, approx_order=order, strategy=st, call_form=form, returned=got.tolist(), recomputed=want.tolist()))
    return bad


def _tapes():
    import pennylane as qp
    t1 = qp.tape.QuantumScript([qp.RX(0.3, 0), qp.RY(-0.7, 1), qp.CNOT([0, 1])], [qp.expval(qp.Z(0) @ qp.Z(1))])
    t2 = qp.tape.QuantumScript([qp.RX(0.3, 0), qp.RY(-0.7, 1), qp.CNOT([0, 1])], [qp.expval(qp.Z(0)), qp.probs(wires=[1])])
    t3 = qp.tape.QuantumScript([qp.RX(0.4, 0)], [qp.expval(qp.Z(0))], shots=(50, 60))
    return [("1 measurement", t1), ("2 measurements", t2), ("1 parameter, shot vector", t3)]


def scenarios(which):
    """generator of (description, thunk): uses of the real function `which` covering its argument combinations"""
    import numpy as np
    import pennylane as qp
    dev = qp.device("default.qubit", seed=11)

    def run_transform(tf, tape, with_f0, **kw):
        def go():
            if with_f0:
                kw["f0"] = qp.execute([tape], dev, diff_method=None)[0]
            tapes, fn = tf(tape, **kw)
            return fn(qp.execute(tapes, dev, diff_method=None))
        return go
    if which == "finite_diff":
        for n, order, st in GRID:
            for label, tape in _tapes():
                for f0 in (False, True):
                    if f0 and tape.shots.has_partitioned_shots:
                        continue
                    yield (f"finite_diff(tape[{label}], h=1e-2, n={n}, approx_order={order}, strategy={st!r}, f0={'given' if f0 else None}) + post-processing",
                           run_transform(qp.gradients.finite_diff, tape, f0, h=1e-2, n=n, approx_order=order, strategy=st))
    elif which == "spsa_grad":
        for n, order, st in GRID:
            for label, tape in _tapes():
                for k in (1, 2, 3):
                    for f0 in (False, True):
                        if f0 and (tape.shots.has_partitioned_shots or k != 2):
                            continue
                        yield (f"spsa_grad(tape[{label}], h=1e-2, n={n}, approx_order={order}, strategy={st!r}, num_directions={k}, sampler_rng=5, "
                               f"f0={'given' if f0 else None}) + post-processing",
                               run_transform(qp.gradients.spsa_grad, tape, f0, h=1e-2, n=n, approx_order=order, strategy=st, num_directions=k, sampler_rng=5))
    elif which == "finite_diff_jvp":
        def f(x, y):
            return 2 * x * y, x ** 2 + qp.math.sum(y)
        for _, order, st in [g for g in GRID if g[0] == 1] + [(1, 4, "center"), (1, 3, "forward")]:
            for args, tangents in (((0.5, 1.2), (1.0, 1.0)), ((np.array([0.5, 0.3]), np.array(1.2)), (np.array([1.0, 0.5]), np.array(2.0)))):
                yield (f"finite_diff_jvp(f, {args}, {tangents}, h=1e-4, approx_order={order}, strategy={st!r})",
                       (lambda args=args, tangents=tangents, order=order, st=st:
                        qp.gradients.finite_diff_jvp(f, args, tangents, h=1e-4, approx_order=order, strategy=st)))
    else:
        raise KeyError(which)


def history_run(which):
    """-> None or dict(step=..., discrepancies=[...]): run the scenarios of `which`, checking the memoised stencils after each"""
    import warnings
    mod = importlib.import_module(FMOD)
    pre = stencil_state(mod)
    if pre:
        return dict(step="before any use (state of this process)", discrepancies=pre[:3], ran=0, raised=[])
    ran, raised = 0, []
    with warnings.catch_warnings():
        warnings.simplefilter("ignore")
        for desc, thunk in scenarios(which):
            try:
                thunk()
            except Exception as ex:  # pylint: disable=broad-except
                desc += f" [raised {type(ex).__name__}: {str(ex)[:60]}]"
                raised.append(desc)
            ran += 1
            bad = stencil_state(mod)
            if bad:
                return dict(step=desc, discrepancies=bad[:3], ran=ran, raised=raised[:3])
    return dict(step=None, ran=ran, raised=raised)


HISTORY_FUNCS = {"finite_diff": (FD, "finite_diff"), "spsa_grad": ("pennylane/gradients/spsa_gradient.py", "spsa_grad"),
                 "finite_diff_jvp": (FD, "finite_diff_jvp")}


def history_obligation(which):
    rel, qual = HISTORY_FUNCS[which]
    stem = rel.rsplit("/", 1)[-1][:-3]

    def fn():
        out = history_run(which)
        if out["step"] is not None:
            d = out["discrepancies"][0]
            return Outcome(REFUTED, "native-standin",
                           f"after {out['step']}: finite_diff_coeffs(n={d['n']}, approx_order={d['approx_order']}, strategy={d['strategy']!r}) "
                           f"[{d['call_form']} call] returns {d['returned']}, the recomputed stencil is {d['recomputed']}", witness=out,
                           replay=dict(confirmed=True, inputs=out["step"], observed=d["returned"], expected=d["recomputed"]))
        if out["ran"] == 0 or 2 * len(out["raised"]) > out["ran"]:
            return Outcome(FAULT, "native-standin", f"{len(out['raised'])} of {out['ran']} uses raised: the stand-in exercises nothing: {out['raised'][:2]}")
        return Outcome(DISCHARGED, "native-standin", f"{out['ran']} uses ({len(out['raised'])} of them raised: {out['raised'][:2]}), memoised stencils equal "
                       "the recomputed ones after each", extra=dict(bounded=True))
    return Obligation(f"{PID}/{stem}:{qual}/native history: finite_diff_coeffs unchanged by every small use", "bounded", fn, bounded=True, func=(rel, qual),
                      timeout=600, sample="real transform + post-processing, then memoised vs recomputed stencil for n <= 2, approx_order <= 2")


def repeat_obligation():
    def fn():
        mod = importlib.import_module(FMOD)
        for rnd in range(3):
            bad = stencil_state(mod)
            if bad:
                d = bad[0]
                return Outcome(REFUTED, "native-standin", f"call round {rnd + 1} (this worker process may have run other obligations before): finite_diff_coeffs({d['n']}, {d['approx_order']}, {d['strategy']!r}) "
                               f"[{d['call_form']}] returns {d['returned']}, recomputed {d['recomputed']}", witness=d,
                               replay=dict(confirmed=True, inputs=dict(n=d["n"], approx_order=d["approx_order"], strategy=d["strategy"], round=rnd + 1),
                                           observed=d["returned"], expected=d["recomputed"]))
        return Outcome(DISCHARGED, "native-standin", "3 rounds x both call forms: equal to the recomputed stencil", extra=dict(bounded=True))
    return Obligation(f"{PID}/finite_difference:finite_diff_coeffs/native history: repeated calls return the recomputed stencil", "bounded", fn,
                      bounded=True, func=(FD, PRODUCER), timeout=300, sample="memoised vs recomputed, n <= 2, approx_order <= 2, keyword / positional")


def frame_obligations(plan):
    """one obligation per write site of every in-repo caller of finite_diff_coeffs + one per caller + the enumeration itself"""
    from vf.frame.npalias import enumerate_callers, protected_result_analysis
    memo, decos = is_memoised()
    callers, other = enumerate_callers(REPO, PRODUCER)
    notes = dict(memoised=memo, decorators=decos, callers=[f"{r}:{q} ({c} call site{'s' * (c != 1)})" for r, q, c in callers], unclassified=[], assumed=[])

    def enum_fn():
        if other:
            return Outcome(UNDECIDED, "frame", f"uses of finite_diff_coeffs the frame analysis does not cover: {other[:5]}")
        if not callers:
            return Outcome(DISCHARGED, "frame", "no in-repo caller")
        return Outcome(DISCHARGED, "frame", f"{len(callers)} calling functions: {notes['callers']}; memoised={memo} {decos}")
    plan.add(Obligation(f"{PID}/finite_difference:finite_diff_coeffs/frame: in-repo callers enumerated", "frame", enum_fn, func=(FD, PRODUCER)))
    summaries = {}
    for rel, qual, _ in callers:
        stem = rel.rsplit("/", 1)[-1][:-3]
        try:
            summ, sites = protected_result_analysis(REPO, rel, qual, PRODUCER, summaries)
        except Exception as ex:  # pylint: disable=broad-except
            plan.add(Obligation(f"{PID}/{stem}:{qual}/frame-analysis", "frame",
                                (lambda ex=ex: Outcome(UNDECIDED, "frame", f"analysis failed: {type(ex).__name__}: {ex}")), func=(rel, qual)))
            continue
        plan.fn_under_contract(rel, qual)
        notes["assumed"] += [f"{rel}:{qual} L{ln} {nm}" for nm, ln in summ.assumed]
        n_uncl = 0
        for st, v in sites:
            if v == "unclassified":
                n_uncl += 1
                notes["unclassified"].append(f"{rel}:{st.func} L{st.lineno} {st.kind} {st.target}")
                continue

            def fn(st=st, v=v, qual=qual):
                if v == "ok":
                    return Outcome(DISCHARGED, "frame", f"L{st.lineno}: target may be {sorted(st.value.ids) or 'a new object'}: not the memoised array")
                if not memo:
                    return Outcome(DISCHARGED, "frame", f"L{st.lineno}: writes the result of finite_diff_coeffs, which is not memoised ({decos}): "
                                   "every call returns a new array")
                detail = (f"line {st.lineno}: {st.kind} writes `{st.target}`, which may be (a view of) the array returned by the memoised "
                          f"finite_diff_coeffs {sorted(st.value.hits(90))}: every later call returns the modified stencil")
                rp = dict(confirmed=None, note="static frame violation; no native scenario for this caller")
                top = qual.split(".")[0]
                if top in HISTORY_FUNCS:
                    try:
                        out = history_run(top)
                        if out["step"] is not None:
                            d = out["discrepancies"][0]
                            rp = dict(confirmed=True, inputs=out["step"], observed=d["returned"], expected=d["recomputed"],
                                      then=f"finite_diff_coeffs(n={d['n']}, approx_order={d['approx_order']}, strategy={d['strategy']!r}) [{d['call_form']}]")
                        else:
                            rp = dict(confirmed=None, note=f"static frame violation; the {out['ran']} native uses did not expose it")
                    except Exception as ex:  # pylint: disable=broad-except
                        rp = dict(confirmed=None, note=f"static frame violation; native run failed: {type(ex).__name__}: {str(ex)[:100]}")
                return Outcome(REFUTED, "frame", detail, witness=dict(line=st.lineno, target=st.target, kind=st.kind), replay=rp)
            plan.add(Obligation(f"{PID}/{stem}:{st.func}/frame write#{st.ordinal} {st.kind} on `{st.target}`", "frame", fn, func=(rel, qual), timeout=600,
                                sample=f"write site L{st.lineno}: {st.kind} on {st.target}"))
        plan.add(Obligation(f"{PID}/{stem}:{qual}/frame: analysed ({len(sites)} write sites)", "frame",
                            (lambda summ=summ, sites=sites, n_uncl=n_uncl: Outcome(
                                DISCHARGED, "frame", f"{len(sites)} write sites ({n_uncl} unclassified), {len(summ.assumed)} assumed callees handed the "
                                f"array, {len(summ.unsupported)} unsupported nodes")), func=(rel, qual)))
    plan.notes["frame"] = notes
    return notes


def build(tier, seed):
    plan = Plan(PID, level="proof")
    plan.explanation = (
        "Part 1: finite_diff_coeffs is executed symbolically for ALL n, approx_order (symbolic ints) per strategy up to its linear solve, numpy "
        "values abstracted (arange = interval of consecutive numbers; Vandermonde; right-hand side); the system handed to linalg_solve is "
        "compared with the specification. Part 2: the real function is run for n <= 4, approx_order <= 6 and compared with an independent "
        "exact rational solution, whose moment conditions are checked for every k < n + approx_order.")
    plan.trusted_base = ["vf/pyvc encoder; z3 mixed integer/real arithmetic with floor", "python Fraction arithmetic (part 2)"]
    plan.assumptions = ["A-float-as-real: np.floor, +, -, *, // on the small integer-valued floats num_points / N are exact",
                        "numpy: np.arange(a, b) are the consecutive numbers a, a+1, ... < b; x ** e.reshape(-1, 1) broadcasts to [k, i] -> x[i] ** e[k]; "
                        "np.zeros_like + one item assignment; len of an array", "scipy.special.factorial(n) == n!"]
    plan.assumed_contracts = ["scipy.linalg.solve(A, b) returns c with A @ c == b for non-singular A; a Vandermonde matrix with distinct nodes is "
                              "non-singular (so the moment conditions sum_i c_i s_i^k == n! [k == n], k < N, hold by construction)",
                              "symmetry lemma (stated, not proved symbolically; checked exactly for n <= 4, approx_order <= 6): for even n and nodes "
                              "symmetric around 0 the solution is even, hence the moment of the odd order k = N vanishes as well"]
    plan.dropped = ["docstring, error messages"]
    plan.size_bounds = ["part 2 (exact comparison of the returned array incl. the dropped / reordered columns): n in 1..4, approx_order in 1..6 "
                        "(even orders for the centred strategy), three strategies"]
    plan.unverified = ["floating-point error of the linear solve beyond the enumerated sizes", "the post-processing (zeroing below 1e-10, dropping the "
                       "all-zero column, argsort by |shift|) for sizes beyond part 2", "finite_diff itself (tapes, shifts, gradient assembly)"]

    cell = {}

    def b_floor(it, args, kw):
        x = real_of(args[0])
        q = z3.ToInt(x)
        return FloatV(z3.ToReal(q), q)

    def b_arange(it, args, kw):
        if set(kw) - {"dtype"}:
            raise Unsupp("arange keywords")
        vals = [real_of(a) for a in args]
        if len(vals) == 1:
            return Arange(z3.RealVal(0), vals[0])
        if len(vals) == 2:
            return Arange(vals[0], vals[1])
        raise Unsupp("arange with a step")

    def b_len(it, args, kw):
        if len(args) == 1 and isinstance(args[0], Arange):
            return args[0].length()
        return it.b_len(args, kw, None)

    def b_solve(it, args, kw):
        it.ctx.ghost["system"] = tuple(args)
        raise RaiseExc("StopAtSolve")
    w = World(FD, functions=["finite_diff_coeffs"],
              extra_builtins={"np.floor": b_floor, "np.arange": b_arange, "len": b_len, "np.zeros_like": lambda it, a, k: ZVec(a[0]),
                              "factorial": lambda it, a, k: FACT(to_int_term(a[0])), "linalg_solve": b_solve})
    w.module_values = {"np.float64": "float64"}

    def ghost_for(parity):
        return lambda ctx, a: ghost(ctx, a, parity)

    def ghost(ctx, a, parity):
        cell["ctx"] = ctx
        # names for the halves of n and approx_order (a conservative extension: such integers exist for every int): spares the solver
        # the search for them inside nested floor terms
        hn, ho = z3.Int(ctx.fresh_name("half_n")), z3.Int(ctx.fresh_name("half_order"))
        ctx.assume(a.n == 2 * hn + parity)          # the case's precondition fixes the parity of n
        ctx.assume(z3.Or(a.approx_order == 2 * ho, a.approx_order == 2 * ho + 1))

    def bad_args(o, strategy):
        odd = (o.approx_order % 2 != 0) if not isinstance(o.approx_order, z3.ExprRef) else (S.mod(o.approx_order, 2) != 0)
        return Or(o.n < 1, o.approx_order < 1, strategy not in ("forward", "backward", "center"), And(strategy == "center", odd))

    def system_ok(strategy):
        """exceptional postcondition at the call of linalg_solve: the system is the specified Vandermonde system"""
        def post(name, o, nw):
            if name != "StopAtSolve":
                return True
            if not isinstance(o.n, z3.ExprRef) and "system" not in cell["ctx"].ghost:
                return True
            sysm = cell["ctx"].ghost.get("system")
            if not sysm or len(sysm) != 2:
                return False
            A, b = sysm
            if not (isinstance(A, Vander) and isinstance(b, ZVec) and isinstance(A.nodes, Arange) and isinstance(A.exps, Arange)):
                return False
            shifts = A.nodes
            n, order = o.n, o.approx_order
            N = shifts.length()
            lo, hi = shifts.lo, shifts.hi
            total = z3.ToReal(n + order)
            if strategy == "forward":
                rng = z3.And(lo == 0, hi == total)
            elif strategy == "backward":
                rng = z3.And(hi == 1, lo == 1 - total)
            else:
                count = z3.If(n % 2 == 1, total, total - 1)
                rng = z3.And(lo == -(hi - 1), hi - lo == count)          # symmetric around 0
            consecutive_ints = z3.And(z3.IsInt(lo), z3.IsInt(hi), lo <= 0, hi > 0)          # integers, 0 among them
            vander = z3.And(A.exps.lo == 0, A.exps.hi == z3.ToReal(N))          # exponents 0 .. N-1: one row per moment k < N
            rhs = b.like is shifts and len(b.entries) == 1 and And(b.entries[0][0] == n, to_int_term(b.entries[0][1]) == FACT(n))
            return And(rng, consecutive_ints, vander, rhs, n < N)          # the n-th moment is among the N equations
        return post

    contracts = []
    for strategy, parity in [(st_, p_) for st_ in ("forward", "backward", "center", "middle") for p_ in (0, 1)]:
        def native_call(mod, args, strategy=strategy):
            return mod.finite_diff_coeffs(args["n"], args["approx_order"], strategy)

        def native_ok(o, r, nw, strategy=strategy):
            """replay on the real function: shape and nodes of the returned array (the numerical content is part 2's)"""
            if isinstance(o.n, z3.ExprRef):
                return False          # symbolically the function never returns: it stops at the linear solve
            want = {float(s) for s in spec_shifts(o.n, o.approx_order, strategy)}
            got = {float(x) for x in r[1]}
            return r.shape[0] == 2 and got <= want and want - got <= {0.0}
        cs = Case(f"system handed to linalg_solve, strategy={strategy!r}, n {'odd' if parity else 'even'}",
                  {"n": Int, "approx_order": Int, "strategy": T("const", strategy)},
                  requires=lambda a, parity=parity: S.mod(a.n, 2) == parity, ghost=ghost_for(parity), ensures=native_ok,
                  raises={"StopAtSolve": lambda o, strategy=strategy: Not(bad_args(o, strategy)),
                          "ValueError": lambda o, strategy=strategy: bad_args(o, strategy)},
                  must_return=lambda o, strategy=strategy: (Not(bad_args(o, strategy)) if not isinstance(o.n, z3.ExprRef) else False),
                  native_call=native_call,
                  native_gen=lambda rng, m, parity=parity: dict(m, n=((2 * (abs(int(m["n"])) % 4) + parity) if rng is not None else int(m["n"])),
                                                 approx_order=(abs(int(m["approx_order"])) % 8 if rng is not None else int(m["approx_order"]))))
        cs.exc_ensures = system_ok(strategy)
        contracts.append(FnContract(w, "finite_diff_coeffs", [cs]))

    for fc in contracts:
        plan.fn_under_contract(fc.world.file, fc.qualname)
        for ob in obligations_for(PID, fc, tier):
            plan.add(ob)
    for n in range(1, 5):
        for order in range(1, 7):
            for strategy in ("forward", "backward", "center"):
                if strategy == "center" and order % 2:
                    continue
                plan.add(exact_obligation(n, order, strategy))
    # ---- part 3
    try:          # warm-up only: the forked workers inherit the imported package instead of importing it 16 times; every obligation imports again itself
        importlib.import_module(FMOD)
    except Exception:  # pylint: disable=broad-except
        pass
    notes = frame_obligations(plan)
    plan.add(repeat_obligation())
    for which in HISTORY_FUNCS:
        plan.add(history_obligation(which))
    plan.trusted_base.append("vf/frame/analysis.py + vf/frame/npalias.py (may-alias abstract domain, syntactic numpy write sites, loop fixpoint)")
    plan.assumptions += ["part 3: numpy library functions other than the listed writers (out=, copyto, put, place, putmask, fill_diagonal, put_along_axis, "
                         "ufunc.at, in-place methods) do not write their array arguments; NP_FRESH functions (arithmetic, stack, tensordot, copy, ...) "
                         "return new arrays", "part 3: nested functions see the bindings at the point of their definition"]
    plan.assumed_contracts.append(f"part 3: callees without a body in reach that are handed the array are assumed not to write it: {notes['assumed'] or 'none on this tree'}")
    plan.size_bounds.append("part 3 native history stand-ins (bounded, never counted as proof): n <= 2, approx_order <= 2 (+ orders 3, 4 for finite_diff_jvp), "
                            "3 tapes, num_directions 1..3, numpy interface")
    plan.unverified += [f"part 3: {len(notes['unclassified'])} write sites through unclassifiable values: {notes['unclassified'] or 'none'}",
                        "part 3: writes by callers OUTSIDE /repo/pennylane (user code): finite_diff_coeffs returns a WRITEABLE shared array; "
                        "making it read-only would need a change of /repo", "part 3: other interfaces (autograd / jax / torch results in post-processing)"]
    return plan
