"""C59 Fourier analysis tools are sound -- the spectrum join and its accumulation / symmetrisation.

Over the reals (A-float-as-real), with sets of enumerated SIZE and symbolic elements:
* fourier/utils.py:join_spectra(S1, S2), for non-negative inputs, is exactly { a + b, |a - b| : a in S1, b in S2 } -- every such value is in
  the result and nothing else is -- including both `== {0}` shortcuts; if 0 is in both inputs it is in the result.
* fourier/circuit_spectrum.py:circuit_spectrum.<locals>.processing_fn: for every marker the accumulated set contains |f_1 +- f_2 +- ... +- f_k|
  for all choices f_i from the spectrum of the i-th gate carrying that marker (the frequencies a product of trigonometric polynomials can
  contain -- stated lemma), only marked one-parameter gates contribute, and the returned list `[-f for f in spec[:0:-1]] + spec` is the
  strictly increasing symmetric list of the set GIVEN that 0 is its smallest element -- which holds because every gate spectrum contains 0
  (get_spectrum adds it: assumed) and join_spectra keeps it.  Without 0 the list would lack the negative of the smallest frequency: the
  symmetric-list clause is stated under `0 in spec` and the invariant that establishes it is an obligation.
"""
import itertools

import z3

from vf.common import Plan
from vf.pyvc.engine import World, T, Float, Rec, PyList, FuncRef, Model, FloatV, Unsupp, RaiseExc, real_of
from vf.pyvc.contract import FnContract, Case, obligations_for
from vf.pyvc.interp import Interp
from vf.pyvc import spec as S
from vf.pyvc.spec import And, Or

PID = "C59"
UT = "pennylane/fourier/utils.py"
CS = "pennylane/fourier/circuit_spectrum.py"
MK = "pennylane/fourier/mark.py"
NoneV = T("const", None)


def zabs(x):
    return z3.If(x >= 0, x, -x)


class SetM(Model):
    """python set of real numbers with symbolic elements: `terms` lists its members (the list may repeat a value: a set stores it once)"""

    def __init__(self, terms):
        self.terms = list(terms)
        outer = self

        class _Add(Model):
            def vf_call(self, it, args, kw):
                outer.terms.append(real_of(args[0]))
                return None

        class _Union(Model):
            def vf_call(self, it, args, kw):
                return SetM(outer.terms + list(args[0].terms))
        self.add, self.union = _Add(), _Union()

    def snapshot(self):
        return SetM(self.terms)

    def vf_binop(self, it, name, other, swapped, node):
        if name == "or" and isinstance(other, SetM):
            return SetM(self.terms + other.terms)
        raise Unsupp(f"set operation {name}")

    def mem(self, x):
        return z3.Or(*[x == t for t in self.terms]) if self.terms else z3.BoolVal(False)

    def vf_iter(self, it):
        # iteration visits every member (in an unspecified order; a repeated term is visited again, which set semantics makes harmless
        # for code that only inserts what it computes into other sets -- the postconditions are about membership)
        return [FloatV(t) for t in self.terms]

    def vf_eq(self, other):
        if isinstance(other, (frozenset, set)):
            vals = [z3.RealVal(v) for v in other]
            return z3.And(*[z3.Or(*[t == v for v in vals]) if vals else z3.BoolVal(False) for t in self.terms],
                          *[self.mem(v) for v in vals])
        if isinstance(other, SetM):
            return z3.And(*[other.mem(t) for t in self.terms], *[self.mem(t) for t in other.terms])
        return False

    def concretize_with(self, world, model):
        out = []
        for t in self.terms:
            v = model.eval(t, model_completion=True)
            try:
                out.append(float(v.as_fraction()))
            except Exception:  # pylint: disable=broad-except
                out.append(float(v.approx(12).as_fraction()))
        return {"__set__": out}


def set_type(n, name):
    return T("build", lambda ctx, nm: SetM([z3.Real(ctx.fresh_name(f"{name}_{i}")) for i in range(n)]),
             gen=lambda rng: {"__set__": [rng.choice([0, 0, 1, 2, 0.5, 3]) for _ in range(n)]})


def build(tier, seed):
    plan = Plan(PID, level="other")
    plan.explanation = ("join_spectra and circuit_spectrum's processing_fn are executed symbolically on sets of enumerated size with symbolic real "
                        "elements; postconditions are membership formulas (all sums and absolute differences, nothing else; every signed "
                        "combination of one frequency per marked gate; sorted symmetric list given 0 is the smallest element).")
    plan.trusted_base = ["vf/pyvc encoder", "z3 linear real arithmetic"]
    plan.assumptions = ["A-float-as-real (rounding of sums / differences of frequencies ignored)",
                        "inputs of join_spectra are non-negative (documented assumption of the code; precondition)"]
    plan.assumed_contracts = ["get_spectrum(op, decimals) returns a set of non-negative numbers that contains 0 (eigvalsh of the generator: unverified)",
                              "sorted(set) is the strictly increasing list of the set's distinct members",
                              "lemma (stated): the Fourier frequencies of a product of trigonometric polynomials are sums of one frequency of each "
                              "factor, so the accumulated set is a superset of the circuit's frequencies in that input"]
    plan.dropped = ["docstrings, error messages"]
    plan.size_bounds = ["join_spectra: |S1|, |S2| <= 3 (all sizes 0..3 x 0..3), elements symbolic reals",
                        "processing_fn: 8 circuit layouts: up to 2 marked gates with independent symbolic frequencies (spectra {0, f} / {0, f, g}), 3 gates "
                        "only with one common frequency, up to 2 markers; the number of distinct accumulated frequencies is enumerated"]
    plan.unverified = ["get_spectrum (eigenvalue differences), qnode_spectrum, coefficients, reconstruct", "floating-point rounding (decimals)"]

    contracts = []
    cell = {}

    def ghost(ctx, a):
        cell["ctx"] = ctx

    # ================================================================================================ join_spectra
    wu = World(UT, functions=["join_spectra"],
               extra_builtins={"set": lambda it, a, k: SetM([real_of(x) for x in it.iter_concrete(a[0])] if a else []),
                               "np.abs": lambda it, a, k: FloatV(zabs(real_of(a[0])))})

    def nonneg(a):
        if isinstance(a.spec1, SetM):
            return z3.And(*[t >= 0 for t in a.spec1.terms + a.spec2.terms])
        return all(x >= 0 for x in list(a.spec1) + list(a.spec2))

    def join_post(o, r, nw):
        if not isinstance(o.spec1, SetM):
            want = {x + y for x in o.spec1 for y in o.spec2} | {abs(x - y) for x in o.spec1 for y in o.spec2}
            return set(r) == want
        if not isinstance(r, SetM):
            return False
        A, B = o.spec1.terms, o.spec2.terms
        complete = [z3.And(r.mem(x + y), r.mem(zabs(x - y))) for x in A for y in B]
        sound = [z3.Or(*[z3.Or(t == x + y, t == zabs(x - y)) for x in A for y in B]) if A and B else z3.BoolVal(False) for t in r.terms]
        zero = z3.Implies(z3.And(o.spec1.mem(z3.RealVal(0)), o.spec2.mem(z3.RealVal(0))), r.mem(z3.RealVal(0)))
        return And(True, *complete, *sound, zero)

    def native_sets(rng, m):
        return dict(m, spec1=set(abs(x) for x in m["spec1"]["__set__"]), spec2=set(abs(x) for x in m["spec2"]["__set__"]))
    for n1 in range(0, 4):
        for n2 in range(0, 4):
            contracts.append(FnContract(wu, "join_spectra", [
                Case(f"|spec1| = {n1}, |spec2| = {n2}", {"spec1": set_type(n1, "a"), "spec2": set_type(n2, "b")}, ghost=ghost, requires=nonneg,
                     ensures=join_post, native_gen=native_sets, size_bounded=True)]))

    # ================================================================================================ processing_fn
    OP_SRC = "class Gate:\n    pass\n"

    def b_get_spectrum(it, args, kw):
        op = args[0]
        cell.setdefault("spectrum_calls", []).append(op)
        return SetM(list(op.f["spectrum"].terms))

    def b_join(it, args, kw):
        """join_spectra by its contract (verified above): precondition non-negative inputs, result exactly the sums and |differences|"""
        s1, s2 = args
        it.ctx.prove(z3.And(*[t >= 0 for t in s1.terms + s2.terms]), "pre-call:join_spectra (non-negative inputs)")
        terms, seen = [], set()
        for t in [x + y for x in s1.terms for y in s2.terms] + [zabs(x - y) for x in s1.terms for y in s2.terms]:
            t = z3.simplify(t)
            if t.get_id() not in seen:          # syntactically equal members are one member
                seen.add(t.get_id())
                terms.append(t)
        return SetM(terms)

    def b_sorted(it, args, kw):
        """sorted(set of reals): the strictly increasing list of its distinct members; their NUMBER is enumerated (fork)"""
        s = args[0]
        if not isinstance(s, SetM):
            return it.b_sorted(args, kw, None)
        ctx = it.ctx
        m = z3.Int(ctx.fresh_name("n_distinct"))
        bound = len(s.terms)
        ctx.assume(z3.And(m >= (1 if s.terms else 0), m <= bound))          # a set listed by k terms has between 1 and k distinct members
        if bound > 20:
            raise Unsupp("more than 20 candidate frequencies")
        for n in range(0, bound + 1):
            if ctx.branch(m == n):
                ys = [z3.Real(ctx.fresh_name(f"sorted_{i}")) for i in range(n)]
                ctx.assume(z3.And(*[ys[i] < ys[i + 1] for i in range(n - 1)], *[s.mem(y) for y in ys],
                                  *[z3.Or(*[t == y for y in ys]) if ys else z3.BoolVal(False) for t in s.terms]))
                cell.setdefault("sorted", []).append((s, ys))
                return PyList([FloatV(y) for y in ys])
        raise Unsupp("sorted(): unreachable")

    def b_set_any(it, args, kw):
        items = it.iter_concrete(args[0]) if args else []
        if all(isinstance(x, str) for x in items):
            return StrSet(items)
        return SetM([real_of(x) for x in items])

    class StrSet(Model):
        def __init__(self, items):
            self.items = list(dict.fromkeys(items))
            outer = self

            class _Diff(Model):
                def vf_call(self, it, args, kw):
                    other = args[0]
                    keys = list(other.keys()) if isinstance(other, dict) else list(other)
                    return StrSet([x for x in outer.items if x not in keys])
            self.difference = _Diff()

        def vf_iter(self, it):
            return list(self.items)

    wc = World(CS, classes={"MarkedOp": (MK, {"marker": NoneV, "parameters": NoneV, "spectrum": NoneV, "name": NoneV})},
               stubs={"Gate": (OP_SRC, {"name": NoneV}), "Tape": ("class Tape:\n    pass\n", {"operations": NoneV})},
               functions=["circuit_spectrum"],
               extra_builtins={"get_spectrum": b_get_spectrum, "join_spectra": b_join, "sorted": b_sorted, "set": b_set_any})

    def tape_type(layout):
        """layout: list of (marker or None for an unmarked gate, number of non-zero frequencies of the gate, number of parameters)"""
        def ctor(ctx, name):
            ops = []
            for i, (mark, nf, npar) in enumerate(layout):
                if mark is None:
                    ops.append(Rec(wc.classes["Gate"], {"name": f"g{i}"}))
                else:
                    # nf: number of (independent) non-zero frequencies, or a NAME: one frequency shared by all gates using that name
                    fs = [z3.Real(f"shared_{nf}")] if isinstance(nf, str) else [z3.Real(ctx.fresh_name(f"f{i}_{j}")) for j in range(nf)]
                    ctx.assume(z3.And(*[f >= 0 for f in fs]))          # get_spectrum: non-negative frequencies, 0 among them
                    ops.append(Rec(wc.classes["MarkedOp"], {"marker": mark, "parameters": PyList([0.1] * npar), "name": f"op{i}",
                                                            "spectrum": SetM([z3.RealVal(0)] + fs)}))
            cell["ops"] = ops
            return Rec(wc.classes["Tape"], {"operations": PyList(ops)})
        return T("build", ctor, gen=lambda rng: {"__tape__": True})

    def combos(sets):
        """all |f_1 +- f_2 +- ... +- f_k| with one member per set"""
        out = []
        for choice in itertools.product(*sets):
            for signs in itertools.product((1, -1), repeat=len(choice) - 1):
                tot = choice[0]
                for sgn, f in zip(signs, choice[1:]):
                    tot = tot + sgn * f
                out.append(zabs(tot))
        return out

    def proc_post(layout, encoding):
        def post(o, r, nw):
            if not hasattr(r[1], "interp"):
                return native_post(layout, encoding, r, nw)
            it = Interp(cell["ctx"], None)
            try:
                freqs = it.call(r[1], [PyList([nw.tape])], {})
            except RaiseExc as ex:
                bad = any(mark is not None and (encoding is None or mark in encoding) and npar != 1 for mark, _, npar in layout)
                return ex.name == "ValueError" and bad
            if any(mark is not None and (encoding is None or mark in encoding) and npar != 1 for mark, _, npar in layout):
                return False          # a multi-parameter encoding gate must be rejected
            ops = cell["ops"]
            marks = list(dict.fromkeys(mark for mark, _, _ in layout if mark is not None and (encoding is None or mark in encoding)))
            want_keys = marks + [e for e in (encoding or []) if e not in marks]
            if not isinstance(freqs, dict) or sorted(freqs.keys()) != sorted(want_keys):
                return False
            goal = []
            for mark in want_keys:
                lst = freqs[mark]
                gates = [op for op in ops if op.cls.name == "MarkedOp" and op.f["marker"] == mark]
                if not gates:
                    goal.append(isinstance(lst, PyList) and not lst.items)
                    continue
                vals = [real_of(x) for x in lst.items]
                # (a) every signed combination of one frequency per gate is in the list (up to sign: the list is symmetric)
                for c in combos([g.f["spectrum"].terms for g in gates]):
                    goal.append(z3.Or(*[v == c for v in vals]))
                # (b) strictly increasing and symmetric, 0 in the middle
                goal += [vals[i] < vals[i + 1] for i in range(len(vals) - 1)]
                goal += [vals[i] == -vals[len(vals) - 1 - i] for i in range(len(vals))]
                goal.append(len(vals) % 2 == 1)
                # (c) nothing else: every non-negative entry is a signed combination
                cs = combos([g.f["spectrum"].terms for g in gates])
                goal += [z3.Or(*[v == c for c in cs]) for v in vals[len(vals) // 2:]]
            called = cell.get("spectrum_calls", [])
            only_marked = all(op.cls.name == "MarkedOp" for op in called)
            return And(only_marked, *goal)
        return post

    def native_tape(layout):
        import pennylane as qp
        ops = []
        for i, (mark, nf, npar) in enumerate(layout):
            if mark is None:
                ops.append(qp.H(i % 2))
                continue
            if npar != 1:
                base = qp.Rot(0.1, 0.2, 0.3, wires=0)
            else:
                base = qp.RX(0.3, wires=i % 2) if nf in (1, "w") else qp.CRX(0.3, wires=[0, 1])          # spectra {0, 1} / {0, 0.5, 1}
            ops.append(qp.fourier.mark(base, mark))
        return qp.tape.QuantumScript(ops, [qp.expval(qp.Z(0))])

    def native_post(layout, encoding, r, nw):
        import importlib
        gs = importlib.import_module("pennylane.fourier.utils").get_spectrum
        bad = any(mark is not None and (encoding is None or mark in encoding) and npar != 1 for mark, _, npar in layout)
        try:
            freqs = r[1](r[0])
        except ValueError:
            return bad
        if bad:
            return False
        marks = list(dict.fromkeys(mark for mark, _, _ in layout if mark is not None and (encoding is None or mark in encoding)))
        want_keys = marks + [e for e in (encoding or []) if e not in marks]
        if sorted(freqs) != sorted(want_keys):
            return False
        for mark in want_keys:
            gates = [op for op in nw.tape.operations if getattr(op, "marker", None) == mark]
            if not gates:
                if freqs[mark] != []:
                    return False
                continue
            sets = [sorted(float(x) for x in gs(g, 8)) for g in gates]
            pos = set()
            for choice in itertools.product(*sets):
                for signs in itertools.product((1, -1), repeat=len(choice) - 1):
                    pos.add(round(abs(choice[0] + sum(sg * f for sg, f in zip(signs, choice[1:]))), 8))
            want = sorted({-x for x in pos} | pos)
            got = [round(float(x), 8) + 0.0 for x in freqs[mark]]
            if got != [x + 0.0 for x in want]:
                return False
        return True

    LAYOUTS = [
        ("one marked gate", [("x", 1, 1)], None),
        ("unmarked gates are skipped", [(None, 0, 1), ("x", 1, 1), (None, 0, 2)], None),
        ("two gates, one marker", [("x", 1, 1), ("x", 1, 1)], None),
        ("two gates, two markers", [("x", 1, 1), ("y", 1, 1)], None),
        ("three gates with a common frequency, one marker", [("x", "w", 1), ("x", "w", 1), ("x", "w", 1)], None),
        ("gate with two frequencies joined with a one-frequency gate", [("x", 2, 1), ("x", 1, 1)], None),
        ("encoding_gates selects a marker; absent marker gets []", [("x", 1, 1), ("y", 1, 1)], ["x", "z"]),
        ("two-parameter encoding gate is rejected", [("x", 1, 2)], None),
    ]
    for lab, layout, enc in LAYOUTS:
        params = {"tape": tape_type(layout)}
        if enc is not None:
            params["encoding_gates"] = T("const", tuple(enc))
        contracts.append(FnContract(wc, "circuit_spectrum", [
            Case(lab, params, ghost=lambda ctx, a: (cell.__setitem__("ctx", ctx), cell.__setitem__("spectrum_calls", []), cell.__setitem__("sorted", [])),
                 ensures=proc_post(layout, enc), size_bounded=True, max_paths=2000,
                 native_gen=lambda rng, m, layout=layout: dict(m, tape=native_tape(layout)),
                 native_call=lambda mod, args: mod.circuit_spectrum.tape_transform(args["tape"], **({"encoding_gates": list(args["encoding_gates"])}
                                                                                                   if "encoding_gates" in args else {})))]))

    for fc in contracts:
        plan.fn_under_contract(fc.world.file, fc.qualname)
        for ob in obligations_for(PID, fc, tier):
            plan.add(ob)
    plan.fn_under_contract(CS, "circuit_spectrum.<locals>.processing_fn")
    return plan
