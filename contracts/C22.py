"""C22 Dynamic wire allocation never aliases live wires.

Abstract state of the allocator `_WireManager` (real code of transforms/resolve_dynamic_wires.py):
    Z, A .......... the free stacks `_registers[ZERO]`, `_registers[ANY]` (sequences of SYMBOLIC length; concrete wires are ints:
                    every hashable label is a point of one infinite set, minted wires are ints)
    L ............. the loan map `_loaned` (wire -> register it goes back to)
    min_int ....... next wire to mint (or None)
  ghost: Static (wires of the static circuit), Given (wires handed to the allocator), M0 (the min_int the allocator started with),
         Zero (the wires that are in |0> now: a free wire keeps its state, a reset measurement establishes it, `restored=True`
         is the user's promise that a wire comes back in the state it was handed out in).
well_formed:  Z, A duplicate-free;  Z, A, dom L pairwise disjoint;  Z subset of Zero;  L maps into {ZERO, ANY};
              Z u A u dom L  subset of  Given u [M0, min_int);   every wire of Z u A u dom L u Static is < min_int;  Static < M0 <= min_int;
              every wire >= min_int is unused and in |0>.
`setof` / `nodup` of a stack are spec functions used through INSTANCES of their defining recursion (empty, snoc) for exactly the
stack terms the code builds (append = snoc, pop = inverse snoc).
"""
import copy
import importlib

import z3

from vf.common import Plan
from vf.pyvc.engine import (World, T, Int, Bool, Label, RecT, SeqT, MapT, ListT, Rec, PyList, SeqV, MapV, FuncRef, Model, Unsupp, RaiseExc,
                            fresh, concretize, to_int_term, is_intlike)
from vf.pyvc.contract import FnContract, Case, LoopSpec, obligations_for, lemma
from vf.pyvc import spec as S
from vf.pyvc.spec import And, Or, Not, If

PID = "C22"
RDW = "pennylane/transforms/resolve_dynamic_wires.py"
RMOD = "pennylane.transforms.resolve_dynamic_wires"
ALLOC = "pennylane/allocation.py"
PRE = "pennylane/devices/preprocess.py"

ZERO_, ANY_, MAGIC_T_, MAGIC_T_ADJ_ = 0, 1, 2, 3          # AllocateState members (an enumeration: four distinct values)
ENUM = {("AllocateState", "ZERO"): ZERO_, ("AllocateState", "ANY"): ANY_, ("AllocateState", "MAGIC_T"): MAGIC_T_,
        ("AllocateState", "MAGIC_T_ADJ"): MAGIC_T_ADJ_}
I_ = z3.IntSort()
ISeq = z3.SeqSort(I_)
ISet = z3.ArraySort(I_, z3.BoolSort())
EMPTY = z3.K(I_, z3.BoolVal(False))
NoneV = T("const", None)

SETOF = z3.Function("setof", ISeq, ISet)
NODUP = z3.Function("nodup", ISeq, z3.BoolSort())
STATIC = z3.Const("Static", ISet)
GIVEN = z3.Const("Given", ISet)
M0 = z3.Int("min_int_at_start")
ZERO0 = z3.Const("Zero", ISet)


def sym(*xs):
    return any(isinstance(x, z3.ExprRef) for x in xs)


def same_int(a, b):
    ok = lambda x: (isinstance(x, int) and not isinstance(x, bool)) or (isinstance(x, z3.ArithRef) and x.is_int())
    if ok(a) and ok(b):
        return S._t(a) == S._t(b)
    return False


# ---------------------------------------------------------------------------------------------- setof / nodup instances
def _is_unit(t):
    return z3.is_app_of(t, z3.Z3_OP_SEQ_UNIT)


def snoc_facts(pre, x):
    """defining equations of setof / nodup at  pre ++ [x]"""
    c = z3.Concat(pre, z3.Unit(x))
    return [SETOF(c) == z3.Store(SETOF(pre), x, True), NODUP(c) == z3.And(NODUP(pre), z3.Not(z3.Select(SETOF(pre), x)))]


def seq_facts(t, out=None, seen=None):
    """instances of the definitions of setof/nodup for the stack term `t` as the code built it (append: snoc; pop: the popped list is
    the prefix of its source, source == prefix ++ [last]) -- every fact is either a defining equation or a valid sequence identity"""
    out = [] if out is None else out
    seen = set() if seen is None else seen
    if t.get_id() in seen:
        return out
    seen.add(t.get_id())
    out += [SETOF(z3.Empty(ISeq)) == EMPTY, NODUP(z3.Empty(ISeq)), z3.Implies(z3.Length(t) == 0, t == z3.Empty(ISeq))]
    if z3.is_app_of(t, z3.Z3_OP_SEQ_CONCAT) and _is_unit(t.children()[-1]):
        ch = t.children()
        pre = ch[0] if len(ch) == 2 else z3.Concat(*ch[:-1])
        out += snoc_facts(pre, ch[-1].arg(0))
        seq_facts(pre, out, seen)
    elif z3.is_app_of(t, z3.Z3_OP_SEQ_EXTRACT):
        base, off, ln = t.children()
        if z3.is_true(z3.simplify(off == 0)) and z3.is_true(z3.simplify(ln == z3.Length(base) - 1)):
            last = base[z3.Length(base) - 1]
            out.append(z3.Implies(z3.Length(base) > 0, base == z3.Concat(t, z3.Unit(last))))          # sequence identity
            out += snoc_facts(t, last)
        seq_facts(base, out, seen)
    return out


def wf_sym(Z, A, Ldom, Lval, min_int, zero):
    w = z3.Int("wq")
    SZ, SA = SETOF(Z), SETOF(A)
    pool = z3.SetUnion(SZ, SA, Ldom)
    parts = [NODUP(Z), NODUP(A), z3.SetIntersect(SZ, SA) == EMPTY, z3.SetIntersect(SZ, Ldom) == EMPTY, z3.SetIntersect(SA, Ldom) == EMPTY,
             z3.IsSubset(SZ, zero),
             z3.ForAll([w], z3.Implies(z3.Select(Ldom, w), z3.Or(z3.Select(Lval, w) == ZERO_, z3.Select(Lval, w) == ANY_)))]
    if min_int is None:
        parts.append(z3.IsSubset(pool, GIVEN))
    else:
        m = S._t(min_int)
        parts += [z3.ForAll([w], z3.Implies(z3.Select(pool, w), z3.And(w < m, z3.Or(z3.Select(GIVEN, w), w >= M0)))),
                  z3.ForAll([w], z3.Implies(z3.Select(STATIC, w), w < M0)), M0 <= m,
                  z3.ForAll([w], z3.Implies(w >= m, z3.Select(zero, w)))]
    return z3.And(*parts)


# ---------------------------------------------------------------------------------------------- symbolic values with own extraction
class RegDict(dict):
    """the `_registers` dictionary {ZERO: Z, ANY: A} (python dict with the two concrete enum keys)"""

    def snapshot(self):
        return RegDict({k: v.snapshot() for k, v in self.items()})

    def concretize_with(self, world, model):
        return {"__registers__": True, "zero": concretize(world, self[ZERO_], model), "any": concretize(world, self[ANY_], model)}


class LoanMap(MapV):
    """the `_loaned` dictionary wire -> register type"""
    plain_map = True

    def snapshot(self):
        return LoanMap(self.dom, self.val, self.key_t, self.val_t)

    def concretize_with(self, world, model):
        cands = set(range(-3, 13))
        for d in model.decls():
            if d.arity() == 0 and d.range() == I_:
                v = model[d]
                if z3.is_int_value(v):
                    cands.add(v.as_long())
        out = []
        for k in sorted(cands):
            if z3.is_true(model.eval(z3.Select(self.dom, z3.IntVal(k)), model_completion=True)):
                out.append([k, model.eval(z3.Select(self.val, z3.IntVal(k)), model_completion=True).as_long()])
        return {"__loans__": out}


def fresh_loans(ctx, name):
    return LoanMap(z3.Const(ctx.fresh_name(name + ".dom"), ISet), z3.Const(ctx.fresh_name(name + ".val"), z3.ArraySort(I_, I_)), Int, Int)


# ---------------------------------------------------------------------------------------------- native reference (replay)
def enum_of(mod, v):
    st = importlib.import_module("pennylane.allocation").AllocateState
    return {ZERO_: st.ZERO, ANY_: st.ANY, MAGIC_T_: st.MAGIC_T, MAGIC_T_ADJ_: st.MAGIC_T_ADJ}[int(v) % 4 if not isinstance(v, str) else 0]


def enum_code(v):
    return {"zero": ZERO_, "any": ANY_, "magic-T": MAGIC_T_, "magic-T-adj": MAGIC_T_ADJ_}[str(v.value if hasattr(v, "value") else v)]


def native_manager(m, min_int_none):
    """real _WireManager from concretized model data (dict of the record fields)"""
    mod = importlib.import_module(RMOD)
    regs = m.get("_registers") or {}
    Z = [int(x) for x in (regs.get("zero") or [])] if isinstance(regs, dict) else []
    A = [int(x) for x in (regs.get("any") or [])] if isinstance(regs, dict) else []
    loans = m.get("_loaned") or {}
    loans = loans.get("__loans__", loans.get("__map__", [])) if isinstance(loans, dict) else []
    mgr = mod._WireManager(zeroed=Z, any_state=A, min_int=None if min_int_none else int(m.get("min_int") or 0),
                           allow_resets=bool(m.get("allow_resets")))
    mgr._loaned = {int(k): enum_of(mod, v) for k, v in loans}
    return mgr


def view(mgr):
    """abstract state of a real manager"""
    regs = {enum_code(k): list(v) for k, v in mgr._registers.items()}
    return dict(Z=regs[ZERO_], A=regs[ANY_], L={k: enum_code(v) for k, v in mgr._loaned.items()}, m=mgr.min_int, resets=mgr.allow_resets)


def wf_native(v, static=(), zero=None):
    Z, A, L, m = v["Z"], v["A"], v["L"], v["m"]
    ok = len(set(Z)) == len(Z) and len(set(A)) == len(A) and not (set(Z) & set(A)) and not (set(Z) & set(L)) and not (set(A) & set(L))
    ok = ok and all(x in (ZERO_, ANY_) for x in L.values())
    if m is not None:
        ok = ok and all(isinstance(w, int) and w < m for w in list(Z) + list(A) + list(L) + list(static))
    return ok


def build(tier, seed):
    plan = Plan(PID, level="proof")
    plan.explanation = (
        "The real bodies of _WireManager.{__init__, get_wire, _get_zeroed, _get_any, _add_new_wire, return_wire} are executed symbolically on "
        "free stacks of SYMBOLIC length, a symbolic loan map and symbolic min_int; the generator _new_ops runs over an operation sequence of "
        "symbolic length (three nested/sequential loops cut by the invariant: manager well-formed, wire_map injective with range inside the "
        "loaned wires) with get_wire/return_wire used through their verified contracts; the device call site is checked (size-bounded) "
        "against the freshness precondition of min_int.")
    plan.trusted_base = ["vf/pyvc encoder (Python subset; additive: dict indexed by a symbolic enum value, d[k] = v on symbolic maps, `yield from`)",
                         "z3 (sequences, arrays as sets/maps, quantified well-formedness clauses)",
                         "setof/nodup spec functions used through instances of their defining recursion"]
    plan.assumptions = [
        "wire labels are modelled as integers (all hashable labels are points of one infinite set; minted wires are python ints)",
        "A-zero-ghost: a free wire keeps its state; a wire >= min_int has never been used and is in |0>; `restored=True` is the user's promise "
        "that the wire comes back in the state it was handed out in; the wires of the `zeroed` register are in |0> (caller's promise) and the "
        "static circuit does not act on wires of the registers it handed in",
        "AllocateState is an enumeration of four distinct members",
        "caller obligation of min_int (stated as precondition, checked at the device call site): every static / given integer wire is < min_int"]
    plan.assumed_contracts = [
        "qp.measure(w, reset=True).measurements is a one-element list: a mid-circuit measurement of wire w with reset (establishes |0> on w)",
        "Operator.map_wires(wire_map) returns an operator (its wires are not inspected); set(op.wires) / set.intersection: the size of "
        "the intersection is an uninterpreted non-negative number, 0 when the deallocated set is empty",
        "Allocate / Deallocate operators are records (name, wires, hyperparameters = {state, restored})"]
    plan.dropped = ["docstrings, annotations, exception messages"]
    plan.unverified = ["the resolved circuit gives the same results as a fresh wire per allocation (simulator semantics)",
                       "`restored=True` is trusted as the user's promise",
                       "programs that deallocate a dynamic wire that is not live (KeyError from wire_map.pop: malformed input, not characterised)",
                       "use of a dynamic wire after deallocation is only checked as 'AllocationError may be raised'"]

    contracts = []

    # ============================================================================================== manager level
    def b_measure(it, args, kw):
        w = args[0]
        tok = Model()
        tok.measurements = PyList([("mcm", w, kw.get("reset", False))])
        return tok

    def b_map_pop(it, args, kw):
        """dict.pop(key) on a symbolic finite map"""
        m, key = args[0], args[1]
        if not isinstance(m, MapV) or len(args) != 2 or kw:
            raise Unsupp("pop of this value")
        k = it.world.box(key, m.key_t)
        if not it.ctx.branch(z3.Select(m.dom, k)):
            raise RaiseExc("KeyError")
        v = it.world.unbox(z3.Select(m.val, k), m.val_t)
        m.dom = z3.Store(m.dom, k, z3.BoolVal(False))
        return v

    def b_truthy(it, args, kw):
        v = args[0]
        if isinstance(v, MapV):
            return v.dom != z3.K(v.dom.sort().domain(), z3.BoolVal(False))
        raise Unsupp(f"truthiness of {v!r}")

    wm = World(RDW, classes={"_WireManager": {"_registers": NoneV, "_loaned": NoneV, "min_int": Int, "allow_resets": Bool},
                             "AllocateState": (ALLOC, {})},
               extra_builtins={"measure": b_measure, "method:pop": b_map_pop, "truthy": b_truthy})

    cell = {}

    def mgr_ghost(ctx, a):
        cell["ctx"] = ctx
        ctx.class_state = dict(ENUM)

    def regs_type():
        return T("build", lambda ctx, name: RegDict({ZERO_: fresh(ctx, SeqT(Int), "zeroed"), ANY_: fresh(ctx, SeqT(Int), "any_state")}),
                 gen=lambda rng: {"__registers__": True, "zero": [], "any": []})

    def mgr_type(min_int_none):
        return T("rec", "_WireManager", override={"_registers": regs_type(), "_loaned": T("build", fresh_loans, gen=lambda rng: {"__loans__": []}),
                                                  "min_int": NoneV if min_int_none else Int})

    def parts(mgr):
        """(Z term, A term, L dom, L val, min_int) of a symbolic manager"""
        r = mgr.f["_registers"]
        return r[ZERO_].term, r[ANY_].term, mgr.f["_loaned"].dom, mgr.f["_loaned"].val, mgr.f["min_int"]

    def wf_of(mgr, zero=ZERO0):
        return wf_sym(*parts(mgr), zero)

    def is_nat(x):
        return not isinstance(x, Rec)

    def random_state(rng, min_int_none):
        """a well-formed native state"""
        pool = list(range(0, 7))
        rng.shuffle(pool)
        nz, na, nl = rng.choice([0, 0, 1, 2]), rng.choice([0, 0, 1, 2]), rng.choice([0, 1, 2])
        Z, A, Lk = pool[:nz], pool[nz:nz + na], pool[nz + na:nz + na + nl]
        return dict(_registers={"__registers__": True, "zero": Z, "any": A}, _loaned={"__loans__": [[k, rng.choice([0, 1])] for k in Lk]},
                    min_int=None if min_int_none else 7 + rng.choice([0, 1, 3]), allow_resets=rng.random() < 0.5)

    def mgr_gen(min_int_none, extra=None):
        def gen(rng, m):
            m = dict(m)
            slf = dict(m["self"]) if isinstance(m.get("self"), dict) else {}
            if rng is not None:
                slf.update(random_state(rng, min_int_none))
            m["self"] = native_manager(slf, min_int_none)
            if "state" in m:
                m["state"] = enum_of(None, (int(m["state"]) % 2) if rng is not None else int(m["state"]))
            if "wire" in m and rng is not None and m["self"]._loaned:
                m["wire"] = rng.choice(sorted(m["self"]._loaned))
            if extra:
                m = extra(rng, m)
            return m
        return gen

    # ---- get_wire
    def cannot_supply(o, min_int_none, for_state=None):
        """no wire can be supplied: min_int is None and (both stacks empty, or a zeroed wire is needed, resets are not allowed, Z is empty)"""
        if not min_int_none:
            return False
        if is_nat(o.self):
            v = view(o.self)
            st = enum_code(o.state) if for_state is None else for_state
            return (not v["Z"] and not v["A"]) or (st == ZERO_ and not v["resets"] and not v["Z"])
        Z, A, _, _, _ = parts(o.self)
        st = o.state if for_state is None else for_state
        return z3.Or(z3.And(z3.Length(Z) == 0, z3.Length(A) == 0),
                     z3.And(S._t(st) == ZERO_, z3.Not(o.self.allow_resets), z3.Length(Z) == 0))

    def unchanged(o, nw):
        if is_nat(o.self):
            return view(o.self) == view(nw.self)
        a, b = parts(o.self), parts(nw.self)
        same_m = (a[4] is None and b[4] is None) or (a[4] is not None and b[4] is not None and same_int(a[4], b[4]))
        return And(a[0] == b[0], a[1] == b[1], a[2] == b[2], a[3] == b[3], same_m)

    def reset_of(ops, w):
        """`ops` is exactly one reset measurement of wire w"""
        if isinstance(ops, PyList):
            return len(ops.items) == 1 and isinstance(ops.items[0], tuple) and ops.items[0][0] == "mcm" and ops.items[0][2] is True and \
                same_int(ops.items[0][1], w)
        return len(ops) == 1 and getattr(ops[0], "reset", False) is True and list(ops[0].wires) == [w] and type(ops[0]).__name__ == "MidMeasure"

    def no_ops(ops):
        return (isinstance(ops, PyList) and not ops.items) or (isinstance(ops, list) and not ops)

    def post_get(min_int_none, fixed_state=None):
        def post(o, r, nw):
            if not (isinstance(r, tuple) and len(r) == 2):
                return False
            w, ops = r
            restored = o.restored
            if is_nat(o.self):
                b, a = view(o.self), view(nw.self)
                st = enum_code(o.state) if fixed_state is None else fixed_state
                minted = (b["m"] is not None and w == b["m"] and w not in b["Z"] and w not in b["A"])
                from_z, from_a = bool(b["Z"]) and w == b["Z"][-1], bool(b["A"]) and w == b["A"][-1]
                stacks = (from_z and a["Z"] == b["Z"][:-1] and a["A"] == b["A"]) or (from_a and a["A"] == b["A"][:-1] and a["Z"] == b["Z"]) \
                    or (minted and a["Z"] == b["Z"] and a["A"] == b["A"] and a["m"] == b["m"] + 1)
                was_zero = from_z or minted
                rec = a["L"].get(w)
                loans = w not in b["L"] and {k: v for k, v in a["L"].items() if k != w} == b["L"] and rec in (ZERO_, ANY_)
                rec_ok = rec != ZERO_ or (bool(restored) and (was_zero or reset_of(ops, w)))
                zero_ok = (no_ops(ops) and was_zero) or reset_of(ops, w) if st == ZERO_ else no_ops(ops)
                m_ok = minted or a["m"] == b["m"]
                return bool(stacks and loans and rec_ok and zero_ok and m_ok and wf_native(a))
            Z0, A0, D0, V0, m0 = parts(o.self)
            Z1, A1, D1, V1, m1 = parts(nw.self)
            st = S._t(o.state if fixed_state is None else fixed_state)
            wt = S._t(w)
            from_z = z3.And(z3.Length(Z0) > 0, wt == Z0[z3.Length(Z0) - 1], Z1 == z3.Extract(Z0, 0, z3.Length(Z0) - 1), A1 == A0)
            from_a = z3.And(z3.Length(A0) > 0, wt == A0[z3.Length(A0) - 1], A1 == z3.Extract(A0, 0, z3.Length(A0) - 1), Z1 == Z0)
            if m0 is None:
                minted, m_same = z3.BoolVal(False), m1 is None
            else:
                minted = z3.And(wt == m0, Z1 == Z0, A1 == A0, S._t(m1) == m0 + 1)
                m_same = S._t(m1) == m0
            was_zero = z3.Or(z3.Select(ZERO0, wt))
            rst = reset_of(ops, w)
            rec = z3.Select(V1, wt)
            if no_ops(ops):
                zero_ok = z3.If(st == ZERO_, z3.Select(ZERO0, wt), z3.BoolVal(True))
                zero_at_handout = z3.Select(ZERO0, wt)
            else:
                zero_ok = And(rst, st == ZERO_)
                zero_at_handout = S._t(rst) if isinstance(rst, bool) else rst
            return And(
                z3.Not(z3.Select(D0, wt)), D1 == z3.Store(D0, wt, True), V1 == z3.Store(V0, wt, rec),        # exactly one new loan
                z3.Or(rec == ZERO_, rec == ANY_),
                z3.Implies(rec == ZERO_, z3.And(S._t(restored), zero_at_handout)),                              # loan record is sound
                z3.Or(from_z, from_a, minted), z3.Or(minted, m_same),                                            # LIFO pop / fresh wire
                z3.Or(z3.Select(SETOF(Z0), wt), z3.Select(SETOF(A0), wt), minted),
                zero_ok,                                                                                         # |0> when requested
                z3.Implies(z3.Select(STATIC, wt), z3.Select(GIVEN, wt)),                                         # static wire only if handed in
                wf_of(nw.self))
        return post

    def get_axioms(o, r, nw):
        Z1, A1, _, _, _ = parts(nw.self)
        return seq_facts(Z1) + seq_facts(A1)

    def get_requires(a):
        if is_nat(a.self):
            return wf_native(view(a.self))
        return z3.And(wf_of(a.self), z3.Or(S._t(a.state) == ZERO_, S._t(a.state) == ANY_)) if hasattr(a, "state") else wf_of(a.self)

    for mn in (False, True):
        lab = "min_int None" if mn else "min_int given"
        cs = Case(lab, {"self": mgr_type(mn), "state": Int, "restored": Bool}, ghost=mgr_ghost, requires=get_requires,
                  ensures=post_get(mn), axioms=get_axioms, raises={"AllocationError": lambda o, mn=mn: cannot_supply(o, mn)},
                  must_return=lambda o, mn=mn: Not(cannot_supply(o, mn)), native_gen=mgr_gen(mn))
        cs.exc_ensures = lambda name, o, nw: unchanged(o, nw)
        contracts.append(FnContract(wm, "_WireManager.get_wire", [cs]))

    # ---- helpers under their call-site preconditions (from get_wire: at least one stack is non-empty)
    def some_free(a):
        if is_nat(a.self):
            v = view(a.self)
            return wf_native(v) and bool(v["Z"] or v["A"])
        Z, A, _, _, _ = parts(a.self)
        return z3.And(wf_of(a.self), z3.Or(z3.Length(Z) > 0, z3.Length(A) > 0))

    class FixedState:
        """adapter: the helper contracts are get_wire's contract at a fixed state"""

    def helper_case(lab, mn, state_code, requires):
        cs = Case(lab, {"self": mgr_type(mn), "restored": Bool}, ghost=mgr_ghost, requires=requires, ensures=post_get(mn, state_code),
                  axioms=get_axioms, raises={"AllocationError": lambda o: cannot_supply(o, mn, state_code)},
                  must_return=lambda o: Not(cannot_supply(o, mn, state_code)), native_gen=mgr_gen(mn))
        cs.exc_ensures = lambda name, o, nw: unchanged(o, nw)
        return cs
    for mn in (False, True):
        lab = "min_int None" if mn else "min_int given"
        # F8: the unguarded pops in _get_zeroed / _get_any never see an empty stack under the call-site precondition: IndexError not allowed
        contracts.append(FnContract(wm, "_WireManager._get_zeroed", [helper_case(lab, mn, ZERO_, some_free)]))
        contracts.append(FnContract(wm, "_WireManager._get_any", [helper_case(lab, mn, ANY_, some_free)]))

    def post_add_new(o, r, nw):
        if is_nat(o.self):
            b, a = view(o.self), view(nw.self)
            return r is None and a["Z"] == b["Z"] + [b["m"]] and a["A"] == b["A"] and a["L"] == b["L"] and a["m"] == b["m"] + 1 and wf_native(a)
        Z0, A0, D0, V0, m0 = parts(o.self)
        Z1, A1, D1, V1, m1 = parts(nw.self)
        return And(r is None, Z1 == z3.Concat(Z0, z3.Unit(m0)), A1 == A0, D1 == D0, V1 == V0, S._t(m1) == m0 + 1, wf_of(nw.self))
    contracts.append(FnContract(wm, "_WireManager._add_new_wire", [
        Case("min_int given", {"self": mgr_type(False)}, ghost=mgr_ghost, requires=get_requires, ensures=post_add_new, axioms=get_axioms,
             native_gen=mgr_gen(False))]))
    an = Case("min_int None", {"self": mgr_type(True)}, ghost=mgr_ghost, requires=get_requires, ensures=lambda o, r, nw: False,
              raises={"AllocationError": lambda o: True}, must_return=lambda o: False, native_gen=mgr_gen(True))
    an.exc_ensures = lambda name, o, nw: unchanged(o, nw)
    contracts.append(FnContract(wm, "_WireManager._add_new_wire", [an]))

    # ---- return_wire
    def ret_requires(a):
        if is_nat(a.self):
            return wf_native(view(a.self)) and a.wire in view(a.self)["L"]
        _, _, D, _, _ = parts(a.self)
        return z3.And(wf_of(a.self), z3.Select(D, S._t(a.wire)))

    def post_return(o, r, nw):
        if is_nat(o.self):
            b, a = view(o.self), view(nw.self)
            reg = b["L"][o.wire]
            return r is None and a["L"] == {k: v for k, v in b["L"].items() if k != o.wire} and a["m"] == b["m"] and wf_native(a) and \
                a["Z"] == b["Z"] + ([o.wire] if reg == ZERO_ else []) and a["A"] == b["A"] + ([o.wire] if reg == ANY_ else [])
        Z0, A0, D0, V0, m0 = parts(o.self)
        Z1, A1, D1, V1, m1 = parts(nw.self)
        w = S._t(o.wire)
        reg = z3.Select(V0, w)
        # ghost update of Zero: a wire recorded as ZERO comes back in |0> (the user's `restored` promise); otherwise nothing is known
        zero1 = z3.Store(ZERO0, w, reg == ZERO_)
        to_z = z3.And(reg == ZERO_, Z1 == z3.Concat(Z0, z3.Unit(w)), A1 == A0)
        to_a = z3.And(reg == ANY_, A1 == z3.Concat(A0, z3.Unit(w)), Z1 == Z0)
        same_m = (m0 is None and m1 is None) or (m0 is not None and m1 is not None and same_int(m0, m1))
        return And(r is None, D1 == z3.Store(D0, w, False), z3.Or(to_z, to_a), same_m, wf_of(nw.self, zero1))
    for mn in (False, True):
        contracts.append(FnContract(wm, "_WireManager.return_wire", [
            Case("min_int None" if mn else "min_int given", {"self": mgr_type(mn), "wire": Int}, ghost=mgr_ghost, requires=ret_requires,
                 ensures=post_return, axioms=get_axioms, native_gen=mgr_gen(mn))]))

    # ---- __init__: the registers handed in become the free stacks, nothing is on loan
    def init_requires(mn):
        def req(a):
            if not isinstance(a.zeroed, SeqV):
                Z, A = list(a.zeroed), list(a.any_state)
                return wf_native(dict(Z=Z, A=A, L={}, m=None if mn else a.min_int))
            Z, A = a.zeroed.term, a.any_state.term
            mi = None if mn else a.min_int
            return z3.And(wf_sym(Z, A, EMPTY, z3.K(I_, z3.IntVal(0)), mi, ZERO0), *seq_facts(Z), *seq_facts(A))
        return req

    def post_init(mn):
        def post(o, r, nw):
            if not isinstance(nw.self, Rec):
                a = view(nw.self)
                return a["Z"] == list(o.zeroed) and a["A"] == list(o.any_state) and a["L"] == {} and a["m"] == (None if mn else o.min_int) and \
                    a["resets"] == o.allow_resets and wf_native(a)
            regs = nw.self.f["_registers"]
            if not (isinstance(regs, dict) and set(regs) == {ZERO_, ANY_} and isinstance(regs[ZERO_], SeqV) and isinstance(regs[ANY_], SeqV)):
                return False
            L = nw.self.f["_loaned"]
            if not (isinstance(L, dict) and not L):
                return False
            mi = nw.self.f["min_int"]
            m_ok = (mi is None) if mn else same_int(mi, o.min_int)
            lists = (not regs[ZERO_].is_tuple) and (not regs[ANY_].is_tuple)          # fresh lists, not the caller's tuples
            return And(lists, regs[ZERO_].term == o.zeroed.term, regs[ANY_].term == o.any_state.term, m_ok,
                       S._t(nw.self.f["allow_resets"]) == S._t(o.allow_resets))
        return post

    def init_call(mod, args):
        obj = mod._WireManager(zeroed=args["zeroed"], any_state=args["any_state"], min_int=args["min_int"], allow_resets=args["allow_resets"])
        args["self"] = obj
        return None

    def init_gen(mn):
        def gen(rng, m):
            m = dict(m)
            if rng is not None:
                st = random_state(rng, mn)
                m.update(zeroed=st["_registers"]["zero"], any_state=st["_registers"]["any"], min_int=st["min_int"])
            m["zeroed"], m["any_state"] = tuple(m["zeroed"]), tuple(m["any_state"])
            if mn:
                m["min_int"] = None
            m["self"] = None
            return m
        return gen
    blank = T("rec", "_WireManager", override={"_registers": NoneV, "_loaned": NoneV, "min_int": NoneV, "allow_resets": NoneV})
    for mn in (False, True):
        contracts.append(FnContract(wm, "_WireManager.__init__", [
            Case("min_int None" if mn else "min_int given",
                 {"self": blank, "zeroed": SeqT(Int, tuple=True), "any_state": SeqT(Int, tuple=True), "min_int": NoneV if mn else Int,
                  "allow_resets": Bool}, ghost=mgr_ghost, requires=init_requires(mn), ensures=post_init(mn), native_call=init_call,
                 native_gen=init_gen(mn))]))

    for fc in contracts:
        plan.fn_under_contract(fc.world.file, fc.qualname)
        for ob in obligations_for(PID, fc, tier):
            plan.add(ob)
    return plan
