"""C22 Dynamic wire allocation never aliases live wires.

Abstract state of the allocator `_WireManager` (real code of transforms/resolve_dynamic_wires.py):
    Z, A .......... the free stacks `_registers[ZERO]`, `_registers[ANY]` (sequences of SYMBOLIC length; concrete wires are ints:
                    every hashable label is a point of one infinite set, minted wires are ints)
    L ............. the loan map `_loaned` (wire -> register it goes back to)
    min_int ....... next wire to mint (or None)
  ghost: Static (wires of the static circuit), Given (wires handed to the allocator), M0 (the min_int the allocator started with),
         Zero (the wires that are in |0> now: a free wire keeps its state, a reset measurement establishes it, `restored=True`
         is the user's promise that a wire comes back in the state it was handed out in).
well_formed:  Z, A duplicate-free;  Z, A, dom L pairwise disjoint;  Z subset of Zero;  L maps into {ZERO, ANY};
              Z u A u dom L  subset of  Given u [M0, min_int);   every wire of Z u A u dom L u Static is < min_int;  Static < M0 <= min_int;
              every wire >= min_int is unused and in |0>.
`setof` / `nodup` of a stack are spec functions used through INSTANCES of their defining recursion (empty, snoc) for exactly the
stack terms the code builds (append = snoc, pop = inverse snoc).
"""
import copy
import importlib

import z3

from vf.common import Plan
from vf.pyvc.engine import (World, T, Int, Bool, Label, RecT, SeqT, MapT, ListT, Rec, PyList, SeqV, MapV, FuncRef, Model, Unsupp, RaiseExc,
                            fresh, concretize, to_int_term, is_intlike)
from vf.pyvc.contract import FnContract, Case, LoopSpec, obligations_for, lemma
from vf.pyvc import spec as S
from vf.pyvc.spec import And, Or, Not, If

PID = "C22"
RDW = "pennylane/transforms/resolve_dynamic_wires.py"
RMOD = "pennylane.transforms.resolve_dynamic_wires"
ALLOC = "pennylane/allocation.py"
PRE = "pennylane/devices/preprocess.py"

ZERO_, ANY_, MAGIC_T_, MAGIC_T_ADJ_ = 0, 1, 2, 3          # AllocateState members (an enumeration: four distinct values)
ENUM = {("AllocateState", "ZERO"): ZERO_, ("AllocateState", "ANY"): ANY_, ("AllocateState", "MAGIC_T"): MAGIC_T_,
        ("AllocateState", "MAGIC_T_ADJ"): MAGIC_T_ADJ_}
I_ = z3.IntSort()
ISeq = z3.SeqSort(I_)
ISet = z3.ArraySort(I_, z3.BoolSort())
EMPTY = z3.K(I_, z3.BoolVal(False))
NoneV = T("const", None)

SETOF = z3.Function("setof", ISeq, ISet)
NODUP = z3.Function("nodup", ISeq, z3.BoolSort())
STATIC = z3.Const("Static", ISet)
GIVEN = z3.Const("Given", ISet)
M0 = z3.Int("min_int_at_start")
ZERO0 = z3.Const("Zero", ISet)


def sym(*xs):
    return any(isinstance(x, z3.ExprRef) for x in xs)


def Label_sort():
    from vf.pyvc.engine import LabelSort
    return LabelSort


def same_int(a, b):
    ok = lambda x: (isinstance(x, int) and not isinstance(x, bool)) or (isinstance(x, z3.ArithRef) and x.is_int())
    if ok(a) and ok(b):
        return S._t(a) == S._t(b)
    return False


# ---------------------------------------------------------------------------------------------- setof / nodup instances
def _is_unit(t):
    return z3.is_app_of(t, z3.Z3_OP_SEQ_UNIT)


def snoc_facts(pre, x):
    """defining equations of setof / nodup at  pre ++ [x]"""
    c = z3.Concat(pre, z3.Unit(x))
    return [SETOF(c) == z3.Store(SETOF(pre), x, True), NODUP(c) == z3.And(NODUP(pre), z3.Not(z3.Select(SETOF(pre), x)))]


def seq_facts(t, out=None, seen=None):
    """instances of the definitions of setof/nodup for the stack term `t` as the code built it (append: snoc; pop: the popped list is
    the prefix of its source, source == prefix ++ [last]) -- every fact is either a defining equation or a valid sequence identity"""
    out = [] if out is None else out
    seen = set() if seen is None else seen
    if t.get_id() in seen:
        return out
    seen.add(t.get_id())
    out += [SETOF(z3.Empty(ISeq)) == EMPTY, NODUP(z3.Empty(ISeq)), z3.Implies(z3.Length(t) == 0, t == z3.Empty(ISeq))]
    if z3.is_app_of(t, z3.Z3_OP_SEQ_CONCAT) and _is_unit(t.children()[-1]):
        ch = t.children()
        pre = ch[0] if len(ch) == 2 else z3.Concat(*ch[:-1])
        out += snoc_facts(pre, ch[-1].arg(0))
        seq_facts(pre, out, seen)
    elif z3.is_app_of(t, z3.Z3_OP_SEQ_EXTRACT):
        base, off, ln = t.children()
        if z3.is_true(z3.simplify(off == 0)) and z3.is_true(z3.simplify(ln == z3.Length(base) - 1)):
            last = base[z3.Length(base) - 1]
            out.append(z3.Implies(z3.Length(base) > 0, base == z3.Concat(t, z3.Unit(last))))          # sequence identity
            out += snoc_facts(t, last)
        seq_facts(base, out, seen)
    return out


def wf_sym(Z, A, Ldom, Lval, min_int, zero):
    w = z3.Int("wq")
    SZ, SA = SETOF(Z), SETOF(A)
    pool = z3.SetUnion(SZ, SA, Ldom)
    parts = [NODUP(Z), NODUP(A), z3.SetIntersect(SZ, SA) == EMPTY, z3.SetIntersect(SZ, Ldom) == EMPTY, z3.SetIntersect(SA, Ldom) == EMPTY,
             z3.IsSubset(SZ, zero),
             z3.ForAll([w], z3.Implies(z3.Select(Ldom, w), z3.Or(z3.Select(Lval, w) == ZERO_, z3.Select(Lval, w) == ANY_)))]
    if min_int is None:
        parts.append(z3.IsSubset(pool, GIVEN))
    else:
        m = S._t(min_int)
        parts += [z3.ForAll([w], z3.Implies(z3.Select(pool, w), z3.And(w < m, z3.Or(z3.Select(GIVEN, w), w >= M0)))),
                  z3.ForAll([w], z3.Implies(z3.Select(STATIC, w), w < M0)), M0 <= m,
                  z3.ForAll([w], z3.Implies(w >= m, z3.Select(zero, w)))]
    return z3.And(*parts)


def get_wire_post_sym(pre, post, st, restored, wt, reset, zero):
    """postcondition of get_wire(state, restored) -> (w, ops) over the abstract state; `reset`: ops is exactly one reset measurement of w
    (otherwise ops is empty).  Used as the verified postcondition of the real method AND as its contract at the call site in _new_ops."""
    Z0, A0, D0, V0, m0 = pre
    Z1, A1, D1, V1, m1 = post
    reset = z3.BoolVal(reset) if isinstance(reset, bool) else reset
    from_z = z3.And(z3.Length(Z0) > 0, wt == Z0[z3.Length(Z0) - 1], Z1 == z3.Extract(Z0, 0, z3.Length(Z0) - 1), A1 == A0)
    from_a = z3.And(z3.Length(A0) > 0, wt == A0[z3.Length(A0) - 1], A1 == z3.Extract(A0, 0, z3.Length(A0) - 1), Z1 == Z0)
    if m0 is None:
        if m1 is not None:
            return z3.BoolVal(False)
        minted, m_same = z3.BoolVal(False), z3.BoolVal(True)
    else:
        if m1 is None:
            return z3.BoolVal(False)
        minted = z3.And(wt == m0, Z1 == Z0, A1 == A0, S._t(m1) == m0 + 1)
        m_same = S._t(m1) == m0
    rec = z3.Select(V1, wt)
    zero_at_handout = z3.Or(reset, z3.Select(zero, wt))
    return z3.And(
        z3.Not(z3.Select(D0, wt)), D1 == z3.Store(D0, wt, True), V1 == z3.Store(V0, wt, rec),        # exactly one new loan
        z3.Or(rec == ZERO_, rec == ANY_),
        z3.Implies(rec == ZERO_, z3.And(S._t(restored), zero_at_handout)),                              # the loan record is sound
        z3.Or(from_z, from_a, minted), z3.Or(minted, m_same),                                            # LIFO pop / fresh wire
        z3.Or(z3.Select(SETOF(Z0), wt), z3.Select(SETOF(A0), wt), minted),
        z3.Implies(st == ZERO_, zero_at_handout), z3.Implies(reset, st == ZERO_),                        # |0> when requested
        z3.Implies(z3.Select(STATIC, wt), z3.Select(GIVEN, wt)),                                         # static wire only if handed in
        wf_sym(*post, zero))


def cannot_supply_sym(Z, A, allow_resets, min_int, st):
    if min_int is not None:
        return z3.BoolVal(False)
    return z3.Or(z3.And(z3.Length(Z) == 0, z3.Length(A) == 0), z3.And(st == ZERO_, z3.Not(allow_resets), z3.Length(Z) == 0))


def return_wire_post_sym(pre, post, w, zero):
    """postcondition of return_wire(w) and the ghost update of Zero: a wire recorded as ZERO comes back in |0> (the user's `restored`
    promise); for a wire recorded as ANY nothing is known"""
    Z0, A0, D0, V0, m0 = pre
    Z1, A1, D1, V1, m1 = post
    reg = z3.Select(V0, w)
    zero1 = z3.Store(zero, w, reg == ZERO_)
    to_z = z3.And(reg == ZERO_, Z1 == z3.Concat(Z0, z3.Unit(w)), A1 == A0)
    to_a = z3.And(reg == ANY_, A1 == z3.Concat(A0, z3.Unit(w)), Z1 == Z0)
    if (m0 is None) != (m1 is None):
        return z3.BoolVal(False), zero1
    same_m = z3.BoolVal(True) if m0 is None else S._t(m0) == S._t(m1)
    return z3.And(D1 == z3.Store(D0, w, False), z3.Or(to_z, to_a), same_m, wf_sym(*post, zero1)), zero1


# ---------------------------------------------------------------------------------------------- symbolic values with own extraction
class RegDict(dict):
    """the `_registers` dictionary {ZERO: Z, ANY: A} (python dict with the two concrete enum keys)"""

    def snapshot(self):
        return RegDict({k: v.snapshot() for k, v in self.items()})

    def concretize_with(self, world, model):
        return {"__registers__": True, "zero": concretize(world, self[ZERO_], model), "any": concretize(world, self[ANY_], model)}


class LoanMap(MapV):
    """the `_loaned` dictionary wire -> register type"""
    plain_map = True

    def snapshot(self):
        return LoanMap(self.dom, self.val, self.key_t, self.val_t)

    def concretize_with(self, world, model):
        cands = set(range(-3, 13))
        for d in model.decls():
            if d.arity() == 0 and d.range() == I_:
                v = model[d]
                if z3.is_int_value(v):
                    cands.add(v.as_long())
        out = []
        for k in sorted(cands):
            if z3.is_true(model.eval(z3.Select(self.dom, z3.IntVal(k)), model_completion=True)):
                out.append([k, model.eval(z3.Select(self.val, z3.IntVal(k)), model_completion=True).as_long()])
        return {"__loans__": out}


def fresh_loans(ctx, name):
    return LoanMap(z3.Const(ctx.fresh_name(name + ".dom"), ISet), z3.Const(ctx.fresh_name(name + ".val"), z3.ArraySort(I_, I_)), Int, Int)


# ---------------------------------------------------------------------------------------------- native reference (replay)
def enum_of(mod, v):
    st = importlib.import_module("pennylane.allocation").AllocateState
    return {ZERO_: st.ZERO, ANY_: st.ANY, MAGIC_T_: st.MAGIC_T, MAGIC_T_ADJ_: st.MAGIC_T_ADJ}[int(v) % 4 if not isinstance(v, str) else 0]


def enum_code(v):
    return {"zero": ZERO_, "any": ANY_, "magic-T": MAGIC_T_, "magic-T-adj": MAGIC_T_ADJ_}[str(v.value if hasattr(v, "value") else v)]


def native_manager(m, min_int_none):
    """real _WireManager from concretized model data (dict of the record fields)"""
    mod = importlib.import_module(RMOD)
    regs = m.get("_registers") or {}
    Z = [int(x) for x in (regs.get("zero") or [])] if isinstance(regs, dict) else []
    A = [int(x) for x in (regs.get("any") or [])] if isinstance(regs, dict) else []
    loans = m.get("_loaned") or {}
    loans = loans.get("__loans__", loans.get("__map__", [])) if isinstance(loans, dict) else []
    mgr = mod._WireManager(zeroed=Z, any_state=A, min_int=None if min_int_none else int(m.get("min_int") or 0),
                           allow_resets=bool(m.get("allow_resets")))
    mgr._loaned = {int(k): enum_of(mod, v) for k, v in loans}
    return mgr


def view(mgr):
    """abstract state of a real manager"""
    regs = {enum_code(k): list(v) for k, v in mgr._registers.items()}
    return dict(Z=regs[ZERO_], A=regs[ANY_], L={k: enum_code(v) for k, v in mgr._loaned.items()}, m=mgr.min_int, resets=mgr.allow_resets)


def wf_native(v, static=(), zero=None):
    Z, A, L, m = v["Z"], v["A"], v["L"], v["m"]
    ok = len(set(Z)) == len(Z) and len(set(A)) == len(A) and not (set(Z) & set(A)) and not (set(Z) & set(L)) and not (set(A) & set(L))
    ok = ok and all(x in (ZERO_, ANY_) for x in L.values())
    if m is not None:
        ok = ok and all(isinstance(w, int) and w < m for w in list(Z) + list(A) + list(L) + list(static))
    return ok


def build(tier, seed):
    plan = Plan(PID, level="proof")
    plan.explanation = (
        "The real bodies of _WireManager.{__init__, get_wire, _get_zeroed, _get_any, _add_new_wire, return_wire} are executed symbolically on "
        "free stacks of SYMBOLIC length, a symbolic loan map and symbolic min_int; the generator _new_ops runs over an operation sequence of "
        "symbolic length (three nested/sequential loops cut by the invariant: manager well-formed, wire_map injective with range inside the "
        "loaned wires) with get_wire/return_wire used through their verified contracts; the device call site is checked (size-bounded) "
        "against the freshness precondition of min_int.")
    plan.trusted_base = ["vf/pyvc encoder (Python subset; additive: dict indexed by a symbolic enum value, d[k] = v on symbolic maps, `yield from`)",
                         "z3 (sequences, arrays as sets/maps, quantified well-formedness clauses)",
                         "setof/nodup spec functions used through instances of their defining recursion"]
    plan.assumptions = [
        "wire labels are modelled as integers (all hashable labels are points of one infinite set; minted wires are python ints)",
        "A-zero-ghost: a free wire keeps its state; a wire >= min_int has never been used and is in |0>; `restored=True` is the user's promise "
        "that the wire comes back in the state it was handed out in; the wires of the `zeroed` register are in |0> (caller's promise) and the "
        "static circuit does not act on wires of the registers it handed in",
        "AllocateState is an enumeration of four distinct members",
        "caller obligation of min_int (stated as precondition, checked at the device call site): every static / given integer wire is < min_int"]
    plan.assumed_contracts = [
        "qp.measure(w, reset=True).measurements is a one-element list: a mid-circuit measurement of wire w with reset (establishes |0> on w)",
        "Operator.map_wires(wire_map) returns an operator (its wires are not inspected); set(op.wires) / set.intersection: the size of "
        "the intersection is an uninterpreted non-negative number, 0 when the deallocated set is empty",
        "Allocate / Deallocate operators are records (name, wires, hyperparameters = {state, restored})"]
    plan.dropped = ["docstrings, annotations, exception messages"]
    plan.unverified = ["the resolved circuit gives the same results as a fresh wire per allocation (simulator semantics)",
                       "resolve_dynamic_wires after the call of _new_ops (mapping of the measurements, use-after-deallocation check, tape.copy); "
                       "only the set-up part (manager built from the given registers, empty wire_map / deallocated set) is under contract",
                       "the CONTENT of the operator sequence emitted by _new_ops (which mapped operators, in which order)",
                       "`restored=True` is trusted as the user's promise",
                       "programs that deallocate a dynamic wire that is not live (KeyError from wire_map.pop: malformed input, not characterised)",
                       "use of a dynamic wire after deallocation is only checked as 'AllocationError may be raised'"]

    contracts = []

    # ============================================================================================== manager level
    def b_measure(it, args, kw):
        w = args[0]
        tok = Model()
        tok.measurements = PyList([("mcm", w, kw.get("reset", False))])
        return tok

    def b_map_pop(it, args, kw):
        """dict.pop(key) on a symbolic finite map"""
        m, key = args[0], args[1]
        if not isinstance(m, MapV) or len(args) != 2 or kw:
            raise Unsupp("pop of this value")
        k = it.world.box(key, m.key_t)
        if not it.ctx.branch(z3.Select(m.dom, k)):
            raise RaiseExc("KeyError")
        v = it.world.unbox(z3.Select(m.val, k), m.val_t)
        m.dom = z3.Store(m.dom, k, z3.BoolVal(False))
        return v

    def b_truthy(it, args, kw):
        v = args[0]
        if isinstance(v, MapV):
            return v.dom != z3.K(v.dom.sort().domain(), z3.BoolVal(False))
        raise Unsupp(f"truthiness of {v!r}")

    wm = World(RDW, classes={"_WireManager": {"_registers": NoneV, "_loaned": NoneV, "min_int": Int, "allow_resets": Bool},
                             "AllocateState": (ALLOC, {})},
               extra_builtins={"measure": b_measure, "method:pop": b_map_pop, "truthy": b_truthy})

    cell = {}

    def mgr_ghost(ctx, a):
        cell["ctx"] = ctx
        ctx.class_state = dict(ENUM)

    def regs_type():
        return T("build", lambda ctx, name: RegDict({ZERO_: fresh(ctx, SeqT(Int), "zeroed"), ANY_: fresh(ctx, SeqT(Int), "any_state")}),
                 gen=lambda rng: {"__registers__": True, "zero": [], "any": []})

    def mgr_type(min_int_none):
        return T("rec", "_WireManager", override={"_registers": regs_type(), "_loaned": T("build", fresh_loans, gen=lambda rng: {"__loans__": []}),
                                                  "min_int": NoneV if min_int_none else Int})

    def parts(mgr):
        """(Z term, A term, L dom, L val, min_int) of a symbolic manager"""
        r = mgr.f["_registers"]
        return r[ZERO_].term, r[ANY_].term, mgr.f["_loaned"].dom, mgr.f["_loaned"].val, mgr.f["min_int"]

    def wf_of(mgr, zero=ZERO0):
        return wf_sym(*parts(mgr), zero)

    def is_nat(x):
        return not isinstance(x, Rec)

    def random_state(rng, min_int_none):
        """a well-formed native state"""
        pool = list(range(0, 7))
        rng.shuffle(pool)
        nz, na, nl = rng.choice([0, 0, 1, 2]), rng.choice([0, 0, 1, 2]), rng.choice([0, 1, 2])
        Z, A, Lk = pool[:nz], pool[nz:nz + na], pool[nz + na:nz + na + nl]
        return dict(_registers={"__registers__": True, "zero": Z, "any": A}, _loaned={"__loans__": [[k, rng.choice([0, 1])] for k in Lk]},
                    min_int=None if min_int_none else 7 + rng.choice([0, 1, 3]), allow_resets=rng.random() < 0.5)

    def mgr_gen(min_int_none, extra=None):
        def gen(rng, m):
            m = dict(m)
            slf = dict(m["self"]) if isinstance(m.get("self"), dict) else {}
            if rng is not None:
                slf.update(random_state(rng, min_int_none))
            m["self"] = native_manager(slf, min_int_none)
            if "state" in m:
                m["state"] = enum_of(None, (int(m["state"]) % 2) if rng is not None else int(m["state"]))
            if "wire" in m and rng is not None and m["self"]._loaned:
                m["wire"] = rng.choice(sorted(m["self"]._loaned))
            if extra:
                m = extra(rng, m)
            return m
        return gen

    # ---- get_wire
    def cannot_supply(o, min_int_none, for_state=None):
        """no wire can be supplied: min_int is None and (both stacks empty, or a zeroed wire is needed, resets are not allowed, Z is empty)"""
        if not min_int_none:
            return False
        if is_nat(o.self):
            v = view(o.self)
            st = enum_code(o.state) if for_state is None else for_state
            return (not v["Z"] and not v["A"]) or (st == ZERO_ and not v["resets"] and not v["Z"])
        Z, A, _, _, _ = parts(o.self)
        st = o.state if for_state is None else for_state
        return cannot_supply_sym(Z, A, o.self.allow_resets, None, S._t(st))

    def unchanged(o, nw):
        if is_nat(o.self):
            return view(o.self) == view(nw.self)
        a, b = parts(o.self), parts(nw.self)
        same_m = (a[4] is None and b[4] is None) or (a[4] is not None and b[4] is not None and same_int(a[4], b[4]))
        return And(a[0] == b[0], a[1] == b[1], a[2] == b[2], a[3] == b[3], same_m)

    def reset_of(ops, w):
        """`ops` is exactly one reset measurement of wire w"""
        if isinstance(ops, PyList):
            return len(ops.items) == 1 and isinstance(ops.items[0], tuple) and ops.items[0][0] == "mcm" and ops.items[0][2] is True and \
                same_int(ops.items[0][1], w)
        return len(ops) == 1 and getattr(ops[0], "reset", False) is True and list(ops[0].wires) == [w] and type(ops[0]).__name__ == "MidMeasure"

    def no_ops(ops):
        return (isinstance(ops, PyList) and not ops.items) or (isinstance(ops, list) and not ops)

    def post_get(min_int_none, fixed_state=None):
        def post(o, r, nw):
            if not (isinstance(r, tuple) and len(r) == 2):
                return False
            w, ops = r
            restored = o.restored
            if is_nat(o.self):
                b, a = view(o.self), view(nw.self)
                st = enum_code(o.state) if fixed_state is None else fixed_state
                minted = (b["m"] is not None and w == b["m"] and w not in b["Z"] and w not in b["A"])
                from_z, from_a = bool(b["Z"]) and w == b["Z"][-1], bool(b["A"]) and w == b["A"][-1]
                stacks = (from_z and a["Z"] == b["Z"][:-1] and a["A"] == b["A"]) or (from_a and a["A"] == b["A"][:-1] and a["Z"] == b["Z"]) \
                    or (minted and a["Z"] == b["Z"] and a["A"] == b["A"] and a["m"] == b["m"] + 1)
                was_zero = from_z or minted
                rec = a["L"].get(w)
                loans = w not in b["L"] and {k: v for k, v in a["L"].items() if k != w} == b["L"] and rec in (ZERO_, ANY_)
                rec_ok = rec != ZERO_ or (bool(restored) and (was_zero or reset_of(ops, w)))
                zero_ok = (no_ops(ops) and was_zero) or reset_of(ops, w) if st == ZERO_ else no_ops(ops)
                m_ok = minted or a["m"] == b["m"]
                return bool(stacks and loans and rec_ok and zero_ok and m_ok and wf_native(a))
            st = S._t(o.state if fixed_state is None else fixed_state)
            if no_ops(ops):
                reset = False
            else:
                reset = reset_of(ops, w)
                if reset is False:
                    return False
            return get_wire_post_sym(parts(o.self), parts(nw.self), st, restored, S._t(w), reset, ZERO0)
        return post

    def get_axioms(o, r, nw):
        Z1, A1, _, _, _ = parts(nw.self)
        return seq_facts(Z1) + seq_facts(A1)

    def get_requires(a):
        if is_nat(a.self):
            return wf_native(view(a.self))
        return z3.And(wf_of(a.self), z3.Or(S._t(a.state) == ZERO_, S._t(a.state) == ANY_)) if hasattr(a, "state") else wf_of(a.self)

    for mn in (False, True):
        lab = "min_int None" if mn else "min_int given"
        cs = Case(lab, {"self": mgr_type(mn), "state": Int, "restored": Bool}, ghost=mgr_ghost, requires=get_requires,
                  ensures=post_get(mn), axioms=get_axioms, raises={"AllocationError": lambda o, mn=mn: cannot_supply(o, mn)},
                  must_return=lambda o, mn=mn: Not(cannot_supply(o, mn)), native_gen=mgr_gen(mn))
        cs.exc_ensures = lambda name, o, nw: unchanged(o, nw)
        contracts.append(FnContract(wm, "_WireManager.get_wire", [cs]))

    # ---- helpers under their call-site preconditions (from get_wire: at least one stack is non-empty)
    def some_free(a):
        if is_nat(a.self):
            v = view(a.self)
            return wf_native(v) and bool(v["Z"] or v["A"])
        Z, A, _, _, _ = parts(a.self)
        return z3.And(wf_of(a.self), z3.Or(z3.Length(Z) > 0, z3.Length(A) > 0))

    class FixedState:
        """adapter: the helper contracts are get_wire's contract at a fixed state"""

    def helper_case(lab, mn, state_code, requires):
        cs = Case(lab, {"self": mgr_type(mn), "restored": Bool}, ghost=mgr_ghost, requires=requires, ensures=post_get(mn, state_code),
                  axioms=get_axioms, raises={"AllocationError": lambda o: cannot_supply(o, mn, state_code)},
                  must_return=lambda o: Not(cannot_supply(o, mn, state_code)), native_gen=mgr_gen(mn))
        cs.exc_ensures = lambda name, o, nw: unchanged(o, nw)
        return cs
    for mn in (False, True):
        lab = "min_int None" if mn else "min_int given"
        # F8: the unguarded pops in _get_zeroed / _get_any never see an empty stack under the call-site precondition: IndexError not allowed
        contracts.append(FnContract(wm, "_WireManager._get_zeroed", [helper_case(lab, mn, ZERO_, some_free)]))
        contracts.append(FnContract(wm, "_WireManager._get_any", [helper_case(lab, mn, ANY_, some_free)]))

    def post_add_new(o, r, nw):
        if is_nat(o.self):
            b, a = view(o.self), view(nw.self)
            return r is None and a["Z"] == b["Z"] + [b["m"]] and a["A"] == b["A"] and a["L"] == b["L"] and a["m"] == b["m"] + 1 and wf_native(a)
        Z0, A0, D0, V0, m0 = parts(o.self)
        Z1, A1, D1, V1, m1 = parts(nw.self)
        return And(r is None, Z1 == z3.Concat(Z0, z3.Unit(m0)), A1 == A0, D1 == D0, V1 == V0, S._t(m1) == m0 + 1, wf_of(nw.self))
    contracts.append(FnContract(wm, "_WireManager._add_new_wire", [
        Case("min_int given", {"self": mgr_type(False)}, ghost=mgr_ghost, requires=get_requires, ensures=post_add_new, axioms=get_axioms,
             native_gen=mgr_gen(False))]))
    an = Case("min_int None", {"self": mgr_type(True)}, ghost=mgr_ghost, requires=get_requires, ensures=lambda o, r, nw: False,
              raises={"AllocationError": lambda o: True}, must_return=lambda o: False, native_gen=mgr_gen(True))
    an.exc_ensures = lambda name, o, nw: unchanged(o, nw)
    contracts.append(FnContract(wm, "_WireManager._add_new_wire", [an]))

    # ---- return_wire
    def ret_requires(a):
        if is_nat(a.self):
            return wf_native(view(a.self)) and a.wire in view(a.self)["L"]
        _, _, D, _, _ = parts(a.self)
        return z3.And(wf_of(a.self), z3.Select(D, S._t(a.wire)))

    def post_return(o, r, nw):
        if is_nat(o.self):
            b, a = view(o.self), view(nw.self)
            reg = b["L"][o.wire]
            return r is None and a["L"] == {k: v for k, v in b["L"].items() if k != o.wire} and a["m"] == b["m"] and wf_native(a) and \
                a["Z"] == b["Z"] + ([o.wire] if reg == ZERO_ else []) and a["A"] == b["A"] + ([o.wire] if reg == ANY_ else [])
        f, _ = return_wire_post_sym(parts(o.self), parts(nw.self), S._t(o.wire), ZERO0)
        return And(r is None, f)
    for mn in (False, True):
        contracts.append(FnContract(wm, "_WireManager.return_wire", [
            Case("min_int None" if mn else "min_int given", {"self": mgr_type(mn), "wire": Int}, ghost=mgr_ghost, requires=ret_requires,
                 ensures=post_return, axioms=get_axioms, native_gen=mgr_gen(mn))]))

    # ---- __init__: the registers handed in become the free stacks, nothing is on loan
    def init_requires(mn):
        def req(a):
            if not isinstance(a.zeroed, SeqV):
                Z, A = list(a.zeroed), list(a.any_state)
                return wf_native(dict(Z=Z, A=A, L={}, m=None if mn else a.min_int))
            Z, A = a.zeroed.term, a.any_state.term
            mi = None if mn else a.min_int
            return z3.And(wf_sym(Z, A, EMPTY, z3.K(I_, z3.IntVal(0)), mi, ZERO0), *seq_facts(Z), *seq_facts(A))
        return req

    def post_init(mn):
        def post(o, r, nw):
            if not isinstance(nw.self, Rec):
                a = view(nw.self)
                return a["Z"] == list(o.zeroed) and a["A"] == list(o.any_state) and a["L"] == {} and a["m"] == (None if mn else o.min_int) and \
                    a["resets"] == o.allow_resets and wf_native(a)
            regs = nw.self.f["_registers"]
            if not (isinstance(regs, dict) and set(regs) == {ZERO_, ANY_} and isinstance(regs[ZERO_], SeqV) and isinstance(regs[ANY_], SeqV)):
                return False
            L = nw.self.f["_loaned"]
            if not (isinstance(L, dict) and not L):
                return False
            mi = nw.self.f["min_int"]
            m_ok = (mi is None) if mn else same_int(mi, o.min_int)
            lists = (not regs[ZERO_].is_tuple) and (not regs[ANY_].is_tuple)          # fresh lists, not the caller's tuples
            return And(lists, regs[ZERO_].term == o.zeroed.term, regs[ANY_].term == o.any_state.term, m_ok,
                       S._t(nw.self.f["allow_resets"]) == S._t(o.allow_resets))
        return post

    def init_call(mod, args):
        obj = mod._WireManager(zeroed=args["zeroed"], any_state=args["any_state"], min_int=args["min_int"], allow_resets=args["allow_resets"])
        args["self"] = obj
        return None

    def init_gen(mn):
        def gen(rng, m):
            m = dict(m)
            if rng is not None:
                st = random_state(rng, mn)
                m.update(zeroed=st["_registers"]["zero"], any_state=st["_registers"]["any"], min_int=st["min_int"])
            m["zeroed"], m["any_state"] = tuple(m["zeroed"]), tuple(m["any_state"])
            if mn:
                m["min_int"] = None
            m["self"] = None
            return m
        return gen
    blank = T("rec", "_WireManager", override={"_registers": NoneV, "_loaned": NoneV, "min_int": NoneV, "allow_resets": NoneV})
    for mn in (False, True):
        contracts.append(FnContract(wm, "_WireManager.__init__", [
            Case("min_int None" if mn else "min_int given",
                 {"self": blank, "zeroed": SeqT(Int, tuple=True), "any_state": SeqT(Int, tuple=True), "min_int": NoneV if mn else Int,
                  "allow_resets": Bool}, ghost=mgr_ghost, requires=init_requires(mn), ensures=post_init(mn), native_call=init_call,
                 native_gen=init_gen(mn))]))

    # ============================================================================================== _new_ops
    OP_SRC = (
        "class Op:\n"
        "    @property\n"
        "    def name(self):\n"
        "        if self.kind == 0:\n"
        "            return 'Allocate'\n"
        "        if self.kind == 1:\n"
        "            return 'Deallocate'\n"
        "        return 'Gate'\n"
        "    @property\n"
        "    def hyperparameters(self):\n"
        "        return {'state': self.state, 'restored': self.restored}\n"
        "    def map_wires(self, wire_map):\n"
        "        return self\n")
    OP_FIELDS = {"kind": Int, "wires": SeqT(Label), "state": Int, "restored": Bool, "target": Int}
    RESET_KIND = 7          # the operator record standing for the reset measurement returned by get_wire (target = the wire)
    LSet = z3.ArraySort(Label_sort(), z3.BoolSort())

    class DSet(Model):
        """the `deallocated` set (dynamic wires): only add / intersection / truthiness are used by the code"""

        def __init__(self, term):
            self.term = term
            outer = self

            class _Add(Model):
                def vf_call(self, it, args, kw):
                    outer.term = z3.Store(outer.term, args[0], True)
                    return None

            class _Inter(Model):
                def vf_call(self, it, args, kw):
                    # size of deallocated & set(op.wires): uninterpreted, 0 when nothing was deallocated
                    n = z3.Int(it.ctx.fresh_name("n_common"))
                    it.ctx.assume(z3.And(n >= 0, z3.Implies(outer.term == z3.K(Label_sort(), z3.BoolVal(False)), n == 0)))
                    return n
            self.add, self.intersection = _Add(), _Inter()

        def snapshot(self):
            return DSet(self.term)

        def concretize_with(self, world, model):
            return {"__dset__": True}

    def mc_get(it, args, kwargs):
        """_WireManager.get_wire by its contract (verified above on the real method)"""
        self_ = args[0]
        state, restored = kwargs.get("state", args[1] if len(args) > 1 else None), kwargs.get("restored", args[2] if len(args) > 2 else None)
        ctx = it.ctx
        zero = ctx.ghost["zero"]
        pre = nparts(self_)
        st = to_int_term(state)
        ctx.prove(z3.And(wf_sym(*pre, zero), z3.Or(st == ZERO_, st == ANY_)), "pre-call:_WireManager.get_wire")
        cs = cannot_supply_sym(pre[0], pre[1], self_.f["allow_resets"], pre[4], st)
        if ctx.branch(cs):
            raise RaiseExc("AllocationError")
        w = z3.Int(ctx.fresh_name("wire"))
        Z1, A1 = z3.Const(ctx.fresh_name("Z"), ISeq), z3.Const(ctx.fresh_name("A"), ISeq)
        D1, V1 = z3.Const(ctx.fresh_name("L.dom"), ISet), z3.Const(ctx.fresh_name("L.val"), z3.ArraySort(I_, I_))
        m1 = None if pre[4] is None else z3.Int(ctx.fresh_name("min_int"))
        reset = ctx.branch(z3.Bool(ctx.fresh_name("reset_emitted")))
        ctx.assume(get_wire_post_sym(pre, (Z1, A1, D1, V1, m1), st, restored, w, reset, zero))
        self_.f["Z"].term, self_.f["A"].term = Z1, A1
        self_.f["L"].dom, self_.f["L"].val = D1, V1
        self_.f["min_int"] = m1
        if reset:
            rec = Rec(wn.classes["Op"], {"kind": RESET_KIND, "wires": SeqV(z3.Empty(z3.SeqSort(Label_sort())), Label), "state": 0,
                                         "restored": False, "target": w})
            ops = SeqV(z3.Unit(wn.box(rec, RecT("Op"))), RecT("Op"))
        else:
            ops = SeqV(z3.Empty(z3.SeqSort(wn.sort_of(RecT("Op")))), RecT("Op"))
        return (w, ops)

    def mc_ret(it, args, kwargs):
        """_WireManager.return_wire by its contract; updates the ghost Zero set (the `restored` promise)"""
        self_, wire = args
        ctx = it.ctx
        zero = ctx.ghost["zero"]
        pre = nparts(self_)
        w = to_int_term(wire)
        ctx.prove(z3.And(wf_sym(*pre, zero), z3.Select(pre[2], w)), "pre-call:_WireManager.return_wire")
        Z1, A1 = z3.Const(ctx.fresh_name("Z"), ISeq), z3.Const(ctx.fresh_name("A"), ISeq)
        D1 = z3.Const(ctx.fresh_name("L.dom"), ISet)
        f, zero1 = return_wire_post_sym(pre, (Z1, A1, D1, pre[3], pre[4]), w, zero)
        ctx.assume(f)
        self_.f["Z"].term, self_.f["A"].term, self_.f["L"].dom = Z1, A1, D1
        ctx.ghost["zero"] = zero1
        return None

    def mc_map_wires(it, args, kwargs):
        return fresh(it.ctx, RecT("Op"), "mapped_op")

    def b_set(it, args, kw):
        return Model()

    wn = World(RDW, classes={"_WireManager": {"Z": SeqT(Int), "A": SeqT(Int), "L": NoneV, "min_int": Int, "allow_resets": Bool},
                             "AllocateState": (ALLOC, {})},
               stubs={"Op": (OP_SRC, OP_FIELDS)}, functions=["_new_ops"],
               modular={"_WireManager.get_wire": mc_get, "_WireManager.return_wire": mc_ret, "Op.map_wires": mc_map_wires},
               extra_builtins={"method:pop": b_map_pop, "truthy": b_truthy, "set": b_set})

    def nparts(mgr):
        return mgr.f["Z"].term, mgr.f["A"].term, mgr.f["L"].dom, mgr.f["L"].val, mgr.f["min_int"]

    def nmgr_type(mn):
        return T("rec", "_WireManager", override={"L": T("build", fresh_loans, gen=lambda rng: {"__loans__": []}), "min_int": NoneV if mn else Int})

    def live_ok(wm_, D):
        """wire_map is injective and maps into the loaned wires: no two live dynamic wires share a concrete wire, and (with the
        manager's disjointness of dom L from the free stacks) no live wire can be handed out again"""
        d1, d2 = z3.Consts("d1 d2", Label_sort())
        return z3.And(z3.ForAll([d1], z3.Implies(z3.Select(wm_.dom, d1), z3.Select(D, z3.Select(wm_.val, d1)))),
                      z3.ForAll([d1, d2], z3.Implies(z3.And(z3.Select(wm_.dom, d1), z3.Select(wm_.dom, d2), d1 != d2),
                                                     z3.Select(wm_.val, d1) != z3.Select(wm_.val, d2))))

    def new_ops_inv(mgr, wire_map, zero):
        return z3.And(wf_sym(*nparts(mgr), zero), live_ok(wire_map, mgr.f["L"].dom))

    def states_ok(ops_term):
        i = z3.Int("oi")
        OpS = wn.sort_of(RecT("Op"))
        st = OpS.accessor(0, list(OP_FIELDS).index("state"))
        return z3.ForAll([i], z3.Implies(z3.And(i >= 0, i < z3.Length(ops_term)), z3.And(st(ops_term[i]) >= 0, st(ops_term[i]) <= 3)))

    ncell = {}

    def new_ops_ghost(ctx, a):
        ncell["ctx"] = ctx
        ctx.class_state = dict(ENUM)
        ctx.ghost["zero"] = ZERO0
        ncell["wire_map"], ncell["deallocated"], ncell["manager"] = a.wire_map, a.deallocated, a.manager

    def keep_identity(which):
        """loop cut: havoc the CONTENTS of an object the body mutates, keeping its identity (it is a parameter the caller observes)"""
        def ctor(ctx, name):
            obj = ncell[which]
            if which == "wire_map":
                obj.dom = z3.Const(ctx.fresh_name("wire_map.dom"), obj.dom.sort())
                obj.val = z3.Const(ctx.fresh_name("wire_map.val"), obj.val.sort())
            elif which == "deallocated":
                obj.term = z3.Const(ctx.fresh_name("deallocated"), LSet)
            else:
                obj.f["Z"].term, obj.f["A"].term = z3.Const(ctx.fresh_name("Z"), ISeq), z3.Const(ctx.fresh_name("A"), ISeq)
                obj.f["L"].dom = z3.Const(ctx.fresh_name("L.dom"), ISet)
                obj.f["L"].val = z3.Const(ctx.fresh_name("L.val"), z3.ArraySort(I_, I_))
                if obj.f["min_int"] is not None:
                    obj.f["min_int"] = z3.Int(ctx.fresh_name("min_int"))
            return obj
        return T("build", ctor)

    def loop_spec(extra=None):
        def inv(v):
            base = new_ops_inv(v.manager, v.wire_map, v.ghost.zero)
            return base if extra is None else z3.And(base, extra(v))
        ls = LoopSpec(inv, types={"wire_map": keep_identity("wire_map"), "deallocated": keep_identity("deallocated")})
        ls.ghost_types = {"zero": T("build", lambda ctx, name: z3.Const(ctx.fresh_name("Zero"), ISet)), "~manager": keep_identity("manager")}
        return ls

    def in_alloc(v):
        st = S._t(v.state)
        return z3.Or(st == ZERO_, st == ANY_)

    def new_ops_requires(a):
        if isinstance(a.manager, Rec):
            return z3.And(new_ops_inv(a.manager, a.wire_map, ZERO0), states_ok(a.operations.term))
        return wf_native(view(a.manager)) and live_native(a.manager, a.wire_map)

    def live_native(mgr, wire_map):
        vals = list(wire_map.values())
        return len(set(vals)) == len(vals) and all(x in mgr._loaned for x in vals)

    def new_ops_post(o, r, nw):
        if isinstance(nw.manager, Rec):
            Z, A, _, _, _ = nparts(nw.manager)
            d = z3.Const("dq", Label_sort())
            wmap = nw.wire_map
            off_free = z3.ForAll([d], z3.Implies(z3.Select(wmap.dom, d), z3.And(z3.Not(z3.Select(SETOF(Z), z3.Select(wmap.val, d))),
                                                                               z3.Not(z3.Select(SETOF(A), z3.Select(wmap.val, d))))))
            return z3.And(new_ops_inv(nw.manager, nw.wire_map, ncell["ctx"].ghost["zero"]), off_free)
        v = view(nw.manager)
        free = set(v["Z"]) | set(v["A"])
        return wf_native(v) and live_native(nw.manager, nw.wire_map) and not (free & set(nw.wire_map.values()))

    def dealloc_of_dead_wire(o):
        """malformed program: some Deallocate names a dynamic wire that is not live at that point"""
        if isinstance(o.manager, Rec):
            return True          # symbolic side: KeyError can only come from wire_map.pop (every other lookup is covered by a pre-call VC)
        live = set(o.wire_map)
        for op in o.operations:
            if op.name == "Allocate":
                live |= set(op.wires)
            elif op.name == "Deallocate":
                for w in op.wires:
                    if w not in live:
                        return True
                    live.discard(w)
        return False

    class NOp:
        """native stand-in of an operator: _new_ops only uses name, wires, hyperparameters, map_wires"""

        def __init__(self, kind, wires, state=None, restored=False):
            self.name = {0: "Allocate", 1: "Deallocate"}.get(kind, "Gate")
            self.wires, self.hyperparameters = list(wires), ({"state": state, "restored": restored} if kind == 0 else {})

        def map_wires(self, wire_map):
            new = copy.copy(self)
            new.wires = [wire_map.get(w, w) for w in self.wires]
            return new

    def new_ops_gen(mn):
        def gen(rng, m):
            m = dict(m)
            if rng is not None:
                st = random_state(rng, mn)
                loans = [k for k, _ in st["_loaned"]["__loans__"]]
                dyn = [f"d{i}" for i in range(5)]
                wire_map = {d: k for d, k in zip(dyn, loans)}
                live, ops = set(wire_map), []
                for _ in range(rng.choice([1, 2, 3, 4, 6])):
                    c = rng.random()
                    free_dyn = [d for d in dyn if d not in live]
                    if c < 0.45 and free_dyn:
                        k = rng.choice([1, 1, 2]) if len(free_dyn) > 1 else 1
                        ws = free_dyn[:k]
                        live |= set(ws)
                        ops.append(NOp(0, ws, enum_of(None, rng.choice([0, 0, 1])), rng.random() < 0.5))
                    elif c < 0.8 and live:
                        w = rng.choice(sorted(live))
                        live.discard(w)
                        ops.append(NOp(1, [w]))
                    else:
                        ops.append(NOp(2, [rng.choice(dyn + [0, 1])]))
                mgr = native_manager(dict(_registers=st["_registers"], _loaned=st["_loaned"], min_int=st["min_int"], allow_resets=st["allow_resets"]), mn)
                m.update(operations=ops, manager=mgr, wire_map=wire_map, deallocated=set())
                return m
            mg = m["manager"]
            mgr = native_manager(dict(_registers={"zero": mg.get("Z") or [], "any": mg.get("A") or []}, _loaned=mg.get("L") or {},
                                      min_int=mg.get("min_int"), allow_resets=mg.get("allow_resets")), mn)
            ops = [NOp(int(x.get("kind", 2)), x.get("wires") or [], enum_of(None, int(x.get("state", 0)) % 4), bool(x.get("restored")))
                   for x in (m.get("operations") or [])]
            wmap = m.get("wire_map") or {}
            wmap = {k: int(v) for k, v in (wmap.get("__map__", []) if isinstance(wmap, dict) and "__map__" in wmap else [])}
            m.update(operations=ops, manager=mgr, wire_map=wmap, deallocated=set())
            return m
        return gen

    for mn in (False, True):
        cs = Case("min_int None" if mn else "min_int given",
                  {"operations": SeqT(RecT("Op")), "manager": nmgr_type(mn), "wire_map": MapT(Label, Int),
                   "deallocated": T("build", lambda ctx, name: DSet(z3.Const(ctx.fresh_name("deallocated"), LSet)), gen=lambda rng: {"__dset__": True})},
                  yields=RecT("Op"), ghost=new_ops_ghost, requires=new_ops_requires, ensures=new_ops_post,
                  raises={"AllocationError": lambda o: True, "KeyError": dealloc_of_dead_wire},
                  loops={0: loop_spec(), 1: loop_spec(), 2: loop_spec()}, native_gen=new_ops_gen(mn))
        cs.exc_ensures = lambda name, o, nw: new_ops_post(o, None, nw)
        contracts.append(FnContract(wn, "_new_ops", [cs]))

    # ============================================================================================== resolve_dynamic_wires (set-up part)
    class StopAfterCall(Exception):
        pass
    TAPE_SRC = "class Tape:\n    pass\n"
    rcell = {}

    def mc_stop(it, args, kwargs):
        """_new_ops is verified above: here only the arguments it is started with are observed"""
        it.ctx.ghost["new_ops_args"] = list(args)
        raise RaiseExc("StopAfterCall")

    wr = World(RDW, classes={"_WireManager": {"_registers": NoneV, "_loaned": NoneV, "min_int": Int, "allow_resets": Bool},
                             "AllocateState": (ALLOC, {})},
               stubs={"Tape": (TAPE_SRC, {"operations": Label, "measurements": Label})}, functions=["resolve_dynamic_wires", "_new_ops"],
               modular={"_new_ops": mc_stop})

    def setup_ghost(ctx, a):
        rcell["ctx"] = ctx
        ctx.class_state = dict(ENUM)

    def setup_ok(name, o, nw):
        if not isinstance(o.tape, Rec):
            ops, mgr, wmap, dealloc = nw.tape.seen
            v = view(mgr)
            return ops is nw.tape.operations and v["Z"] == list(o.zeroed) and v["A"] == list(o.any_state) and v["L"] == {} and \
                v["m"] == o.min_int and v["resets"] == o.allow_resets and wmap == {} and isinstance(wmap, dict) and dealloc == set() and \
                isinstance(dealloc, set)
        seen = rcell["ctx"].ghost.get("new_ops_args")
        if not seen or len(seen) != 4:
            return False
        ops, mgr, wmap, dealloc = seen
        if not (isinstance(mgr, Rec) and mgr.cls.name == "_WireManager" and isinstance(wmap, dict) and not wmap):
            return False
        from vf.pyvc.engine import SetV
        if not (isinstance(dealloc, SetV) and dealloc.term is None):
            return False
        regs, L = mgr.f["_registers"], mgr.f["_loaned"]
        if not (isinstance(regs, dict) and set(regs) == {ZERO_, ANY_} and isinstance(L, dict) and not L):
            return False
        mi = mgr.f["min_int"]
        m_ok = (mi is None and o.min_int is None) or same_int(mi, o.min_int)
        return And(ops is nw.tape.f["operations"], regs[ZERO_].term == o.zeroed.term, regs[ANY_].term == o.any_state.term, m_ok,
                   S._t(mgr.f["allow_resets"]) == S._t(o.allow_resets))

    class NTape:
        def __init__(self, wires=(), operations=None):
            self.wires, self.operations, self.measurements, self.seen = list(wires), operations if operations is not None else [object()], [], None

    def setup_call(mod, args):
        tape = args["tape"]

        def recorder(*a):
            tape.seen = a
            raise StopAfterCall()
        saved = mod._new_ops
        mod._new_ops = recorder
        try:
            return mod.resolve_dynamic_wires.tape_transform(tape, zeroed=args["zeroed"], any_state=args["any_state"], min_int=args["min_int"],
                                                            allow_resets=args["allow_resets"])
        finally:
            mod._new_ops = saved

    def setup_gen(mn):
        def gen(rng, m):
            m = dict(m, tape=NTape(), zeroed=tuple(int(x) for x in m["zeroed"]), any_state=tuple(int(x) for x in m["any_state"]))
            if mn:
                m["min_int"] = None
            return m
        return gen
    for mn in (False, True):
        cs = Case("manager and maps handed to _new_ops, " + ("min_int None" if mn else "min_int given"),
                  {"tape": RecT("Tape"), "zeroed": SeqT(Int, tuple=True), "any_state": SeqT(Int, tuple=True), "min_int": NoneV if mn else Int,
                   "allow_resets": Bool}, ghost=setup_ghost, ensures=lambda o, r, nw: False, raises={"StopAfterCall": lambda o: True},
                  must_return=lambda o: False, native_call=setup_call, native_gen=setup_gen(mn))
        cs.exc_ensures = setup_ok
        contracts.append(FnContract(wr, "resolve_dynamic_wires", [cs]))

    # ============================================================================================== device call site (size-bounded)
    # device_resolve_dynamic_wires supplies zeroed / min_int: checked against the allocator's precondition (Given disjoint from the
    # static wires and duplicate-free; every static wire that is equal to an integer is < min_int).  Wires: int labels, other
    # labels (never equal to an int), and -- finding F26, fixed -- floats with an integral value (equal to that int, but not `isinstance int`).
    from vf.pyvc.engine import TupleT, FloatV
    FInt = T("float", integral=True)
    pcell = {}
    RESULT = Model()

    def rec_resolve(it, args, kwargs):
        it.ctx.ghost["call"] = (list(args), dict(kwargs))
        if it.ctx.branch(z3.Bool(it.ctx.fresh_name("allocation_fails"))):
            raise RaiseExc("AllocationError")
        return RESULT

    def b_max(it, args, kw):
        items = it.iter_concrete(args[0]) if len(args) == 1 else list(args)
        if not items and "default" in kw:
            return kw["default"]
        return it._minmax([PyList(items)] if len(args) == 1 else args, {}, True)

    wp = World(PRE, functions=["device_resolve_dynamic_wires"], stubs={"Tape": (TAPE_SRC, {"wires": NoneV})},
               extra_builtins={"resolve_dynamic_wires": rec_resolve, "max": b_max})

    def site_ghost(ctx, a):
        pcell["ctx"] = ctx

    def int_value(x):
        """the integer a label is equal to (python: 1.0 == 1 and hash(1.0) == hash(1)), or None for a label that equals no int"""
        if isinstance(x, bool):
            return int(x)
        if isinstance(x, int) or (isinstance(x, z3.ArithRef) and x.is_int()):
            return x
        if isinstance(x, FloatV):
            return x.i
        if isinstance(x, float) and x.is_integer():
            return int(x)
        return None

    def same_label(x, y):
        a, b = int_value(x), int_value(y)
        if a is not None and b is not None:
            return S._t(a) == S._t(b)
        if a is None and b is None:
            if isinstance(x, z3.ExprRef) and isinstance(y, z3.ExprRef):
                return x == y
            return x == y if not (sym(x) or sym(y)) else False
        return False

    def distinct(xs):
        return And(True, *[Not(same_label(a, b)) for i, a in enumerate(xs) for b in xs[i + 1:]])

    def site_ok(name, o, nw):
        native = not isinstance(o.tape, Rec)
        if native:
            call = nw.tape.seen
            static = list(o.tape.wires)
        else:
            call = pcell["ctx"].ghost.get("call")
            static = list(o.tape.f["wires"])
        if not call:
            return False
        args, kw = call
        if len(args) != 1 or set(kw) - {"zeroed", "min_int", "allow_resets", "any_state"} or kw.get("any_state", ()) not in ((), None):
            return False
        dev = list(o.wires) if o.wires is not None else []
        zeroed = kw.get("zeroed", ())
        zeroed = list(zeroed.items) if isinstance(zeroed, PyList) else list(zeroed)
        mi = kw.get("min_int")
        same_tape = args[0] is nw.tape
        resets = (kw.get("allow_resets") is nw.allow_resets) or (kw.get("allow_resets") == o.allow_resets and not sym(kw.get("allow_resets")))
        if dev:
            # Given = the device wires that are not wires of the tape, innermost-last (reversed), no integers are minted
            idx = []
            for z in zeroed:
                k = [i for i, w in enumerate(dev) if w is z] if not native else [i for i, w in enumerate(dev) if w == z]
                if not k:
                    return False
                idx.append(k[0])
            ordered = all(a > b for a, b in zip(idx, idx[1:]))
            disjoint = And(True, *[Not(same_label(z, t)) for z in zeroed for t in static])
            complete = And(True, *[Or(i in idx, Or(False, *[same_label(w, t) for t in static])) for i, w in enumerate(dev)])
            return And(same_tape and resets and ordered and mi is None, disjoint, complete)
        # no device wires: nothing is handed in, integers are minted above every static wire that is equal to an integer
        ints = [int_value(t) for t in static if int_value(t) is not None]
        if mi is None or zeroed:
            return False
        fresh_ = And(True, *[S._t(mi) > S._t(i) for i in ints])
        # the documented choice: one more than the largest integer-valued wire label of the tape (0 when there is none)
        if not ints:
            exact = S._t(mi) == 0
        else:
            exact = Or(False, *[S._t(mi) == S._t(i) + 1 for i in ints])
        return And(same_tape and resets, exact, fresh_)

    def site_call(mod, args):
        tape = args["tape"]

        def recorder(*a, **kw):
            tape.seen = (list(a), dict(kw))
            return "RESULT"
        saved = mod.resolve_dynamic_wires
        mod.resolve_dynamic_wires = recorder
        try:
            return mod.device_resolve_dynamic_wires.tape_transform(tape, args["wires"], args["allow_resets"])
        finally:
            mod.resolve_dynamic_wires = saved

    def site_gen(rng, m):
        m = dict(m)
        tw = m["tape"].get("wires") if isinstance(m["tape"], dict) else ()
        m["tape"] = NTape(wires=list(tw or ()))
        if m.get("wires") is not None:
            m["wires"] = tuple(m["wires"])
        return m

    def site_requires(a):
        dev = list(a.wires) if a.wires is not None else []
        static = list(a.tape.f["wires"]) if isinstance(a.tape, Rec) else list(a.tape.wires)
        return And(distinct(dev), distinct(static))          # Wires objects hold no duplicates
    KIND = {"i": Int, "s": Label, "f": FInt}
    tape_shapes = ["", "i", "s", "ii", "is", "si", "ss"]
    dev_shapes = [None, "", "i", "s", "ii", "is", "si", "ss"]
    site_cases = []
    for ts in tape_shapes + ["f"]:
        for ds in (dev_shapes if ts != "f" else [None]):
            dev_t = NoneV if ds is None else (T("const", ()) if ds == "" else TupleT(*[KIND[c] for c in ds]))
            tape_t = T("rec", "Tape", override={"wires": T("const", ()) if ts == "" else TupleT(*[KIND[c] for c in ts])})
            lab = f"tape wires [{','.join(ts)}], device wires {'None' if ds is None else '[' + ','.join(ds) + ']'}"
            cs = Case(lab, {"tape": tape_t, "wires": dev_t, "allow_resets": Bool}, ghost=site_ghost, requires=site_requires,
                      ensures=lambda o, r, nw: And(r is RESULT or r == "RESULT", site_ok(None, o, nw)),
                      raises={"AllocationError": lambda o: True}, native_call=site_call, native_gen=site_gen, size_bounded=True)
            cs.exc_ensures = site_ok
            site_cases.append((cs, None))        # F26 (float / numpy-integer labels) is fixed in the repository: an ordinary obligation now
    for cs, fid in site_cases:
        fc = FnContract(wp, "device_resolve_dynamic_wires", [cs])
        plan.fn_under_contract(PRE, "device_resolve_dynamic_wires")
        for ob in obligations_for(PID, fc, tier, finding=fid):
            plan.add(ob)
    plan.size_bounds = ["device call site: tapes with 0..2 static wires and devices with no / 0..2 wires, every wire an int label or a non-int label "
                        "(all VALUES symbolic); one extra shape with a float label of integral value (finding F26, fixed)"]
    plan.notes["F26-fixed"] = ("device_resolve_dynamic_wires picks min_int = 1 + max(int wires); a static wire labelled by a float with integral value "
                         "(1.0 == 1, same hash) is ignored by isinstance(i, int), so a minted wire can alias it")

    for fc in contracts:
        plan.fn_under_contract(fc.world.file, fc.qualname)
        for ob in obligations_for(PID, fc, tier):
            plan.add(ob)
    return plan
