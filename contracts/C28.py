"""C28 Noisy evolution stays physical: Kraus completeness of the built-in channels.

Contract on every channel's compute_kraus_matrices, under its documented domain as path condition (the domain guards the
code itself evaluates):  every radicand is >= 0  and  | (sum_k K_k^dagger K_k - I)_ij | <= C * eps  where eps is the
stabiliser the source adds under every square root (read from the module).  Exact completeness is false by construction of
the code (eps > 0), so the obligation is completeness up to the source's own eps.
"""
import contextlib
import itertools
import math
import random

import numpy as np
import sympy as sp
import z3

from vf.pyvc.engine import set_budget
import pennylane as qp
from pennylane.ops import channel as ch

from vf.common import Plan, Obligation, Outcome, DISCHARGED, REFUTED, UNDECIDED, FAULT
from vf.symx import sscalar as SSM
from vf.symx.sscalar import SS
from vf.symx.ring import Unsupported

CH = "pennylane/ops/channel.py"
EPS = sp.Symbol("epsilon", positive=True)
CBOUND = 16


def to_z3(e, env):
    e = sp.sympify(e)
    if e.is_Symbol:
        return env[str(e)]
    if e.is_Rational:
        return z3.RealVal(str(e))
    if e.is_Float:
        return z3.RealVal(repr(float(e)))
    if e.is_Add:
        return sum((to_z3(a, env) for a in e.args[1:]), to_z3(e.args[0], env))
    if e.is_Mul:
        r = to_z3(e.args[0], env)
        for a in e.args[1:]:
            r = r * to_z3(a, env)
        return r
    if e.is_Pow and e.exp.is_Integer and e.exp >= 0:
        r = z3.RealVal(1)
        for _ in range(int(e.exp)):
            r = r * to_z3(e.base, env)
        return r
    if e.is_Pow and e.exp.is_Integer and e.exp < 0:
        return 1 / to_z3(sp.Pow(e.base, -e.exp), env)
    raise Unsupported(f"no z3 translation for {e}")


CHANNELS = [
    # name, parameter names, builder(params) -> list of Kraus matrices, native sampler of a point in the domain
    ("AmplitudeDamping", ["g"], lambda P: qp.AmplitudeDamping.compute_kraus_matrices(P["g"]), lambda r: {"g": r.random()}),
    ("GeneralizedAmplitudeDamping", ["g", "p"], lambda P: qp.GeneralizedAmplitudeDamping.compute_kraus_matrices(P["g"], P["p"]),
     lambda r: {"g": r.random(), "p": r.random()}),
    ("PhaseDamping", ["g"], lambda P: qp.PhaseDamping.compute_kraus_matrices(P["g"]), lambda r: {"g": r.random()}),
    ("DepolarizingChannel", ["p"], lambda P: qp.DepolarizingChannel.compute_kraus_matrices(P["p"]), lambda r: {"p": r.random()}),
    ("BitFlip", ["p"], lambda P: qp.BitFlip.compute_kraus_matrices(P["p"]), lambda r: {"p": r.random()}),
    ("PhaseFlip", ["p"], lambda P: qp.PhaseFlip.compute_kraus_matrices(P["p"]), lambda r: {"p": r.random()}),
    ("ResetError", ["p", "q"], lambda P: qp.ResetError.compute_kraus_matrices(P["p"], P["q"]),
     lambda r: (lambda a, b: {"p": a * 0.99, "q": (1 - a) * b * 0.99})(r.random(), r.random())),
]
for _w in ["X", "Y", "Z", "XY", "ZI", "YY"]:
    CHANNELS.append((f"PauliError[{_w}]", ["p"], (lambda P, w=_w: qp.PauliError.compute_kraus_matrices(P["p"], w)),
                     lambda r: {"p": r.random()}))


def trace(build, names):
    """run the real kernel symbolically; returns (list of K as object arrays, guards assumed, radicands)"""
    syms = {n: sp.Symbol(n, real=True) for n in names}
    guards = []

    def oracle(lhs, op, rhs):
        # domain guard: answer "inside the documented domain" (the branch that does not raise) and log the assumption
        inside = {"<=": True, ">=": True, "<": False, ">": False}[op]
        rel = {"<=": sp.Le, ">=": sp.Ge, "<": sp.Lt, ">": sp.Gt}[op](lhs, rhs)
        guards.append(rel if inside else sp.Not(rel))
        return inside
    SSM.ORACLE = oracle
    SSM.RADICANDS.clear()
    SSM.CONSTANTS.clear()
    SSM.CONSTANTS[float(ch._SQRT_STABILITY_EPS)] = EPS  # pylint: disable=protected-access
    try:
        K = build({n: SS(s) for n, s in syms.items()})
        K = [np.asarray(k, dtype=object) for k in K]
    finally:
        SSM.ORACLE = None
    return K, list(guards), list(SSM.RADICANDS)


def deviation(K):
    n = K[0].shape[0]
    tot = [[sp.Integer(0)] * n for _ in range(n)]
    for k in K:
        for i in range(n):
            for j in range(n):
                acc = sp.Integer(0)
                for r in range(k.shape[0]):
                    a, b = k[r, i], k[r, j]
                    ea = (a.e if isinstance(a, SS) else sp.nsimplify(complex(a), rational=True)).subs(sp.I, -sp.I)
                    eb = b.e if isinstance(b, SS) else sp.nsimplify(complex(b), rational=True)
                    acc += ea * eb
                tot[i][j] += acc
    return [[sp.expand(tot[i][j] - (1 if i == j else 0)) for j in range(n)] for i in range(n)]


def rel_to_z3(rel, env):
    if isinstance(rel, sp.Not):
        return z3.Not(rel_to_z3(rel.args[0], env))
    l, r = to_z3(rel.lhs, env), to_z3(rel.rhs, env)
    return {sp.Le: l <= r, sp.Ge: l >= r, sp.Lt: l < r, sp.Gt: l > r}[type(rel)] if type(rel) in (sp.Le, sp.Ge, sp.Lt, sp.Gt) else \
        {"<=": l <= r, ">=": l >= r, "<": l < r, ">": l > r}[rel.rel_op]


def make_ob(name, names, build, sampler, seed):
    label = f"C28/channel:{name.split('[')[0]}.compute_kraus_matrices{name[name.index('['):] if '[' in name else ''}/post:completeness-up-to-eps"

    def replay(w):
        pt = (w or {}).get("point") or {}
        K = build({n: float(pt[n]) for n in names})
        with np.errstate(all="ignore"):
            tot = sum(np.conj(np.asarray(k)).T @ np.asarray(k) for k in K)
        if not np.all(np.isfinite(tot)):
            return dict(confirmed=True, observed="non-finite Kraus operators (square root of a negative radicand)", point=pt)
        err = float(np.max(np.abs(tot - np.eye(tot.shape[0]))))
        return dict(confirmed=bool(err > 1e-9), max_abs_deviation=err, point=pt)

    def fn():
        rng = random.Random(seed * 31 + len(name))
        try:
            K, guards, rads = trace(build, names)
            D = deviation(K)
        except Unsupported as ex:
            for _ in range(64):
                pt = sampler(rng)
                rp = replay(dict(point=pt))
                if rp["confirmed"]:
                    return Outcome(REFUTED, "float-standin", f"trace left the fragment ({ex}); stand-in found a deviation", witness=dict(point=pt), replay=rp)
            return Outcome(UNDECIDED, "trace", f"trace left the fragment: {ex}", extra=dict(standin="passed", standin_points=64))
        env = {n: z3.Real(n) for n in names}
        env["epsilon"] = z3.Real("epsilon")
        from fractions import Fraction
        eps_val = Fraction(float(ch._SQRT_STABILITY_EPS)).limit_denominator(10 ** 30)  # pylint: disable=protected-access
        pc = [rel_to_z3(g, env) for g in guards] + [env["epsilon"] == z3.RealVal(str(eps_val))]
        if name.startswith("PauliError"):
            # the probability domain of PauliError is validated in its constructor, not in the kernel: documented domain
            pc += [env["p"] >= 0, env["p"] <= 1]
        n_ob = 0
        # (1) radicands non-negative on the domain
        for r in rads:
            if not r.free_symbols:
                continue
            s = z3.Solver()
            set_budget(s, 20000)
            s.add(*pc)
            s.add(to_z3(sp.expand(r), env) < 0)
            res = s.check()
            n_ob += 1
            if res == z3.sat:
                m = s.model()
                pt = {nm: float(m.eval(env[nm], model_completion=True).as_fraction()) for nm in names}
                return Outcome(REFUTED, "z3-nra", f"radicand {r} can be negative inside the domain", witness=dict(point=pt), replay=replay(dict(point=pt)))
            if res != z3.unsat:
                return Outcome(UNDECIDED, "z3-nra", f"radicand sign undecided: {r}")
        # (2) deviation bounded by C * eps
        for i, row in enumerate(D):
            for j, e in enumerate(row):
                if e == 0:
                    continue
                if e.has(sp.I):
                    re_, im_ = sp.expand(sp.re(e)), sp.expand(sp.im(e))
                else:
                    re_, im_ = e, sp.Integer(0)
                for part in (re_, im_):
                    if part == 0:
                        continue
                    try:
                        t = to_z3(part, env)
                    except Unsupported as ex:
                        return Outcome(UNDECIDED, "sympy", f"entry ({i},{j}) does not reduce to a polynomial: {part}")
                    s = z3.Solver()
                    set_budget(s, 20000)
                    s.add(*pc)
                    s.add(z3.Or(t > CBOUND * env["epsilon"], t < -CBOUND * env["epsilon"]))
                    res = s.check()
                    n_ob += 1
                    if res == z3.sat:
                        m = s.model()
                        pt = {nm: float(m.eval(env[nm], model_completion=True).as_fraction()) for nm in names}
                        return Outcome(REFUTED, "z3-nra", f"entry ({i},{j}) of sum K^dagger K - I is {part}: exceeds {CBOUND}*eps",
                                       witness=dict(point=pt, entry=[i, j]), replay=replay(dict(point=pt)))
                    if res != z3.unsat:
                        return Outcome(UNDECIDED, "z3-nra", f"bound undecided for entry ({i},{j}): {part}")
        return Outcome(DISCHARGED, "sympy+z3-nra", f"{len(K)} Kraus operators; guards {[str(g) for g in guards]}; deviation entries "
                       f"{sorted({str(e) for row in D for e in row if e != 0})[:4]}", extra=dict(sub_obligations=max(1, n_ob)))
    return Obligation(label, "post", fn, func=(CH, f"{name.split('[')[0]}.compute_kraus_matrices"), replay=replay, timeout=300,
                      size_bounded="[" in name,
                      sample="sum of K^dagger K equals I up to C*eps on the documented domain; all radicands non-negative there")


# ======================================================================================================================
# C28, second sentence: the density matrices default.mixed produces equal an independent Kraus-sum simulation.
# 
# E2 (vf/symx): the REAL kernels of devices/qubit_mixed -- apply_operation_einsum, apply_operation_tensordot, the apply_operation dispatch
# with its special-cased fast paths, get_final_state (padding of idle measured wires) and measure_final_state for density_matrix / state --
# are run on a GENERIC symbolic density tensor (every entry re + i*im, two independent real symbols) with GENERIC symbolic Kraus matrices
# (every entry two symbols), and every entry of the result is compared, as a polynomial, with the reference
# 
#         out[r, c] = sum_q sum_{a, b} K_q[r_W, a] * rho[r with W <- a, c with W <- b] * conj(K_q[c_W, b])
# 
# written with plain index arithmetic below (no einsum strings, no tensordot axes).  The identities are linear in rho and sesquilinear in K, so
# equality of polynomials is equality for ALL states and ALL operator matrices; the wire counts / placements / batch sizes are enumerated
# (size-bounded).  Trace preservation and Hermiticity preservation are lemmas over the reference; positivity is the textbook consequence of
# the Kraus form (not machine-checked).
# ======================================================================================================================
AO = "pennylane/devices/qubit_mixed/apply_operation.py"
SIM = "pennylane/devices/qubit_mixed/simulate.py"
MEAS = "pennylane/devices/qubit_mixed/measure.py"


@contextlib.contextmanager
def symbolic_casts():
    """harness: casting an object array of symbolic scalars to a float / complex dtype keeps it symbolic (A-float-as-real), as the
    SymArray views already do; autoray's astype would call complex() on every entry"""
    import autoray
    orig = autoray.astype

    def astype(x, dtype_name, **kw):
        if isinstance(x, np.ndarray) and np.asarray(x).dtype == object:
            try:
                if np.dtype(dtype_name).kind in "fc":
                    return x
            except TypeError:
                pass
        return orig(x, dtype_name, **kw)
    autoray.astype = astype
    try:
        yield
    finally:
        autoray.astype = orig


def cname(base):
    return [base + "r", base + "i"]


def cval(S, base):
    return S[base + "r"] + 1j * S[base + "i"]


def tensor_names(tag, shape):
    return [n for idx in np.ndindex(*shape) for n in cname(tag + "_".join(map(str, idx)))]


def tensor(S, tag, shape):
    """complex array of the given shape whose entries are S[tag<idx>r] + i*S[tag<idx>i] (symbolic -> SymArrayC, floats -> complex ndarray)"""
    vals = [cval(S, tag + "_".join(map(str, idx))) for idx in np.ndindex(*shape)]
    if all(isinstance(v, complex) for v in vals):
        return np.array(vals, dtype=complex).reshape(shape)
    from vf.symx.scalar import symarray_c
    return symarray_c(vals, shape)


def conj(x):
    return x.conjugate()


def bits_of(i, m):
    return [(i >> (m - 1 - t)) & 1 for t in range(m)]


def int_of(bits):
    v = 0
    for b in bits:
        v = 2 * v + int(b)
    return v


def ref_apply(rho, kraus_of, wires, n, batch):
    """the Kraus sum, entry by entry.  rho: array of shape ([batch] +) [2]*2n; kraus_of(b) -> list of (2^m, 2^m) matrices for batch item b
    (b is None without a batch); wires: the target wires in the operator's own order (first wire = most significant bit)"""
    m = len(wires)
    off = 1 if batch else 0
    out = np.empty(rho.shape, dtype=object)
    for idx in np.ndindex(*rho.shape):
        b = idx[0] if batch else None
        r, c = list(idx[off:off + n]), list(idx[off + n:])
        ri, ci = int_of(r[w] for w in wires), int_of(c[w] for w in wires)
        acc = 0
        for K in kraus_of(b):
            for a in range(2 ** m):
                ka = K[ri, a]
                r2 = list(r)
                for t, w in enumerate(wires):
                    r2[w] = bits_of(a, m)[t]
                for bb in range(2 ** m):
                    c2 = list(c)
                    for t, w in enumerate(wires):
                        c2[w] = bits_of(bb, m)[t]
                    acc = acc + ka * rho[tuple(([b] if batch else []) + r2 + c2)] * conj(K[ci, bb])
        out[idx] = acc
    return out


def ref_pad(rho, n, idle, batch):
    """rho (x) |0><0|^idle in tensor layout ([batch] +) rows(n + idle) + cols(n + idle)"""
    off = 1 if batch else 0
    N = n + idle
    shape = ([rho.shape[0]] if batch else []) + [2] * (2 * N)
    out = np.empty(shape, dtype=object)
    for idx in np.ndindex(*shape):
        r, c = idx[off:off + N], idx[off + N:]
        if any(r[n:]) or any(c[n:]):
            out[idx] = 0.0
        else:
            out[idx] = rho[tuple(list(idx[:off]) + list(r[:n]) + list(c[:n]))]
    return out


def ref_reduced(rho, N, keep, batch):
    """reduced density MATRIX on the wires `keep` (in that order) of the tensor-layout state of N wires"""
    off = 1 if batch else 0
    B = rho.shape[0] if batch else 1
    k = len(keep)
    rest = [w for w in range(N) if w not in keep]
    out = np.empty(([B] if batch else []) + [2 ** k, 2 ** k], dtype=object)
    for b in range(B):
        for i in range(2 ** k):
            for j in range(2 ** k):
                acc = 0
                for t in range(2 ** len(rest)):
                    r, c = [0] * N, [0] * N
                    for p, w in enumerate(keep):
                        r[w], c[w] = bits_of(i, k)[p], bits_of(j, k)[p]
                    for p, w in enumerate(rest):
                        r[w] = c[w] = bits_of(t, len(rest))[p]
                    acc = acc + rho[tuple(([b] if batch else []) + r + c)]
                out[tuple(([b] if batch else []) + [i, j])] = acc
    return out


def basis_state(n, batch=None):
    shape = ([batch] if batch else []) + [2] * (2 * n)
    out = np.zeros(shape, dtype=object)
    for b in range(batch or 1):
        out[tuple(([b] if batch else []) + [0] * (2 * n))] = 1.0
    return out


def make_channel_class():
    import pennylane as qp
    from pennylane.operation import Channel

    class GenericChannel(Channel):
        """environment object: a channel whose Kraus matrices are the given (symbolic) matrices"""
        num_params = 0
        grad_method = None

        def __init__(self, kraus, wires):
            self._kraus = kraus
            super().__init__(wires=wires)

        def kraus_matrices(self):
            return self._kraus

        @staticmethod
        def compute_kraus_matrices(*a, **k):
            raise NotImplementedError
    return GenericChannel


def add_simulator_obligations(plan, tier, seed):
    import pennylane as qp
    from vf.symx.oblig import identity_obligation, lemma_obligation
    from pennylane.devices.qubit_mixed.apply_operation import apply_operation, apply_operation_einsum, apply_operation_tensordot
    from pennylane.devices.qubit_mixed.simulate import get_final_state, measure_final_state

    GenericChannel = make_channel_class()
    KERNELS = {"apply_operation_einsum": apply_operation_einsum, "apply_operation_tensordot": apply_operation_tensordot,
               "apply_operation": apply_operation}
    for q in ("apply_operation_einsum", "apply_operation_tensordot", "apply_operation", "_apply_operation_default", "_conjugate_state_with",
              "apply_diagonal_unitary", "apply_symmetric_real_op", "apply_paulix", "apply_pauliz", "apply_T", "apply_S", "apply_phaseshift",
              "apply_identity", "apply_global_phase", "_phase_shift", "_get_num_wires"):
        plan.fn_under_contract(AO, q)
    plan.fn_under_contract(SIM, "get_final_state")
    plan.fn_under_contract(SIM, "measure_final_state")

    def flat(x):
        a = np.asarray(x, dtype=object)
        return np.array([float(a.ndim)] + [float(s) for s in a.shape] + list(a.reshape(-1)), dtype=object)

    def add(name, func, names, traced, reference, size_bounded=True, timeout=600):
        def tr(S):
            with symbolic_casts():
                return flat(traced(S))

        def nat(env):
            return np.array([complex(z) for z in flat(traced({k: float(v) for k, v in env.items()}))])
        plan.add(identity_obligation(name, "post", names, tr, lambda S: flat(reference(S)), native=nat, func=func, size_bounded=size_bounded,
                                     seed=seed, timeout=timeout,
                                     sample="real kernel on a generic symbolic state / operator == Kraus sum by index arithmetic (every entry, as polynomials)"))

    def st_shape(n, batch):
        return tuple(([batch] if batch else []) + [2] * (2 * n))

    def kraus_names(k, m):
        return [nm for q in range(k) for nm in tensor_names(f"k{q}_", (2 ** m, 2 ** m))]

    def kraus(S, k, m):
        return [tensor(S, f"k{q}_", (2 ** m, 2 ** m)) for q in range(k)]

    # ---- generic channels through the three entry points -------------------------------------------------------------------------------
    def channel_case(kname, n, wires, k, batch):
        m = len(wires)
        names = tensor_names("r", st_shape(n, batch)) + kraus_names(k, m)
        label = f"C28/apply_operation:{kname}/generic-channel-{k}kraus/wires{list(wires)}-of-{n}/batch-{batch}".replace(" ", "")

        def traced(S):
            op = GenericChannel(kraus(S, k, m), wires=list(wires))
            return KERNELS[kname](op, tensor(S, "r", st_shape(n, batch)), is_state_batched=bool(batch))

        def reference(S):
            Ks = kraus(S, k, m)
            return ref_apply(np.asarray(tensor(S, "r", st_shape(n, batch)), dtype=object), lambda b: Ks, wires, n, batch)
        add(label, (AO, kname), names, traced, reference)

    P3 = [p for m in (1, 2, 3) for p in itertools.permutations(range(3), m)]
    quick = tier == "quick"
    for kname in ("apply_operation_einsum", "apply_operation_tensordot"):
        for i, wires in enumerate(P3):
            channel_case(kname, 3, wires, 1, None)
            if not quick or len(wires) < 3 or wires in ((1, 2, 0), (2, 1, 0)):
                channel_case(kname, 3, wires, 2, 2)          # (object-dtype einsum over three 3-wire operands is slow: two placements in the quick tier)
            if i % 3 == 0 and (not quick or len(wires) < 3):
                channel_case(kname, 3, wires, 1, 1)
    for i, wires in enumerate(P3):
        channel_case("apply_operation", 3, wires, 1, None)
        if i % 3 == 1:
            channel_case("apply_operation", 3, wires, 2, 2)
    P4 = [(2,), (3, 1), (0, 3), (3, 0, 2)] if tier == "quick" else \
        [p for m in (1, 2, 3) for p in itertools.permutations(range(4), m)]
    for kname in ("apply_operation_einsum", "apply_operation_tensordot"):
        for wires in P4:
            channel_case(kname, 4, wires, 1, None)
        channel_case(kname, 4, (3, 1), 1, 2)
    plan.size_bounds.append("generic channels: 1, 2, 3 target wires in EVERY ordered placement on 3-wire states (quick: 4 placements on 4-wire "
                            "states; thorough: all), 1-2 Kraus operators, unbatched and batch sizes 1, 2; all matrix and state entries symbolic")

    # ---- generic (non-channel) operator matrices, also broadcast ----------------------------------------------------------------------------
    def matrix_case(kname, n, wires, op_batch, batch):
        m = len(wires)
        ushape = tuple(([op_batch] if op_batch else []) + [2 ** m, 2 ** m])
        names = tensor_names("r", st_shape(n, batch)) + tensor_names("u", ushape)
        out_batch = batch or op_batch
        label = f"C28/apply_operation:{kname}/generic-matrix/wires{list(wires)}-of-{n}/op-batch-{op_batch}/state-batch-{batch}".replace(" ", "")

        def traced(S):
            op = qp.QubitUnitary(tensor(S, "u", ushape), wires=list(wires))
            return KERNELS[kname](op, tensor(S, "r", st_shape(n, batch)), is_state_batched=bool(batch))

        def reference(S):
            U = np.asarray(tensor(S, "u", ushape), dtype=object)
            rho = np.asarray(tensor(S, "r", st_shape(n, batch)), dtype=object)
            if out_batch and not batch:
                rho = np.stack([rho] * out_batch)           # a broadcast operator on an unbatched state: one result per operator
            return ref_apply(rho, lambda b: [U[b] if op_batch else U], wires, n, out_batch)
        add(label, (AO, kname), names, traced, reference)

    for wires in ((2,), (2, 0)):
        for ob, sb in ((None, None), (2, None), (None, 2), (2, 2)):
            matrix_case("apply_operation_einsum", 3, wires, ob, sb)
            matrix_case("apply_operation", 3, wires, ob, sb)
        for sb in (None, 2):
            matrix_case("apply_operation_tensordot", 3, wires, None, sb)
    matrix_case("apply_operation", 3, (1, 2, 0), None, None)
    matrix_case("apply_operation", 3, (2, 0, 1), None, 2)

    # ---- the special-cased fast paths of the dispatch: concrete gates on a generic state ------------------------------------------------------
    def gate_case(tag, build, wires, pnames, batch, n=3):
        names = tensor_names("r", st_shape(n, batch)) + list(pnames)
        label = f"C28/apply_operation:apply_operation/fast-path-{tag}/wires{list(wires)}-of-{n}/batch-{batch}".replace(" ", "")

        def traced(S):
            return apply_operation(build(S), tensor(S, "r", st_shape(n, batch)), is_state_batched=bool(batch))

        def reference(S):
            op = build(S)
            U = np.asarray(qp.matrix(op, wire_order=list(wires)), dtype=object)
            return ref_apply(np.asarray(tensor(S, "r", st_shape(n, batch)), dtype=object), lambda b: [U], wires, n, batch)
        add(label, (AO, "apply_operation"), names, traced, reference)

    one = [(qp.X, "PauliX"), (qp.Z, "PauliZ"), (qp.T, "T"), (qp.S, "S"), (qp.Hadamard, "Hadamard"), (qp.Y, "PauliY")]
    for cls, tag in one:
        for w in range(3):
            gate_case(tag, lambda S, cls=cls, w=w: cls(w), (w,), [], None)
        gate_case(tag, lambda S, cls=cls: cls(1), (1,), [], 2)
    for w in range(3):
        gate_case("PhaseShift", lambda S, w=w: qp.PhaseShift(S["a"], w), (w,), ["a"], None)
        gate_case("RZ", lambda S, w=w: qp.RZ(S["a"], w), (w,), ["a"], None)
    gate_case("PhaseShift", lambda S: qp.PhaseShift(S["a"], 2), (2,), ["a"], 2)
    gate_case("RZ", lambda S: qp.RZ(S["a"], 0), (0,), ["a"], 2)
    gate_case("Identity", lambda S: qp.Identity(1), (1,), [], None)
    gate_case("GlobalPhase", lambda S: qp.GlobalPhase(S["a"], wires=1), (1,), ["a"], None)
    two = [(qp.CNOT, "CNOT"), (qp.SWAP, "SWAP"), (qp.CZ, "CZ"), (qp.CH, "CH")]
    for cls, tag in two:
        for wires in itertools.permutations(range(3), 2):
            gate_case(tag, lambda S, cls=cls, wires=wires: cls(wires=list(wires)), wires, [], None)
        gate_case(tag, lambda S, cls=cls: cls(wires=[2, 0]), (2, 0), [], 2)
    for wires in ((0, 1), (2, 0), (1, 2)):
        gate_case("IsingZZ", lambda S, wires=wires: qp.IsingZZ(S["a"], wires=list(wires)), wires, ["a"], None)
        gate_case("ControlledPhaseShift", lambda S, wires=wires: qp.ControlledPhaseShift(S["a"], wires=list(wires)), wires, ["a"], None)
    gate_case("IsingZZ", lambda S: qp.IsingZZ(S["a"], wires=[2, 1]), (2, 1), ["a"], 2)
    for wires in itertools.permutations(range(3), 3):
        gate_case("Toffoli", lambda S, wires=wires: qp.Toffoli(wires=list(wires)), wires, [], None)
    for wires in ((0, 1, 2), (2, 0, 1), (1, 2, 0)):
        gate_case("CSWAP", lambda S, wires=wires: qp.CSWAP(wires=list(wires)), wires, [], None)
        gate_case("CCZ", lambda S, wires=wires: qp.CCZ(wires=list(wires)), wires, [], None)
        gate_case("MultiRZ", lambda S, wires=wires: qp.MultiRZ(S["a"], wires=list(wires)), wires, ["a"], None)
        gate_case("MultiControlledX", lambda S, wires=wires: qp.MultiControlledX(wires=list(wires), control_values=[1, 0]), wires, [], None)
    gate_case("Toffoli", lambda S: qp.Toffoli(wires=[2, 0, 1]), (2, 0, 1), [], 2)
    gate_case("GroverOperator", lambda S: qp.GroverOperator(wires=[0, 1, 2]), (0, 1, 2), [], None)
    gate_case("GroverOperator", lambda S: qp.GroverOperator(wires=[2, 0]), (2, 0), [], 2)
    plan.size_bounds.append("fast paths: the listed one-, two- and three-wire gates in every (1-, 2-wire) / selected (3-wire) placement on a 3-wire "
                            "generic state, unbatched and batch size 2; gate parameters symbolic")

    # ---- get_final_state (idle measured wires are padded with |0><0|) and measure_final_state --------------------------------------------------
    def circuit_case(tag, active, idle, op_batch, meas):
        """ops: a (possibly broadcast) generic one-wire matrix on wire 0, then a generic 2-Kraus channel on (active-1, 0) if active > 1"""
        N = active + idle
        ushape = tuple(([op_batch] if op_batch else []) + [2, 2])
        names = tensor_names("u", ushape) + (kraus_names(2, 2) if active > 1 else kraus_names(1, 1))
        label = f"C28/simulate:{tag}/active{active}-idle{idle}/op-batch-{op_batch}/{meas[0]}".replace(" ", "")

        def ops(S):
            U = tensor(S, "u", ushape)
            second = GenericChannel(kraus(S, 2, 2), wires=[active - 1, 0]) if active > 1 else GenericChannel(kraus(S, 1, 1), wires=[0])
            return [qp.QubitUnitary(U, wires=[0]), second]

        def mps():
            return [qp.density_matrix(wires=list(meas[1]))] if meas[0] != "state" else [qp.state()]

        def ref_state(S):
            U = np.asarray(tensor(S, "u", ushape), dtype=object)
            rho = basis_state(active, op_batch)
            rho = ref_apply(rho, lambda b: [U[b] if op_batch else U], (0,), active, op_batch)
            if active > 1:
                Ks = kraus(S, 2, 2)
                rho = ref_apply(rho, lambda b: Ks, (active - 1, 0), active, op_batch)
            else:
                Ks = kraus(S, 1, 1)
                rho = ref_apply(rho, lambda b: Ks, (0,), active, op_batch)
            return ref_pad(rho, active, idle, op_batch)

        def traced(S):
            all_wires = list(range(N))
            tape = qp.tape.QuantumScript(ops(S), mps() if (meas[0] != "state" and set(meas[1]) == set(all_wires)) or idle == 0
                                         else mps() + [qp.density_matrix(wires=all_wires)])
            # the measured wires decide which idle wires exist: measure all wires in the last measurement when the first does not
            st, isb = get_final_state(tape)
            if tag == "get_final_state":
                return st
            res = measure_final_state(tape, st, isb)
            return res[0] if isinstance(res, tuple) else res

        def reference(S):
            full = ref_state(S)
            if tag == "get_final_state":
                return full
            keep = list(range(N)) if meas[0] == "state" else list(meas[1])
            return ref_reduced(full, N, keep, op_batch)
        add(label, (SIM, tag), names, traced, reference)

    for active, idle in ((1, 1), (2, 1), (2, 2), (2, 0)):
        N = active + idle
        for ob in (None, 1, 2):
            circuit_case("get_final_state", active, idle, ob, ("density_matrix-all", tuple(range(N))))
            circuit_case("measure_final_state", active, idle, ob, ("density_matrix-all", tuple(range(N))))
        circuit_case("measure_final_state", active, idle, 2, ("state", ()))
        if N >= 2:
            circuit_case("measure_final_state", active, idle, 2, (f"density_matrix-{[N - 1, 0]}", (N - 1, 0)))
            circuit_case("measure_final_state", active, idle, None, (f"density_matrix-{[N - 1]}", (N - 1,)))
    plan.size_bounds.append("get_final_state / measure_final_state: circuits of a (broadcast, batch 1 or 2, or unbatched) generic one-wire matrix and a "
                            "generic two-wire channel on 1-2 operated wires followed by 0-2 idle measured wires; density_matrix over all / a "
                            "reversed subset / the idle wire, and state")

    # ---- lemmas over the reference: trace and Hermiticity -----------------------------------------------------------------------------------------
    def trace_of(rho, n):
        acc = 0
        for t in range(2 ** n):
            acc = acc + rho[tuple(bits_of(t, n) + bits_of(t, n))]
        return acc

    def lemma_case(n, wires, k):
        m = len(wires)
        names = tensor_names("r", st_shape(n, None)) + kraus_names(k, m)

        def lhs_trace(S):
            Ks = kraus(S, k, m)
            out = ref_apply(np.asarray(tensor(S, "r", st_shape(n, None)), dtype=object), lambda b: Ks, wires, n, None)
            return np.array([trace_of(out, n)], dtype=object)

        def rhs_trace(S):
            # tr( (sum_q K_q^dagger K_q embedded) rho ): with sum_q K_q^dagger K_q == 1 this is tr(rho)
            Ks = kraus(S, k, m)
            M = np.empty((2 ** m, 2 ** m), dtype=object)
            for i in range(2 ** m):
                for j in range(2 ** m):
                    acc = 0
                    for K in Ks:
                        for t in range(2 ** m):
                            acc = acc + conj(K[t, i]) * K[t, j]
                    M[i, j] = acc
            rho = np.asarray(tensor(S, "r", st_shape(n, None)), dtype=object)
            acc = 0
            for r in itertools.product((0, 1), repeat=n):
                for a in range(2 ** m):
                    c = list(r)
                    for t, w in enumerate(wires):
                        c[w] = bits_of(a, m)[t]
                    # (M_emb rho)[r, r] = sum_c M_emb[r, c] rho[c, r]
                    acc = acc + M[int_of(r[w] for w in wires), a] * rho[tuple(c + list(r))]
            return np.array([acc], dtype=object)
        plan.add(lemma_obligation(f"C28/lemma:kraus-sum/trace-equals-trace-of-(sum-KdaggerK)rho/wires{list(wires)}-of-{n}/{k}kraus".replace(" ", ""),
                                  names, lhs_trace, rhs_trace, size_bounded=True,
                                  sample="tr(sum_q K_q rho K_q^dagger) == tr((sum_q K_q^dagger K_q) rho): trace preserved when the Kraus set is complete"))

        def lhs_herm(S):
            Ks = kraus(S, k, m)
            out = ref_apply(np.asarray(tensor(S, "r", st_shape(n, None)), dtype=object), lambda b: Ks, wires, n, None)
            dag = np.empty(out.shape, dtype=object)
            for idx in np.ndindex(*out.shape):
                dag[idx] = conj(out[tuple(list(idx[n:]) + list(idx[:n]))])
            return dag.reshape(-1)

        def rhs_herm(S):
            Ks = kraus(S, k, m)
            rho = np.asarray(tensor(S, "r", st_shape(n, None)), dtype=object)
            rdag = np.empty(rho.shape, dtype=object)
            for idx in np.ndindex(*rho.shape):
                rdag[idx] = conj(rho[tuple(list(idx[n:]) + list(idx[:n]))])
            return ref_apply(rdag, lambda b: Ks, wires, n, None).reshape(-1)
        plan.add(lemma_obligation(f"C28/lemma:kraus-sum/adjoint-of-image-is-image-of-adjoint/wires{list(wires)}-of-{n}/{k}kraus".replace(" ", ""),
                                  names, lhs_herm, rhs_herm, size_bounded=True,
                                  sample="(sum_q K_q rho K_q^dagger)^dagger == sum_q K_q rho^dagger K_q^dagger: Hermitian in, Hermitian out"))

    lemma_case(2, (1,), 2)
    lemma_case(3, (2, 0), 2)
    lemma_case(3, (1, 2, 0), 1)


# ======================================================================================================================================
# ThermalRelaxationError: both branches of compute_kraus_matrices.  exp(-tg/t1) and exp(-tg/t2) are abstracted to real symbols a, b with
# the facts the domain gives about them (monotonicity of exp): 0 < a, b <= 1;  t2 <= t1  =>  b <= a;   t1 < t2 <= 2*t1  =>  a <= b, b*b <= a.
# Square roots are named (s >= 0, s*s == radicand); even powers are replaced by the radicands, so the deviation becomes a rational
# function of (a, b, pe, eps) and at most the first power of the nested root.
def thermal_trace(small):
    names = ["pe", "t1", "t2", "tg"]
    syms = {n: sp.Symbol(n, real=True) for n in names}
    guards = []

    def oracle(lhs, op, rhs):
        rel = {"<=": sp.Le, ">=": sp.Ge, "<": sp.Lt, ">": sp.Gt}[op](lhs, rhs)
        if op == "<=" and rhs == 0:
            ans = False                                  # t1 <= 0, t2 <= 0: outside the documented domain (the code raises)
        elif op == "<=" and lhs == syms["t2"] and rhs == syms["t1"]:
            ans = small                                  # the branch selector of np.cond
        else:
            ans = {"<=": True, ">=": True, "<": False, ">": False}[op]
        guards.append(rel if ans else sp.Not(rel))
        return ans
    SSM.ORACLE = oracle
    SSM.RADICANDS.clear()
    SSM.CONSTANTS.clear()
    SSM.CONSTANTS[float(ch._SQRT_STABILITY_EPS)] = EPS  # pylint: disable=protected-access
    try:
        K = qp.ThermalRelaxationError.compute_kraus_matrices(*[SS(syms[n]) for n in names])
        K = [np.asarray(k, dtype=object) for k in K]
    finally:
        SSM.ORACLE = None
    a, b = sp.Symbol("a"), sp.Symbol("b")
    sub = {sp.exp(-syms["tg"] / syms["t1"]): a, sp.exp(-syms["tg"] / syms["t2"]): b}
    table = {}

    def name_sqrts(e):
        if e.is_Pow and e.exp.is_Rational and e.exp.q == 2:
            base = name_sqrts(e.base)
            if base not in table:
                table[base] = sp.Symbol(f"s{len(table)}", nonnegative=True)
            return table[base] ** e.exp.p
        if e.args:
            return e.func(*[name_sqrts(x) for x in e.args])
        return e
    Ks = [[[name_sqrts(sp.sympify(x.e if isinstance(x, SS) else x).subs(sub)) for x in row] for row in k] for k in K]
    left = {str(x) for k in Ks for row in k for e in row for x in e.free_symbols} - {"a", "b", "pe", "epsilon"} - {str(v) for v in table.values()}
    if left:
        raise Unsupported(f"symbols left after abstracting the exponentials: {sorted(left)}")
    return Ks, guards, table


def thermal_point(av, bv, pev):
    """(pe, t1, t2, tg) with exp(-tg/t1) == av, exp(-tg/t2) == bv"""
    t1 = 1.0
    tg = -math.log(av) if av < 1 else 0.0
    t2 = (-tg / math.log(bv)) if (bv < 1 and tg > 0) else 1.0
    return dict(pe=pev, t1=t1, t2=t2, tg=tg)


def thermal_ob(small, seed):
    branch = "T2<=T1" if small else "T1<T2<=2T1"
    label = f"C28/channel:ThermalRelaxationError.compute_kraus_matrices[{branch}]/post:completeness-up-to-eps"

    def native_dev(pt):
        with np.errstate(all="ignore"):
            K = qp.ThermalRelaxationError.compute_kraus_matrices(pt["pe"], pt["t1"], pt["t2"], pt["tg"])
            tot = sum(np.conj(np.asarray(k)).T @ np.asarray(k) for k in K)
        if not np.all(np.isfinite(tot)):
            return float("inf")
        return float(np.max(np.abs(tot - np.eye(2))))

    def replay(w):
        pt = (w or {}).get("point") or {}
        err = native_dev(pt)
        return dict(confirmed=bool(err > 1e-9), max_abs_deviation=err, point=pt)

    def search_visible():
        """a point of the branch's domain at which the REAL kernel visibly violates completeness (deviation > 1e-9)"""
        best = (0.0, None)
        for pe in (0.0, 0.25, 0.5, 1.0):
            for t2 in ((0.2, 0.7, 1.0) if small else (1.01, 1.3, 1.7, 2.0)):
                for tg in [0.0, 0.3, 1.0, 3.0, 10.0, 20.0, 30.0, 40.0, 52.0, 80.0]:
                    pt = dict(pe=pe, t1=1.0, t2=t2, tg=tg)
                    d = native_dev(pt)
                    if d > best[0]:
                        best = (d, pt)
        return best

    def fn():
        from fractions import Fraction
        try:
            Ks, guards, table = thermal_trace(small)
        except Unsupported as ex:
            d, pt = search_visible()
            if d > 1e-9:
                return Outcome(REFUTED, "float-standin", f"trace left the fragment ({ex}); stand-in found a deviation", witness=dict(point=pt), replay=replay(dict(point=pt)))
            return Outcome(UNDECIDED, "trace", f"trace left the fragment: {ex}", extra=dict(standin="passed"))
        inv = {v: k for k, v in table.items()}
        order = list(table.values())                      # inner roots first
        env = {nm: z3.Real(nm) for nm in ["a", "b", "pe", "epsilon"] + [str(v) for v in order]}
        eps_val = Fraction(float(ch._SQRT_STABILITY_EPS)).limit_denominator(10 ** 30)  # pylint: disable=protected-access
        dom = [env["epsilon"] == z3.RealVal(str(eps_val)), env["a"] > 0, env["a"] <= 1, env["b"] > 0, env["b"] <= 1, env["pe"] >= 0, env["pe"] <= 1]
        dom += [env["b"] <= env["a"]] if small else [env["a"] <= env["b"], env["b"] * env["b"] <= env["a"]]
        n_ob = 0

        def defs(upto):
            out = []
            for sname in order[:upto]:
                out += [env[str(sname)] >= 0, env[str(sname)] * env[str(sname)] == to_z3(inv[sname], env)]
            return out

        def model_point(m):
            def fl(x):
                v = m.eval(env[x], model_completion=True)
                if not z3.is_rational_value(v):
                    v = v.approx(20)
                return float(v.numerator_as_long()) / float(v.denominator_as_long())
            return thermal_point(fl("a"), fl("b"), fl("pe"))
        # (1) every radicand is non-negative on the domain (given the roots nested inside it)
        for k_, sname in enumerate(order):
            sv = z3.Solver()
            set_budget(sv, 60000)
            sv.add(*dom, *defs(k_))
            sv.add(to_z3(inv[sname], env) < 0)
            res = sv.check()
            n_ob += 1
            if res == z3.sat:
                pt = model_point(sv.model())
                return Outcome(REFUTED, "z3-nra", f"radicand {inv[sname]} can be negative inside the domain", witness=dict(point=pt), replay=replay(dict(point=pt)))
            if res != z3.unsat:
                return Outcome(UNDECIDED, "z3-nra", f"radicand sign undecided: {inv[sname]}")

        # (2) |sum K^dagger K - 1| <= C * eps: even powers of the roots replaced by the radicands, fractions cleared
        def reduce_squares(e):
            """even powers of the named roots -> powers of their radicands (outermost root first; a radicand may contain inner roots)"""
            for sname in reversed(order):
                base = inv[sname]
                num, den = sp.fraction(sp.together(e))

                def red(p):
                    P = sp.Poly(sp.expand(p), sname)
                    return sum((c * base ** (k // 2) * sname ** (k % 2) for (k,), c in P.terms()), sp.Integer(0))
                e = red(num) / red(den)
            return e
        for i in range(2):
            for j in range(2):
                e = sum(sum(Ks[q][r][i] * Ks[q][r][j] for r in range(2)) for q in range(len(Ks))) - (1 if i == j else 0)
                e = reduce_squares(sp.sympify(e))
                num, den = sp.fraction(sp.together(e))
                num, den = sp.expand(num), sp.expand(den)
                if num == 0:
                    continue
                N, D = to_z3(num, env), to_z3(den, env)
                sv = z3.Solver()
                set_budget(sv, 120000)
                need, todo = set(), [x for x in (num.free_symbols | den.free_symbols) if x in inv]
                while todo:                                   # the roots that still occur (and the roots inside their radicands)
                    x = todo.pop()
                    if x not in need:
                        need.add(x)
                        todo += [y for y in inv[x].free_symbols if y in inv]
                sv.add(*dom)
                for sname in order:
                    if sname in need:
                        sv.add(env[str(sname)] >= 0, env[str(sname)] * env[str(sname)] == to_z3(inv[sname], env))
                sv.add(z3.Or(D == 0, z3.And(D > 0, z3.Or(N > CBOUND * env["epsilon"] * D, N < -CBOUND * env["epsilon"] * D)),
                             z3.And(D < 0, z3.Or(N < CBOUND * env["epsilon"] * D, N > -CBOUND * env["epsilon"] * D))))
                res = sv.check()
                n_ob += 1
                if res == z3.sat:
                    pt = model_point(sv.model())
                    rp = replay(dict(point=pt))
                    if not rp["confirmed"]:
                        # the solver's point violates the C*eps bound below float visibility: look for a point where the REAL kernel
                        # visibly violates completeness
                        d, vis = search_visible()
                        if vis is not None and d > 1e-9:
                            pt, rp = vis, replay(dict(point=vis))
                        else:
                            rp = dict(confirmed=None, note="bound violated symbolically, below float visibility at the points tried", point=pt,
                                      max_abs_deviation=rp["max_abs_deviation"])
                    return Outcome(REFUTED, "sympy+z3-nra", f"entry ({i},{j}) of sum K^dagger K - 1 exceeds {CBOUND}*eps inside the documented domain",
                                   witness=dict(point=pt, entry=[i, j]), replay=rp)
                if res != z3.unsat:
                    return Outcome(UNDECIDED, "z3-nra", f"bound undecided for entry ({i},{j})")
        return Outcome(DISCHARGED, "sympy+z3-nra", f"{len(Ks)} Kraus operators; guards {[str(g) for g in guards]}; {len(order)} named roots",
                       extra=dict(sub_obligations=max(1, n_ob)))
    return Obligation(label, "post", fn, func=(CH, "ThermalRelaxationError.compute_kraus_matrices"), replay=replay, timeout=600,
                      sample="sum of K^dagger K equals 1 up to C*eps on the documented domain (exponentials abstracted with their monotonicity facts)")


def build(tier, seed):
    plan = Plan("C28", level="proof")
    plan.explanation = ("(1) Each channel's real compute_kraus_matrices runs on sympy-backed symbolic parameters; its own domain guards "
                        "become the path condition; radicand signs and |sum K^dagger K - I| <= 16*eps are discharged by z3 NRA. "
                        "(2) The real default.mixed kernels (apply_operation_einsum / _tensordot, the apply_operation dispatch with its fast paths, "
                        "get_final_state's padding, measure_final_state for density_matrix / state) run on a generic symbolic density tensor and "
                        "generic symbolic Kraus matrices; every result entry is compared, as a polynomial, with the Kraus sum written by index "
                        "arithmetic. (3) Trace and Hermiticity preservation are polynomial lemmas over that reference.")
    plan.trusted_base = ["vf/symx/sscalar.py", "sympy expand", "z3 nlsat", "vf/symx exact ring + Sym scalar; numpy structural operations on "
                         "object arrays (einsum, tensordot, moveaxis, stack, roll, reshape) executed as they are",
                         "harness: casting a symbolic object array to float/complex keeps it symbolic; GenericChannel (a Channel subclass returning "
                         "the given Kraus matrices) stands for an arbitrary channel"]
    plan.assumptions = ["A-float-as-real", f"completeness is required up to the source's stabiliser eps = {ch._SQRT_STABILITY_EPS} (exact "  # pylint: disable=protected-access
                        "equality is false by construction of the code)", "parameters real"]
    plan.unverified = ["QubitChannel (user supplied Kraus matrices; its constructor validates completeness numerically with allclose, which a "
                       "symbolic trace cannot reach)",
                       "positive semidefiniteness of simulated states (a mathematical consequence of the Kraus form proved for the kernels, not "
                       "machine-checked)", "sampling / shot-based measurements, readout errors, other interfaces than numpy, wire counts above 4",
                       "create_initial_state with a user-supplied density matrix, Snapshot, mid-circuit QubitDensityMatrix"]
    plan.size_bounds = ["PauliError words X, Y, Z, XY, ZI, YY"]
    for name, names, bld, sampler in CHANNELS:
        ob = make_ob(name, names, bld, sampler, seed)
        plan.add(ob)
        plan.fn_under_contract(*ob.func)
    for small in (True, False):
        ob = thermal_ob(small, seed)
        if not small:
            ob.finding = "F32"     # open known finding (known_findings.json): the T1<T2<=2T1 branch is not trace preserving for long gate times
        plan.add(ob)
        plan.fn_under_contract(*ob.func)
    plan.assumptions.append("ThermalRelaxationError: exp(-tg/t1), exp(-tg/t2) are abstracted to symbols a, b constrained by 0 < a, b <= 1 and the "
                            "monotonicity facts of exp on the branch's domain (b <= a for t2 <= t1; a <= b and b*b <= a for t1 < t2 <= 2*t1)")
    add_simulator_obligations(plan, tier, seed)
    return plan
