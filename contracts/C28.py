"""C28 Noisy evolution stays physical: Kraus completeness of the built-in channels.

Contract on every channel's compute_kraus_matrices, under its documented domain as path condition (the domain guards the
code itself evaluates):  every radicand is >= 0  and  | (sum_k K_k^dagger K_k - I)_ij | <= C * eps  where eps is the
stabiliser the source adds under every square root (read from the module).  Exact completeness is false by construction of
the code (eps > 0), so the obligation is completeness up to the source's own eps.
"""
import itertools
import math
import random

import numpy as np
import sympy as sp
import z3

from vf.pyvc.engine import set_budget
import pennylane as qp
from pennylane.ops import channel as ch

from vf.common import Plan, Obligation, Outcome, DISCHARGED, REFUTED, UNDECIDED, FAULT
from vf.symx import sscalar as SSM
from vf.symx.sscalar import SS
from vf.symx.ring import Unsupported

CH = "pennylane/ops/channel.py"
EPS = sp.Symbol("epsilon", positive=True)
CBOUND = 16


def to_z3(e, env):
    e = sp.sympify(e)
    if e.is_Symbol:
        return env[str(e)]
    if e.is_Rational:
        return z3.RealVal(str(e))
    if e.is_Float:
        return z3.RealVal(repr(float(e)))
    if e.is_Add:
        return sum((to_z3(a, env) for a in e.args[1:]), to_z3(e.args[0], env))
    if e.is_Mul:
        r = to_z3(e.args[0], env)
        for a in e.args[1:]:
            r = r * to_z3(a, env)
        return r
    if e.is_Pow and e.exp.is_Integer and e.exp >= 0:
        r = z3.RealVal(1)
        for _ in range(int(e.exp)):
            r = r * to_z3(e.base, env)
        return r
    if e.is_Pow and e.exp.is_Integer and e.exp < 0:
        return 1 / to_z3(sp.Pow(e.base, -e.exp), env)
    raise Unsupported(f"no z3 translation for {e}")


CHANNELS = [
    # name, parameter names, builder(params) -> list of Kraus matrices, native sampler of a point in the domain
    ("AmplitudeDamping", ["g"], lambda P: qp.AmplitudeDamping.compute_kraus_matrices(P["g"]), lambda r: {"g": r.random()}),
    ("GeneralizedAmplitudeDamping", ["g", "p"], lambda P: qp.GeneralizedAmplitudeDamping.compute_kraus_matrices(P["g"], P["p"]),
     lambda r: {"g": r.random(), "p": r.random()}),
    ("PhaseDamping", ["g"], lambda P: qp.PhaseDamping.compute_kraus_matrices(P["g"]), lambda r: {"g": r.random()}),
    ("DepolarizingChannel", ["p"], lambda P: qp.DepolarizingChannel.compute_kraus_matrices(P["p"]), lambda r: {"p": r.random()}),
    ("BitFlip", ["p"], lambda P: qp.BitFlip.compute_kraus_matrices(P["p"]), lambda r: {"p": r.random()}),
    ("PhaseFlip", ["p"], lambda P: qp.PhaseFlip.compute_kraus_matrices(P["p"]), lambda r: {"p": r.random()}),
    ("ResetError", ["p", "q"], lambda P: qp.ResetError.compute_kraus_matrices(P["p"], P["q"]),
     lambda r: (lambda a, b: {"p": a * 0.99, "q": (1 - a) * b * 0.99})(r.random(), r.random())),
]
for _w in ["X", "Y", "Z", "XY", "ZI", "YY"]:
    CHANNELS.append((f"PauliError[{_w}]", ["p"], (lambda P, w=_w: qp.PauliError.compute_kraus_matrices(P["p"], w)),
                     lambda r: {"p": r.random()}))


def trace(build, names):
    """run the real kernel symbolically; returns (list of K as object arrays, guards assumed, radicands)"""
    syms = {n: sp.Symbol(n, real=True) for n in names}
    guards = []

    def oracle(lhs, op, rhs):
        # domain guard: answer "inside the documented domain" (the branch that does not raise) and log the assumption
        inside = {"<=": True, ">=": True, "<": False, ">": False}[op]
        rel = {"<=": sp.Le, ">=": sp.Ge, "<": sp.Lt, ">": sp.Gt}[op](lhs, rhs)
        guards.append(rel if inside else sp.Not(rel))
        return inside
    SSM.ORACLE = oracle
    SSM.RADICANDS.clear()
    SSM.CONSTANTS.clear()
    SSM.CONSTANTS[float(ch._SQRT_STABILITY_EPS)] = EPS  # pylint: disable=protected-access
    try:
        K = build({n: SS(s) for n, s in syms.items()})
        K = [np.asarray(k, dtype=object) for k in K]
    finally:
        SSM.ORACLE = None
    return K, list(guards), list(SSM.RADICANDS)


def deviation(K):
    n = K[0].shape[0]
    tot = [[sp.Integer(0)] * n for _ in range(n)]
    for k in K:
        for i in range(n):
            for j in range(n):
                acc = sp.Integer(0)
                for r in range(k.shape[0]):
                    a, b = k[r, i], k[r, j]
                    ea = (a.e if isinstance(a, SS) else sp.nsimplify(complex(a), rational=True)).subs(sp.I, -sp.I)
                    eb = b.e if isinstance(b, SS) else sp.nsimplify(complex(b), rational=True)
                    acc += ea * eb
                tot[i][j] += acc
    return [[sp.expand(tot[i][j] - (1 if i == j else 0)) for j in range(n)] for i in range(n)]


def rel_to_z3(rel, env):
    if isinstance(rel, sp.Not):
        return z3.Not(rel_to_z3(rel.args[0], env))
    l, r = to_z3(rel.lhs, env), to_z3(rel.rhs, env)
    return {sp.Le: l <= r, sp.Ge: l >= r, sp.Lt: l < r, sp.Gt: l > r}[type(rel)] if type(rel) in (sp.Le, sp.Ge, sp.Lt, sp.Gt) else \
        {"<=": l <= r, ">=": l >= r, "<": l < r, ">": l > r}[rel.rel_op]


def make_ob(name, names, build, sampler, seed):
    label = f"C28/channel:{name.split('[')[0]}.compute_kraus_matrices{name[name.index('['):] if '[' in name else ''}/post:completeness-up-to-eps"

    def replay(w):
        pt = (w or {}).get("point") or {}
        K = build({n: float(pt[n]) for n in names})
        with np.errstate(all="ignore"):
            tot = sum(np.conj(np.asarray(k)).T @ np.asarray(k) for k in K)
        if not np.all(np.isfinite(tot)):
            return dict(confirmed=True, observed="non-finite Kraus operators (square root of a negative radicand)", point=pt)
        err = float(np.max(np.abs(tot - np.eye(tot.shape[0]))))
        return dict(confirmed=bool(err > 1e-9), max_abs_deviation=err, point=pt)

    def fn():
        rng = random.Random(seed * 31 + len(name))
        try:
            K, guards, rads = trace(build, names)
            D = deviation(K)
        except Unsupported as ex:
            for _ in range(64):
                pt = sampler(rng)
                rp = replay(dict(point=pt))
                if rp["confirmed"]:
                    return Outcome(REFUTED, "float-standin", f"trace left the fragment ({ex}); stand-in found a deviation", witness=dict(point=pt), replay=rp)
            return Outcome(UNDECIDED, "trace", f"trace left the fragment: {ex}", extra=dict(standin="passed", standin_points=64))
        env = {n: z3.Real(n) for n in names}
        env["epsilon"] = z3.Real("epsilon")
        from fractions import Fraction
        eps_val = Fraction(float(ch._SQRT_STABILITY_EPS)).limit_denominator(10 ** 30)  # pylint: disable=protected-access
        pc = [rel_to_z3(g, env) for g in guards] + [env["epsilon"] == z3.RealVal(str(eps_val))]
        if name.startswith("PauliError"):
            # the probability domain of PauliError is validated in its constructor, not in the kernel: documented domain
            pc += [env["p"] >= 0, env["p"] <= 1]
        n_ob = 0
        # (1) radicands non-negative on the domain
        for r in rads:
            if not r.free_symbols:
                continue
            s = z3.Solver()
            set_budget(s, 20000)
            s.add(*pc)
            s.add(to_z3(sp.expand(r), env) < 0)
            res = s.check()
            n_ob += 1
            if res == z3.sat:
                m = s.model()
                pt = {nm: float(m.eval(env[nm], model_completion=True).as_fraction()) for nm in names}
                return Outcome(REFUTED, "z3-nra", f"radicand {r} can be negative inside the domain", witness=dict(point=pt), replay=replay(dict(point=pt)))
            if res != z3.unsat:
                return Outcome(UNDECIDED, "z3-nra", f"radicand sign undecided: {r}")
        # (2) deviation bounded by C * eps
        for i, row in enumerate(D):
            for j, e in enumerate(row):
                if e == 0:
                    continue
                if e.has(sp.I):
                    re_, im_ = sp.expand(sp.re(e)), sp.expand(sp.im(e))
                else:
                    re_, im_ = e, sp.Integer(0)
                for part in (re_, im_):
                    if part == 0:
                        continue
                    try:
                        t = to_z3(part, env)
                    except Unsupported as ex:
                        return Outcome(UNDECIDED, "sympy", f"entry ({i},{j}) does not reduce to a polynomial: {part}")
                    s = z3.Solver()
                    set_budget(s, 20000)
                    s.add(*pc)
                    s.add(z3.Or(t > CBOUND * env["epsilon"], t < -CBOUND * env["epsilon"]))
                    res = s.check()
                    n_ob += 1
                    if res == z3.sat:
                        m = s.model()
                        pt = {nm: float(m.eval(env[nm], model_completion=True).as_fraction()) for nm in names}
                        return Outcome(REFUTED, "z3-nra", f"entry ({i},{j}) of sum K^dagger K - I is {part}: exceeds {CBOUND}*eps",
                                       witness=dict(point=pt, entry=[i, j]), replay=replay(dict(point=pt)))
                    if res != z3.unsat:
                        return Outcome(UNDECIDED, "z3-nra", f"bound undecided for entry ({i},{j}): {part}")
        return Outcome(DISCHARGED, "sympy+z3-nra", f"{len(K)} Kraus operators; guards {[str(g) for g in guards]}; deviation entries "
                       f"{sorted({str(e) for row in D for e in row if e != 0})[:4]}", extra=dict(sub_obligations=max(1, n_ob)))
    return Obligation(label, "post", fn, func=(CH, f"{name.split('[')[0]}.compute_kraus_matrices"), replay=replay, timeout=300,
                      size_bounded="[" in name,
                      sample="sum of K^dagger K equals I up to C*eps on the documented domain; all radicands non-negative there")


def build(tier, seed):
    plan = Plan("C28", level="proof")
    plan.explanation = ("Each channel's real compute_kraus_matrices runs on sympy-backed symbolic parameters; its own domain guards "
                        "become the path condition; radicand signs and |sum K^dagger K - I| <= 16*eps are discharged by z3 NRA.")
    plan.trusted_base = ["vf/symx/sscalar.py", "sympy expand", "z3 nlsat"]
    plan.assumptions = ["A-float-as-real", f"completeness is required up to the source's stabiliser eps = {ch._SQRT_STABILITY_EPS} (exact "  # pylint: disable=protected-access
                        "equality is false by construction of the code)", "parameters real"]
    plan.unverified = ["ThermalRelaxationError (exp/eigen-decomposition branches)", "QubitChannel (user supplied Kraus matrices)",
                       "default.mixed's application of the Kraus operators, positivity/trace of simulated states"]
    plan.size_bounds = ["PauliError words X, Y, Z, XY, ZI, YY"]
    for name, names, bld, sampler in CHANNELS:
        ob = make_ob(name, names, bld, sampler, seed)
        plan.add(ob)
        plan.fn_under_contract(*ob.func)
    return plan
