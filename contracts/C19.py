"""C19 transpile respects device connectivity -- the connectivity half, on the main loop of transforms/transpile.py:transpile.

The `while len(list_op_copy) > 0:` statement of the real function is taken from its AST on every run and verified as a procedure over
its free variables (list_op_copy, gates, coupling_graph, wire_order, measurements); everything around it (coupling-map construction,
the checks that raise, decompose, measurement processing, the returned post-processing) is outside the fragment.

Operations are abstract records (number of wires 0..2, the wires, an identity); the coupling graph is an uninterpreted edge relation.
Contract of the loop: if every remaining operation acts on at most two, pairwise different wires (checked by the enclosing function /
guaranteed by Wires) and `gates` is empty, then on exit EVERY two-wire operation in `gates` acts on an edge of the coupling graph (in one
of the two orders) and the loop terminates (len(list_op_copy) decreases).  Routed branch: with the ASSUMED contract of
networkx.shortest_path (a simple path from source to destination whose consecutive nodes are adjacent) the inner loop keeps
wire_map[source] == path[0], wire_map[dest] == path[len-1-j] and wire_map injective, every inserted SWAP acts on consecutive path nodes,
and the mapped operation lands on (path[0], path[1]).
"""
import ast

import z3

from vf.common import Plan, find_def
from vf.pyvc.engine import (World, T, Int, Label, LabelSort, RecT, SeqT, MapT, Rec, SeqV, MapV, PyList, FuncRef, Unsupp, RaiseExc, to_int_term,
                            s_at)
from vf.pyvc.contract import FnContract, Case, LoopSpec, obligations_for, lemma
from vf.pyvc.interp import Interp
from vf.pyvc.spec import And

TP = "pennylane/transforms/transpile.py"
LL = z3.ArraySort(LabelSort, LabelSort)
PATHS = z3.SeqSort(LabelSort)
EDGE = z3.Function("edge", LabelSort, LabelSort, z3.BoolSort())          # (u, v) in coupling_graph.edges

STUBS = '''
class Wires2:
    def __len__(self):
        return self.n


class Op:
    @property
    def wires(self):
        return Wires2(self.nw, self.w0, self.w1)

    def map_wires(self, wire_map):
        return op_map(self, wire_map)


class MP:
    def map_wires(self, wire_map):
        return mp_map(self, wire_map)


class EdgeView:
    def __contains__(self, e):
        return edge_rel(e)


class Graph:
    @property
    def edges(self):
        return EdgeView()
'''


class MapItems:
    """wire_map.items() of a symbolic map"""

    def __init__(self, m):
        self.m = m


def pair_slice(p, i):
    """for 1 <= i <= len(p) - 1 the interpreter's term for p[i-1:i+1] is the two-element list [p[i-1], p[i]]"""
    t = Interp.slice(None, SeqV(p, Label), i - 1, i + 1, None).term
    return z3.Implies(z3.And(i >= 1, i <= z3.Length(p) - 1), z3.And(z3.Length(t) == 2, t[0] == p[i - 1], t[1] == p[i]))


def adjacent(a, b):
    return z3.Or(EDGE(a, b), EDGE(b, a))


class LoopFragment(FnContract):
    """the main while-loop of transpile as a procedure over its free variables"""

    PARAMS = ["list_op_copy", "gates", "coupling_graph", "wire_order", "measurements"]

    def node(self):
        _, fn = find_def(self.world.file, "transpile")
        loops = [n for n in ast.walk(fn) if isinstance(n, ast.While) and "list_op_copy" in ast.unparse(n.test)]
        if len(loops) != 1:
            raise KeyError("transpile: main loop `while len(list_op_copy) > 0` not found")
        key = id(loops[0])
        cache = self.__dict__.setdefault("_frag", {})
        if key not in cache:
            mod = ast.parse("def transpile__main_loop(" + ", ".join(self.PARAMS) + "):\n    pass\n    return gates\n")
            f = mod.body[0]
            f.body = [loops[0], f.body[1]]
            f.body[1].lineno = f.body[1].end_lineno = getattr(loops[0], "end_lineno", loops[0].lineno) + 1
            cache[key] = f
        return cache[key]


def build(tier, seed):
    plan = Plan("C19", level="proof")
    plan.explanation = (
        "The while-loop of transpile is cut out of the real AST and executed symbolically for an operation list of SYMBOLIC length over "
        "abstract operation records and an uninterpreted edge relation. Outer invariant: every two-wire operation in `gates` is on an edge "
        "(a snoc-defined predicate) and every remaining operation has at most two, different wires (a cons-defined predicate); measure "
        "len(list_op_copy). Inner (SWAP) loop invariant over the assumed shortest-path contract: wire_map[source] == path[0], "
        "wire_map[dest] == path[L-j], wire_map injective. The comprehension that re-maps the remaining operations is the recursively defined "
        "map; its two laws (length, preservation of the operation invariant under an injective map) are proved by base + step lemmas.")
    plan.trusted_base = ["vf/pyvc encoder (Python subset semantics) + the additive value semantics of this file (dict comprehensions over symbolic "
                         "maps, comprehension over a symbolic range, unpacking of a 2-element slice, list.pop(0))",
                         "z3 sequences / arrays / EUF with pattern-instantiated quantifiers",
                         "induction over finite sequences (meta-level) for the lemma pairs; the loop-cut rule",
                         "fragment extraction: the loop is verified as a procedure over its free variables (its context is not)"]
    plan.assumptions = [
        "A-ops: an operation is used only through len(op.wires), membership of op.wires in coupling_graph.edges, unpacking op.wires and "
        "op.map_wires: modelled as a record (number of wires, two wire labels, identity)",
        "A-pre (established by the enclosing function / Wires): every operation has 0..2 wires, the wires of a two-wire operation differ, gates == []",
        "A-cover: the coupling graph is connected and every wire label that occurs is one of its nodes (property statement's hypothesis; "
        "checked by the enclosing function for the input tape) -- shortest_path therefore exists; wire_map lookups are total (no KeyError modelling)",
    ]
    plan.assumed_contracts = [
        "networkx.algorithms.shortest_path(G, s, t): a list p with p[0] == s, p[-1] == t, p[i] and p[i+1] adjacent in G, nodes pairwise different",
        "Operator.map_wires(wire_map): the same operation with every wire w replaced by wire_map[w] (number of wires unchanged)",
        "SWAP(wires=[a, b]): a two-wire operation on (a, b); (u, v) in G.edges is the adjacency relation of the graph",
        "MeasurementProcess.map_wires: some measurement (measurements do not influence the gates)",
    ]
    plan.dropped = ["everything outside the main loop of transpile: coupling-graph construction, the three early checks, decompose, "
                    "_process_measurements, tape.copy, the state-transposition post-processing"]

    ghost_last = {}

    def b_edge_rel(it, args, kw):
        e = args[0]
        if isinstance(e, Rec) and e.cls.name == "Wires2":
            return EDGE(e.f["a"], e.f["b"])
        if isinstance(e, (tuple, PyList)):
            xs = list(e.items) if isinstance(e, PyList) else list(e)
            if len(xs) == 2:
                return EDGE(xs[0], xs[1])
        raise Unsupp("edge membership of this value")

    def b_reversed(it, args, kw):
        v = args[0]
        if isinstance(v, Rec) and v.cls.name == "Wires2":
            it.ctx.prove(to_int_term(v.f["n"]) == 2, "reversed(op.wires): two wires")
            return PyList([v.f["b"], v.f["a"]])
        return it.b_reversed(args, kw, None)

    def b_op_map(it, args, kw):
        op, wm = args
        if not (isinstance(op, Rec) and isinstance(wm, MapV)):
            raise Unsupp("map_wires model")
        ghost_last["val"] = wm.val
        return Rec(op.cls, {"nw": op.f["nw"], "w0": z3.Select(wm.val, op.f["w0"]), "w1": z3.Select(wm.val, op.f["w1"]), "ident": op.f["ident"]})

    MPMAP = z3.Function("mp_map", LabelSort, LL, LabelSort)

    def b_mp_map(it, args, kw):
        mp, wm = args
        return Rec(mp.cls, {"ident": MPMAP(mp.f["ident"], wm.val)})

    SWAPID = z3.Const("SWAP", LabelSort)

    def b_swap(it, args, kw):
        ws = kw.get("wires", args[0] if args else None)
        xs = list(ws.items) if isinstance(ws, PyList) else list(ws)
        if len(xs) != 2:
            raise Unsupp("SWAP model")
        return Rec(w.classes["Op"], {"nw": 2, "w0": xs[0], "w1": xs[1], "ident": SWAPID})

    def b_shortest_path(it, args, kw):
        """ASSUMED contract of networkx.shortest_path (see assumed_contracts)"""
        _g, s, t = args
        ctx = it.ctx
        p = z3.Const(ctx.fresh_name("path"), PATHS)
        n = z3.Length(p)
        i, j = z3.Ints("sp_i sp_j")
        ctx.assume(z3.And(n >= 1, p[0] == s, p[n - 1] == t))
        ctx.assume(z3.ForAll([i], z3.Implies(z3.And(i >= 0, i < n - 1), adjacent(p[i], p[i + 1])), patterns=[p[i + 1]]))
        ctx.assume(z3.ForAll([i, j], z3.Implies(z3.And(i >= 0, i < j, j < n), p[i] != p[j]), patterns=[z3.MultiPattern(p[i], p[j])]))
        ctx.ghost["path"] = p
        ctx.havocked = True
        return SeqV(p, Label, False)

    w = World(TP, stubs={"Wires2": (STUBS, {"n": Int, "a": Label, "b": Label}), "Op": (STUBS, {"nw": Int, "w0": Label, "w1": Label, "ident": Label}),
                         "MP": (STUBS, {"ident": Label}), "EdgeView": (STUBS, {}), "Graph": (STUBS, {})},
              extra_builtins={"edge_rel": b_edge_rel, "reversed": b_reversed, "op_map": b_op_map, "mp_map": b_mp_map, "SWAP": b_swap,
                              "nx.algorithms.shortest_path": b_shortest_path})
    OP = RecT("Op")
    OpS = w.sort_of(OP)
    SO = z3.SeqSort(OpS)
    mk_op = OpS.constructor(0)
    a_nw, a_w0, a_w1, a_id = (OpS.accessor(0, k) for k in range(4))

    # ---- spec functions ----------------------------------------------------------------------------------------------------------
    OKG = z3.Function("gates_on_edges", SO, z3.BoolSort())            # snoc-defined
    OPSOK = z3.Function("ops_wellformed", SO, z3.BoolSort())          # cons-defined
    MAPOPS = z3.Function("map_ops", LL, SO, SO)                       # cons-defined: [op.map_wires(v) for op in s]

    def P(x):
        return z3.Implies(a_nw(x) == 2, adjacent(a_w0(x), a_w1(x)))

    def Q(x):
        return z3.And(a_nw(x) >= 0, a_nw(x) <= 2, z3.Implies(a_nw(x) == 2, a_w0(x) != a_w1(x)))

    def F(v, x):
        return mk_op(a_nw(x), z3.Select(v, a_w0(x)), z3.Select(v, a_w1(x)), a_id(x))

    EO = z3.Empty(SO)

    def okg_def(s, x):
        return [OKG(EO), OKG(z3.Concat(s, z3.Unit(x))) == z3.And(OKG(s), P(x))]

    def opsok_def(x, s):
        return [OPSOK(EO), OPSOK(z3.Concat(z3.Unit(x), s)) == z3.And(Q(x), OPSOK(s))]

    def mapops_def(v, x, s):
        return [MAPOPS(v, EO) == EO, MAPOPS(v, z3.Concat(z3.Unit(x), s)) == z3.Concat(z3.Unit(F(v, x)), MAPOPS(v, s))]

    def INJ(v):
        a, b = z3.Consts("inj_a inj_b", LabelSort)
        return z3.ForAll([a, b], z3.Implies(a != b, z3.Select(v, a) != z3.Select(v, b)), patterns=[z3.MultiPattern(z3.Select(v, a), z3.Select(v, b))])

    def cons_split(s):
        return z3.Implies(z3.Length(s) > 0, s == z3.Concat(z3.Unit(s[0]), z3.Extract(s, 1, z3.Length(s) - 1)))

    def len_mapops(v, s):
        return z3.Length(MAPOPS(v, s)) == z3.Length(s)

    def opsok_mapops(v, s):
        return z3.Implies(z3.And(INJ(v), OPSOK(s)), OPSOK(MAPOPS(v, s)))

    s_ = z3.Const("s", SO)
    x_ = z3.Const("x", OpS)
    v_ = z3.Const("v", LL)
    for ob in (
            lemma("C19", "seq/cons-split", [s_], cons_split(s_)),
            lemma("C19", "slice/consecutive-pair", [z3.Const("p", PATHS), z3.Int("i")], pair_slice(z3.Const("p", PATHS), z3.Int("i"))),
            lemma("C19", "len-map-ops/base", [v_], len_mapops(v_, EO), assumptions=mapops_def(v_, x_, s_)),
            lemma("C19", "len-map-ops/step", [v_, x_, s_], len_mapops(v_, z3.Concat(z3.Unit(x_), s_)),
                  assumptions=mapops_def(v_, x_, s_) + [len_mapops(v_, s_)]),
            lemma("C19", "wellformed-map-ops/base", [v_], opsok_mapops(v_, EO), assumptions=mapops_def(v_, x_, s_) + opsok_def(x_, s_)),
            lemma("C19", "wellformed-map-ops/step", [v_, x_, s_], opsok_mapops(v_, z3.Concat(z3.Unit(x_), s_)),
                  assumptions=mapops_def(v_, x_, s_) + opsok_def(x_, s_) + opsok_def(F(v_, x_), MAPOPS(v_, s_)) + [opsok_mapops(v_, s_)])):
        plan.add(ob)

    # ---- additive value semantics ---------------------------------------------------------------------------------------------------
    class TranspileInterp(Interp):
        def ite(self, c, a, b):
            if isinstance(a, z3.ExprRef) and isinstance(b, z3.ExprRef) and a.sort() == b.sort() and a.sort() == LabelSort:
                return z3.If(c, a, b)
            return super().ite(c, a, b)

        def iter_concrete(self, v):
            if isinstance(v, Rec) and v.cls.name == "Wires2":
                self.ctx.prove(to_int_term(v.f["n"]) == 2, "unpacking op.wires into two names: two wires")
                return [v.f["a"], v.f["b"]]
            return super().iter_concrete(v)

        def index(self, obj, idx, node=None):
            if isinstance(obj, MapV) and not isinstance(idx, slice):
                # lookups in wire_map are total (A-cover): the image of the key
                return self.world.unbox(z3.Select(obj.val, self.world.box(idx, obj.key_t)), obj.val_t)
            return super().index(obj, idx, node)

        def method_of_builtin(self, o, name, args, kw, node):
            if isinstance(o, SeqV) and name == "pop" and len(args) == 1 and isinstance(args[0], int) and args[0] == 0:
                ln = z3.Length(o.term)
                if not self.ctx.branch(ln > 0):
                    raise RaiseExc("IndexError", node)
                first = self.world.unbox(o.term[0], o.elem)
                o.term = z3.Extract(o.term, 1, ln - 1)
                return first
            if isinstance(o, MapV) and name == "items" and not args:
                return MapItems(o)
            return super().method_of_builtin(o, name, args, kw, node)

        def getattr(self, obj, attr, node=None):
            if isinstance(obj, MapV) and attr == "items":
                from vf.pyvc.engine import BoundMethod
                return BoundMethod(obj, attr)
            return super().getattr(obj, attr, node)

        def assign(self, t, v, env):
            if isinstance(t, (ast.Tuple, ast.List)) and isinstance(v, SeqV) and not any(isinstance(e, ast.Starred) for e in t.elts):
                if not self.ctx.branch(z3.Length(v.term) == len(t.elts)):
                    raise RaiseExc("ValueError")
                for k, e in enumerate(t.elts):
                    self.assign(e, self.world.unbox(v.term[k], v.elem), env)
                return
            return super().assign(t, v, env)

        def e_DictComp(self, n, env):
            """{key: value for ... in <symbolic sequence | symbolic map .items()>} with key == the iterated key: a symbolic map whose value at K
            is the value expression (evaluated once on a bound key)"""
            if len(n.generators) == 1 and not n.generators[0].ifs:
                g = n.generators[0]
                src = self.eval(g.iter, env)
                if isinstance(src, (SeqV, MapItems)):
                    ctx = self.ctx
                    K = z3.Const(ctx.fresh_name("key"), LabelSort)
                    e2 = dict(env)
                    if isinstance(src, SeqV):
                        if src.term.sort() != PATHS:
                            raise Unsupp("dict comprehension over this sequence")
                        self.assign(g.target, K, e2)
                        old = None
                    else:
                        old = src.m
                        self.assign(g.target, (K, z3.Select(old.val, K)), e2)
                    self.pure += 1
                    ctx.pure_vars.append(K)
                    try:
                        key = self.eval(n.key, e2)
                        val = self.eval(n.value, e2)
                    finally:
                        self.pure -= 1
                        ctx.pure_vars.pop()
                    if not (isinstance(key, z3.ExprRef) and key.eq(K)) or not (isinstance(val, z3.ExprRef) and val.sort() == LabelSort):
                        raise Unsupp("dict comprehension that re-keys a symbolic map")
                    v2 = z3.Const(ctx.fresh_name("wire_map"), LL)
                    Kb = z3.Const("dc_k", LabelSort)
                    ctx.assume(z3.ForAll([Kb], z3.Select(v2, Kb) == z3.substitute(val, (K, Kb)), patterns=[z3.Select(v2, Kb)]))
                    ctx.ghost.setdefault("maps", []).append((v2, K, val))
                    ctx.havocked = True
                    dom = old.dom if old is not None else z3.Const(ctx.fresh_name("wire_map.dom"), z3.ArraySort(LabelSort, z3.BoolSort()))
                    return MapV(dom, v2, Label, Label)
            return super().e_DictComp(n, env)

        def e_ListComp(self, n, env):
            """[elt for i in range(a, b, -1)] with symbolic bounds: the list of the values of elt, element j at i = a - j"""
            if len(n.generators) == 1 and not n.generators[0].ifs and isinstance(n.generators[0].target, ast.Name):
                g = n.generators[0]
                src = self.eval(g.iter, env)
                if isinstance(src, tuple) and src and src[0] == "symrange":
                    rargs = list(src[1:])
                    if len(rargs) != 3 or rargs[2] != -1:
                        raise Unsupp("comprehension over this symbolic range")
                    a, b = to_int_term(rargs[0]), to_int_term(rargs[1])
                    ctx = self.ctx
                    ci = z3.Int(ctx.fresh_name("ri"))
                    e2 = dict(env)
                    e2[g.target.id] = ci
                    self.pure += 1
                    ctx.pure_vars.append(ci)
                    try:
                        val = self.eval(n.elt, e2)
                    finally:
                        self.pure -= 1
                        ctx.pure_vars.pop()
                    if not (isinstance(val, SeqV) and val.term.sort() == PATHS):
                        raise Unsupp("element type of a comprehension over a symbolic range")
                    cnt = z3.If(a - b > 0, a - b, z3.IntVal(0))
                    W = z3.Const(ctx.fresh_name("range_comp"), z3.SeqSort(PATHS))
                    jb = z3.Int("rc_j")
                    elt = lambda j: z3.substitute(val.term, (ci, a - j))
                    ctx.assume(z3.Length(W) == cnt)
                    ctx.assume(z3.ForAll([jb], z3.Implies(z3.And(jb >= 0, jb < cnt), W[jb] == elt(jb)), patterns=[W[jb]]))
                    ctx.ghost["range_comp"] = (W, elt, cnt, a)
                    ctx.havocked = True
                    return SeqV(W, SeqT(Label), False)
                # the generator was evaluated: fall through by re-dispatching on the evaluated value is not possible; evaluate normally
            return super().e_ListComp(n, env)

        def sym_map(self, it, i, val):
            """[op.map_wires(wire_map) for op in ops] over a symbolic-length list of operation records IS map_ops(wire_map, ops)"""
            if isinstance(val, Rec) and val.cls.name == "Op" and isinstance(it, SeqV) and it.term.sort() == SO and "val" in ghost_last:
                try:
                    boxed = self.world.box(val, OP)
                    if z3.is_true(z3.simplify(boxed == F(ghost_last["val"], s_at(it.term, i)))):
                        return SeqV(MAPOPS(ghost_last["val"], it.term), OP, False)
                except (z3.Z3Exception, Unsupp):
                    pass
            return super().sym_map(it, i, val)

    # ---- invariants ------------------------------------------------------------------------------------------------------------------
    def seq_term(v):
        if isinstance(v, SeqV):
            return v.term
        if isinstance(v, PyList):
            items = [w.box(x, OP) for x in v.items]
            return EO if not items else (z3.Unit(items[0]) if len(items) == 1 else z3.Concat(*[z3.Unit(x) for x in items]))
        raise Unsupp("gates value")

    def peel_snoc(term, out):
        """instances of the snoc definition of gates_on_edges along the syntactic structure base ++ [x1] ++ [x2] ..."""
        while z3.is_app_of(term, z3.Z3_OP_SEQ_CONCAT):
            ch = term.children()
            if not z3.is_app_of(ch[-1], z3.Z3_OP_SEQ_UNIT):
                break
            pre = ch[0] if len(ch) == 2 else z3.Concat(*ch[:-1])
            out += okg_def(pre, ch[-1].arg(0))
            term = pre
        if z3.is_app_of(term, z3.Z3_OP_SEQ_UNIT):
            out += okg_def(EO, term.arg(0)) + [z3.Concat(EO, term) == term]
        out.append(OKG(EO))
        return out

    def ops_facts(term, out):
        """cons-split + definition instance for the head of the remaining list; lemma instances when it is a mapped list"""
        out += [cons_split(term), OPSOK(EO)] + opsok_def(term[0], z3.Extract(term, 1, z3.Length(term) - 1))
        if z3.is_app(term) and term.decl().eq(MAPOPS):
            v, s = term.arg(0), term.arg(1)
            out += [len_mapops(v, s), opsok_mapops(v, s)]
        return out

    def outer_inv(v):
        return And(OKG(seq_term(v.gates)), OPSOK(v.list_op_copy.term))

    def outer_ax(v):
        out = []
        peel_snoc(seq_term(v.gates), out)
        ops_facts(v.list_op_copy.term, out)
        return out

    def inner_inv(v):
        p = v.shortest_path.term
        L = z3.Length(p) - 1
        j = to_int_term(v._i1)
        val = v.wire_map.val
        return And(OKG(seq_term(v.gates)), INJ(val), z3.Select(val, v.source_wire) == p[0], z3.Select(val, v.dest_wire) == p[L - j],
                   OPSOK(v.list_op_copy.term))

    def inner_ax(v):
        p = v.shortest_path.term
        n = z3.Length(p)
        L = n - 1
        j = to_int_term(v._i1)
        i = L - j
        out = []
        peel_snoc(seq_term(v.gates), out)
        rc = getattr(v.ghost, "range_comp", None)
        if rc is not None:
            W, elt, cnt, a = rc
            out += [z3.Implies(z3.And(j >= 0, j < cnt), W[j] == elt(j)), pair_slice(p, a - j)]
        for (x, y) in ((i - 1, i), (z3.IntVal(0), z3.IntVal(1))):
            out.append(z3.Implies(z3.And(x >= 0, y < n), adjacent(p[x], p[y])))
        for (x, y) in ((z3.IntVal(0), i), (z3.IntVal(0), i - 1), (i - 1, i)):
            out.append(z3.Implies(z3.And(x >= 0, x < y, y < n), p[x] != p[y]))
        for (v2, K, val) in getattr(v.ghost, "maps", []):
            for key in (v.source_wire, v.dest_wire):
                out.append(z3.Select(v2, key) == z3.substitute(val, (K, key)))
        return out

    def loop_post_axioms(o, r, nw, loc):
        out = []
        peel_snoc(seq_term(r) if isinstance(r, (SeqV, PyList)) else EO, out)
        return out

    # ---- replay: real circuits and coupling graphs (bounded native search with the executable contract) -------------------------------
    def lab_int(x):
        s = str(x)
        return int(s[1:]) % 6 if s[1:].isdigit() else 0

    def _run_real(conn, ops_data, edges):
        import networkx as nx
        import pennylane as qp
        ops = []
        for d in ops_data:
            nw, w0, w1 = d["nw"], lab_int(d["w0"]), lab_int(d["w1"])
            ops.append(qp.CNOT([w0, w1]) if (nw == 2 and w0 != w1) else qp.RX(0.3, wires=w0))
        g = nx.Graph([tuple(e) for e in edges])
        tape = qp.tape.QuantumScript(ops, [qp.expval(qp.Z(0))])
        try:
            batch, _fn = qp.transforms.transpile(tape, coupling_map=list(g.edges))
            conn.send(("ok", [tuple(op.wires) for op in batch[0].operations], sorted(g.edges)))
        except Exception as ex:  # pylint: disable=broad-except
            conn.send(("exc", type(ex).__name__, str(ex)[:300]))

    def call_real(mod, a):
        """the REAL transpile on a real circuit / coupling graph, in a child process that is killed after 25 s (a mutant that never removes
        an operation from the work list does not terminate: that is reported as a TimeoutError, i.e. a confirmed failing input)"""
        import multiprocessing
        multiprocessing.current_process()._config["daemon"] = False
        ctx = multiprocessing.get_context("fork")
        edges = a["coupling_graph"].get("edges") or [(k, k + 1) for k in range(5)]
        pc, cc = ctx.Pipe(duplex=False)
        p = ctx.Process(target=_run_real, args=(cc, a["list_op_copy"], edges))
        p.start()
        cc.close()
        got = pc.recv() if pc.poll(25) else None
        if got is None:
            p.kill()
            p.join(2)
            raise TimeoutError("transpile did not return within 25 s on a circuit of at most 6 operations")
        p.join(2)
        if got[0] == "exc":
            raise RuntimeError(f"{got[1]}: {got[2]}")
        a["_edges"] = set(got[2])
        return got[1]

    def native_ok(o, r, nw):
        edges = nw._edges
        return all(len(ws) < 2 or tuple(ws) in edges or tuple(reversed(ws)) in edges for ws in r)

    def gen_ops(rng):
        out = []
        for _ in range(rng.randint(0, 6)):
            a_, b_ = rng.sample(range(6), 2)
            out.append({"nw": rng.choice([1, 2, 2]), "w0": f"L{a_}", "w1": f"L{b_}", "ident": "L0"})
        return out

    def gen_graph(rng):
        nodes = list(range(6))
        rng.shuffle(nodes)
        edges = [(nodes[k], nodes[rng.randint(0, k - 1)]) for k in range(1, 6)]          # a random spanning tree ...
        for _ in range(rng.randint(0, 3)):
            edges.append(tuple(rng.sample(range(6), 2)))                                  # ... plus a few chords
        return {"edges": edges}

    w.stub_realize = {"Op": lambda f: dict(f), "MP": lambda f: dict(f), "Graph": lambda f: dict(f)}

    def ens(o, r, nw):
        if isinstance(o.coupling_graph, Rec):
            if not isinstance(r, (SeqV, PyList)):
                return False
            return OKG(seq_term(r))
        return native_ok(o, r, nw)

    frag = LoopFragment(w, "transpile", [
        Case("main-loop/every-two-wire-gate-on-an-edge",
             {"list_op_copy": T("build", lambda ctx, name: SeqV(z3.Const(ctx.fresh_name("ops"), SO), OP, False), gen=gen_ops),
              "gates": T("build", lambda ctx, name: PyList([]), gen=lambda rng: []),
              "coupling_graph": T("build", lambda ctx, name: Rec(w.classes["Graph"], {}), gen=gen_graph),
              "wire_order": T("build", lambda ctx, name: SeqV(z3.Const(ctx.fresh_name("wire_order"), PATHS), Label, False),
                              gen=lambda rng: [f"L{k}" for k in range(6)]),
              "measurements": T("build", lambda ctx, name: SeqV(z3.Const(ctx.fresh_name("meas"), z3.SeqSort(w.sort_of(RecT("MP")))), RecT("MP"), False),
                                gen=lambda rng: [])},
             requires=lambda a: OPSOK(a.list_op_copy.term) if isinstance(a.list_op_copy, SeqV) else True,
             ensures=ens, axioms=loop_post_axioms,
             loops={0: LoopSpec(outer_inv, types={"gates": SeqT(OP)}, axioms=outer_ax, decreases=lambda v: z3.Length(v.list_op_copy.term)),
                    1: LoopSpec(inner_inv, types={"gates": SeqT(OP), "wire_map": MapT(Label, Label)}, axioms=inner_ax)},
             native_call=call_real, max_paths=400)])
    for case in frag.cases:
        case.interp_cls = TranspileInterp
    for ob in obligations_for("C19", frag, tier):
        plan.add(ob)
    plan.fn_under_contract(TP, "transpile")
    plan.unverified = [
        "equality of the returned circuit with the input up to the final wire permutation (needs operator semantics of map_wires / SWAP)",
        "the preceding decompose to the rotation + CNOT gate set, the three early checks, measurement re-mapping (_process_measurements, "
        "m.map_wires), state_transposition and the device-wires variant",
        "that wire_map covers the wires of all remaining operations (KeyError freedom) and that all wires stay nodes of the graph",
        "shortest_path itself (assumed contract)",
    ]
    return plan
