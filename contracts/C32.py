"""C32 Result structure depends only on the request.

SPEC (written here from the property statement, independent of the code):

    SHAPE(n, copies, leaf)  =  one(None)                                   when copies is None   (no shot vector)
                               (one(0), ..., one(copies-1))                 otherwise             (OUTER tuple: one entry per shot copy)
    one(j)                  =  leaf(0, j)                                   when n == 1           (single measurement: unwrapped)
                               (leaf(0, j), ..., leaf(n-1, j))              otherwise             (tuple in measurement order)

`leaf(k, j)` is the result of measurement k for shot copy j: an UNINTERPRETED marker value, so position and order are checked, not
only lengths.  `copies` is None unless the Shots object has partitioned shots.  The helper `measure_with_samples` never unwraps:

    PACKED(n, copies, leaf) =  (leaf(0), ..., leaf(n-1))  /  ((leaf(0, j), ..., leaf(n-1, j)) for j < copies)

Code under contract (real ASTs read on every run): pennylane/devices/qubit/simulate.py  measure_final_state, simulate (non-MCM path),
simulate_tree_mcm (shot-vector split); pennylane/devices/qubit/sampling.py  measure_with_samples and the packing ends of its four
helpers; pennylane/workflow/interfaces/*.py, jacobian_products.py: the pure-python re-packing helpers.
"""
import contextlib
import itertools

import z3

from vf.common import Plan, Obligation, Outcome, DISCHARGED, REFUTED, UNDECIDED, FAULT
from vf.pyvc.engine import (World, T, Int, Bool, Label, LabelSort, NoneT, Rec, PyList, SeqV, SeqT, Model, Unsupp, RaiseExc, is_intlike,
                            to_int_term)
from vf.pyvc.contract import FnContract, Case, LoopSpec, obligations_for
from vf.pyvc import spec as S
from vf.pyvc.spec import And, Or, Not, Implies, If

SIM = "pennylane/devices/qubit/simulate.py"
SAM = "pennylane/devices/qubit/sampling.py"
SHO = "pennylane/core/shots.py"

# ---- marker values ---------------------------------------------------------------------------------------------------------------
# result of measuring `tag` on `state` (batched flag passed along) for shot copy j (-1: no shot vector)
RES = z3.Function("C32_sampled", LabelSort, LabelSort, z3.BoolSort(), z3.IntSort(), LabelSort)
MEAS = z3.Function("C32_measured", LabelSort, LabelSort, z3.BoolSort(), LabelSort)


class Marker:
    """native marker value: equal iff same key; deliberately NOT a tuple / sequence"""

    def __init__(self, *key):
        self.key = tuple(key)

    def __eq__(self, other):
        return isinstance(other, Marker) and self.key == other.key

    def __hash__(self):
        return hash(self.key)

    def __repr__(self):
        return "R" + repr(self.key)

    # arithmetic used by the summing helpers in a native run: stays a marker
    def __add__(self, other):
        return Marker("+", self, other)

    def __radd__(self, other):
        return Marker("+", other, self)

    def __rmul__(self, other):
        return Marker("*", other, self)


# ---- the specification --------------------------------------------------------------------------------------------------------------
def SHAPE(n, copies, leaf):
    def one(j):
        return leaf(0, j) if n == 1 else tuple(leaf(k, j) for k in range(n))
    return one(None) if copies is None else tuple(one(j) for j in range(copies))


def PACKED(n, copies, leaf):
    if copies is None:
        return tuple(leaf(k, None) for k in range(n))
    return tuple(tuple(leaf(k, j) for k in range(n)) for j in range(copies))


def nesting(x):
    """nesting of a result: tuple structure with leaves erased"""
    if isinstance(x, tuple):
        return tuple(nesting(y) for y in x)
    return "*"


def match(r, e):
    """r has exactly the structure and leaves of e (tuples are tuples, leaves equal); z3 formula or bool"""
    if isinstance(e, tuple):
        if not isinstance(r, tuple) or len(r) != len(e):
            return False
        parts = [match(a, b) for a, b in zip(r, e)]
        if any(p is False for p in parts):
            return False
        return And(True, *parts)
    if isinstance(r, (tuple, list, PyList, SeqV)):
        return False
    if isinstance(e, z3.ExprRef):
        if not isinstance(r, z3.ExprRef) or r.sort() != e.sort():
            return False
        return r == e
    return bool(r == e)


def copies_of(pattern):
    """number of shot copies of a shot-vector pattern (list of `copies` entries) or None when the shots are not partitioned"""
    if pattern is None or list(pattern) == [1]:
        return None
    return sum(pattern)


def jval(j):
    return z3.IntVal(-1 if j is None else j)


# ---- environment: Shots (REAL class, properties executed from its AST), measurement / circuit records (abstract inputs) ----------------
STUBS = {
    "QuantumScript": ("class QuantumScript:\n    pass\n", {"measurements": Int, "shots": Int}),
    "MeasurementProcess": ("class MeasurementProcess:\n    pass\n", {"tag": Label, "obs": Int}),
    "SampleMeasurement": ("class SampleMeasurement(MeasurementProcess):\n    pass\n", {"tag": Label, "obs": Int}),
    "ExpectationMP": ("class ExpectationMP(SampleMeasurement):\n    pass\n", {"tag": Label, "obs": Int}),
    "SampleMP": ("class SampleMP(SampleMeasurement):\n    pass\n", {"tag": Label, "obs": Int}),
    "ClassicalShadowMP": ("class ClassicalShadowMP(MeasurementProcess):\n    pass\n", {"tag": Label, "obs": Int}),
    "ShadowExpvalMP": ("class ShadowExpvalMP(MeasurementProcess):\n    pass\n", {"tag": Label, "obs": Int}),
    "Observable": ("class Observable:\n    pass\n", {}),
    "Sum": ("class Sum(Observable):\n    pass\n", {}),
    "LinearCombination": ("class LinearCombination(Sum):\n    pass\n", {}),
}
SHOT_CLASSES = {"Shots": (SHO, {"total_shots": Int, "shot_vector": Int, "_frozen": Bool}), "ShotCopies": (SHO, {"shots": Int, "copies": Int})}
KINDS = {"obs": ("ExpectationMP", "Observable"), "noobs": ("SampleMP", None), "ham": ("ExpectationMP", "LinearCombination"),
         "sum": ("ExpectationMP", "Sum"), "shadow": ("ClassicalShadowMP", None), "shadowexp": ("ShadowExpvalMP", None)}


def shots_iter(it, args, kw):
    """assumed contract of Shots.__iter__ (verified by C44): the shot quantity of every copy, in order"""
    (sh,) = args
    return PyList([sc.f["shots"] for sc in sh.f["shot_vector"] for _ in range(sc.f["copies"])])


def shots_bins(it, args, kw):
    """assumed contract of Shots.bins (verified by C44): consecutive [lower, upper) per copy"""
    (sh,) = args
    out, lo = [], 0
    for sc in sh.f["shot_vector"]:
        for _ in range(sc.f["copies"]):
            out.append((lo, lo + sc.f["shots"]))
            lo = lo + sc.f["shots"]
    return PyList(out)


def mk_shots(w, ctx, pattern, name="shots"):
    """pattern None: analytic; otherwise list of `copies` (concrete) with SYMBOLIC positive shot quantities, adjacent ones distinct"""
    SHc, SC = w.classes["Shots"], w.classes["ShotCopies"]
    if pattern is None:
        return Rec(SHc, {"total_shots": None, "shot_vector": (), "_frozen": True})
    qs = [z3.Int(ctx.fresh_name(f"{name}.quantity{i}")) for i in range(len(pattern))]
    for i, q in enumerate(qs):
        ctx.assume(q >= 1)
        if i:
            ctx.assume(q != qs[i - 1])
    total = sum(q * c for q, c in zip(qs, pattern))
    return Rec(SHc, {"total_shots": total, "shot_vector": tuple(Rec(SC, {"shots": q, "copies": c}) for q, c in zip(qs, pattern)), "_frozen": True})


def shots_T(w, pattern, name="shots"):
    return T("build", lambda ctx, nm: mk_shots(w, ctx, pattern, name),
             gen=lambda rng: {"shot_vector": [{"shots": 3 + 2 * i, "copies": c} for i, c in enumerate(pattern or [])]})


def real_shots(model_value, pattern):
    """real Shots object of the case's pattern; quantities from the counter-model when they are usable"""
    from pennylane.core.shots import Shots
    if pattern is None:
        return Shots(None)
    qs = []
    try:
        for sc in model_value["shot_vector"]:
            qs.append(int(sc["shots"]))
    except Exception:  # pylint: disable=broad-except
        qs = []
    if len(qs) != len(pattern) or any(q < 1 or q > 50 for q in qs) or any(a == b for a, b in zip(qs, qs[1:])):
        qs = [3 + 2 * i for i in range(len(pattern))]
    return Shots([(q, c) for q, c in zip(qs, pattern)])


def mk_mp(w, ctx, kind, name):
    cls, obs = KINDS[kind]
    return Rec(w.classes[cls], {"tag": z3.Const(ctx.fresh_name(name), LabelSort), "obs": None if obs is None else Rec(w.classes[obs], {})})


def real_mp(kind, k):
    import pennylane as qp
    if kind == "obs":
        return qp.expval(qp.Z(k))
    if kind == "noobs":
        return qp.sample(wires=[k])
    if kind == "ham":
        return qp.expval(qp.Hamiltonian([0.5, 2.0], [qp.X(k), qp.Z(k)]))
    if kind == "sum":
        return qp.expval(qp.X(k) + qp.Y(k))
    if kind == "shadow":
        return qp.classical_shadow(wires=[k])
    return qp.shadow_expval(qp.Z(k))


@contextlib.contextmanager
def patched(mod, **repl):
    saved = {k: getattr(mod, k) for k in repl}
    try:
        for k, v in repl.items():
            setattr(mod, k, v)
        yield
    finally:
        for k, v in saved.items():
            setattr(mod, k, v)


def native_post(post):
    """contract postcondition that also reads the verdict of a native replay (dict produced by the case's native_call)"""
    return lambda o, r, n: (r["ok"] if isinstance(r, dict) and r.get("native") else post(o, r, n))


def stable_sorted(it, args, kw):
    """sorted(xs, key=f) on a list of CONCRETE length: stable insertion sort, forking on symbolic key comparisons (python semantics:
    ascending by key, ties keep input order)"""
    if set(kw) - {"key", "reverse"} or (kw.get("reverse") not in (None, False)):
        raise Unsupp("sorted(..., reverse=...)")
    xs = it.iter_concrete(args[0])
    keyf = kw.get("key")
    out = []
    for x in xs:
        kx = it.call(keyf, [x], {}) if keyf is not None else x
        if not is_intlike(kx):
            raise Unsupp(f"sort key {kx!r} is not an integer")
        pos = len(out)
        for p, (ky, _) in enumerate(out):
            lt = (kx < ky) if isinstance(kx, int) and isinstance(ky, int) else (to_int_term(kx) < to_int_term(ky))
            if it.ctx.branch(lt):
                pos = p
                break
        out.insert(pos, (kx, x))
    return PyList([x for _, x in out])


def split_model(it, args, kw):
    """jax.random.split(key, num): `num` fresh keys (uninterpreted)"""
    num = kw.get("num", args[1] if len(args) > 1 else 2)
    return tuple(z3.Const(it.ctx.fresh_name("subkey"), LabelSort) for _ in range(num))


# =========================================================================================================================================
def build(tier, seed):
    plan = Plan("C32", level="other")
    # (pennylane is NOT imported here: the symbolic obligations do not need it; a worker imports it when it replays a counter-model)
    plan.explanation = ("The real bodies of measure_final_state / measure_with_samples / the packing ends of the sampling helpers / "
                        "simulate are executed symbolically with every per-measurement result an uninterpreted marker value "
                        "R(measurement, shot copy); the returned nested tuple is compared, position by position, with SHAPE / PACKED "
                        "written from the property statement. Shapes (numbers of measurements, groupings, shot copies) are enumerated, "
                        "values (markers, shot quantities, state, batched flag) stay symbolic. Counter-models are replayed on the real "
                        "functions with real QuantumScript / Shots objects and monkeypatched leaf functions returning marker objects.")
    plan.trusted_base = ["vf/pyvc encoder (Python subset semantics)", "z3 (QF_UFLIA)",
                         "contracts/C32.py: stable_sorted (model of sorted(xs, key=f): stable ascending insertion sort)"]
    plan.assumptions = ["per-measurement results are uninterpreted functions of (measurement, state, batched flag, shot copy): leaf values "
                        "carry no structure of their own (array shapes / broadcast axis inside a leaf are not modelled)",
                        "measurement processes and circuits are abstract records (class, tag, obs class); Shots is the REAL class with "
                        "concrete copies per entry and symbolic positive shot quantities (canonical form: adjacent quantities differ)"]
    plan.assumed_contracts = ["Shots.__iter__ / Shots.bins: one entry per shot copy in order (proved by C44)",
                              "jax.random.split(key, num): a tuple of num keys"]
    plan.dropped = ["docstrings, annotations, @debug_logger decorators (logging only)"]
    add_measure_final_state(plan, tier)
    # add_measure_final_state_symbolic(plan, tier)   -- NOT registered: the quantified VCs (z3 sequences) are not decided reliably under load
    add_measure_with_samples(plan, tier)
    add_simulate(plan, tier)
    add_sampling_helpers(plan, tier)
    add_interface_converters(plan, tier)
    add_jacobian_products(plan, tier)
    add_native_standin(plan, tier)
    plan.unverified += [
        "every number of measurements / shot copies beyond the enumerated shapes (all obligations are size-bounded; a symbolic-length "
        "version of measure_final_state exists in this file but its quantified VCs are not decided reliably, so it is not registered)",
        "_group_measurements itself (havocked to any grouping), get_final_state, the one-shot MCM path of simulate (dynamic_one_shot post-"
        "processing), the unpartitioned body of simulate_tree_mcm (tree traversal, combine_measurements, variance_transform)",
        "array shapes INSIDE a leaf (broadcast axis position, shot axis of samples): leaves are uninterpreted; only the bounded native "
        "stand-in looks at the leading broadcast axis",
        "workflow/execution.py, run.py, qnode.py: only through the bounded native stand-in (default.qubit); other devices (default.mixed, "
        "lightning, ...) not at all",
        "Jacobian nesting produced by the gradient transforms' post-processing (TransformJacobianProducts.compute_jacobian / "
        "execute_and_compute_jvp route through qp.gradients.*), DeviceDerivatives / DeviceJacobianProducts, autograd/jax/torch custom-vjp "
        "plumbing (pytreeify, jax pure_callback shape structs): only _zero_jvp / _compute_jvps / _compute_vjps and the result converters "
        "are under contract"]
    return plan


# =========================================================================================================================================
def sim_world(extra=None, functions=()):
    xb = {"default_rng": lambda it, a, k: (a[0] if a and a[0] is not None else z3.Const(it.ctx.fresh_name("rng"), LabelSort))}
    xb.update(extra or {})
    return World(SIM, classes=dict(SHOT_CLASSES), stubs=STUBS, functions=list(functions), extra_builtins=xb,
                 modular={"Shots.__iter__": shots_iter, "Shots.bins": shots_bins})


SHOT_PATTERNS_Q = [[1], [2], [1, 1], [1, 2], [3]]
SHOT_PATTERNS_T = [[1], [2], [1, 1], [3], [1, 2], [2, 1], [1, 1, 1]]


def add_measure_final_state(plan, tier):
    patterns = SHOT_PATTERNS_Q if tier != "thorough" else SHOT_PATTERNS_T
    plan.size_bounds.append(f"measure_final_state: 1-4 measurements x (analytic | shot-vector patterns {patterns} (copies per entry)) x 0-2 "
                            "trailing mid-circuit-measurement samples (only without a shot vector: the call sites pass mid_measurements with "
                            "shots=[1] circuits only); markers, state, batched flag, shot quantities symbolic")

    def measure_model(it, args, kw):
        mp, state = args
        return MEAS(mp.f["tag"], state, kw["is_state_batched"] if isinstance(kw["is_state_batched"], z3.ExprRef) else z3.BoolVal(kw["is_state_batched"]))

    def mws_callee(it, args, kw):
        """callee contract of measure_with_samples: PRE from its own contract (see add_measure_with_samples), POST = PACKED"""
        ctx = it.ctx
        g = ctx.ghost["mfs"]
        meas, state = args[0], args[1]
        ctx.prove(meas is g["circuit"].f["measurements"], "pre:measure_with_samples/measurements-are-the-circuit's")
        ctx.prove(kw.get("shots") is g["circuit"].f["shots"], "pre:measure_with_samples/shots-are-the-circuit's")
        ctx.prove(state == g["state"], "pre:measure_with_samples/state-unchanged")
        ctx.prove(kw.get("is_state_batched") == g["batched"], "pre:measure_with_samples/batched-flag-unchanged")
        ctx.prove(kw.get("mid_measurements") is g.get("mid"), "pre:measure_with_samples/mid-measurements-passed")
        return mws_spec_value([m.f["tag"] for m in meas.items], g.get("mid"), g["copies"], state, kw.get("is_state_batched"))

    w = sim_world({"measure": measure_model, "measure_with_samples": mws_callee})

    def circuit_T(n, pattern):
        def mk(ctx, nm):
            c = Rec(w.classes["QuantumScript"], {"measurements": PyList([mk_mp(w, ctx, "obs", f"mp{k}") for k in range(n)]),
                                                 "shots": mk_shots(w, ctx, pattern)})
            ctx.ghost.setdefault("mfs", {})["circuit"] = c
            ctx.ghost["mfs"]["copies"] = copies_of(pattern)
            return c
        return T("build", mk, gen=lambda rng: {"shots": {"shot_vector": [{"shots": 3 + 2 * i, "copies": c} for i, c in enumerate(pattern or [])]}})

    def ghosted(key, t):
        def mk(ctx, nm):
            from vf.pyvc.engine import fresh
            v = fresh(ctx, t, nm)
            ctx.ghost.setdefault("mfs", {})[key] = v
            return v
        return T("build", mk, gen=lambda rng: None)

    def mid_T(M):
        def mk(ctx, nm):
            v = None if M is None else {f"mcm{i}": z3.Const(ctx.fresh_name(f"mcm_samples{i}"), LabelSort) for i in range(M)}
            ctx.ghost.setdefault("mfs", {})["mid"] = v
            return v
        return T("build", mk, gen=lambda rng: None)

    def native(n, pattern, M, with_mid_key):
        def call(mod, a):
            import pennylane as qp
            circuit = qp.tape.QuantumScript([], [real_mp("obs", k) for k in range(n)], shots=real_shots((a.get("circuit") or {}).get("shots"), pattern))
            copies = copies_of(pattern)
            mid = None if M is None else {f"mcm{i}": Marker("mcm", i) for i in range(M)}
            batched = bool(a.get("is_state_batched"))

            def fake_measure(mp, state, is_state_batched=False, **kw):
                return Marker("M", [i for i, m in enumerate(circuit.measurements) if m is mp][0], state, is_state_batched)

            def fake_mws(measurements, state, shots=None, is_state_batched=False, rng=None, prng_key=None, mid_measurements=None):
                nm = len(measurements) - (len(mid_measurements) if mid_measurements else 0)

                def leaf(k, j):
                    return Marker("S", k, state, is_state_batched, j) if k < nm else list(mid_measurements.values())[k - nm]
                return PACKED(len(measurements), copies, leaf)
            kwargs = {"rng": None, "prng_key": None}
            if with_mid_key:
                kwargs["mid_measurements"] = mid
            try:
                with patched(mod, measure=fake_measure, measure_with_samples=fake_mws):
                    got = mod.measure_final_state(circuit, "STATE", batched, **kwargs)
            except TypeError as ex:
                ok = pattern is None and with_mid_key and mid is not None
                return {"native": True, "ok": ok, "observed": f"raised TypeError: {ex}"}
            if pattern is None:
                if with_mid_key and mid is not None:
                    return {"native": True, "ok": False, "observed": repr(got), "expected": "TypeError"}
                exp = SHAPE(n, None, lambda k, j: Marker("M", k, "STATE", batched))
            else:
                nm = n - (M or 0)
                exp = SHAPE(n, copies, lambda k, j: Marker("S", k, "STATE", batched, j) if k < nm else Marker("mcm", k - nm))
            return {"native": True, "ok": got == exp and nesting(got) == nesting(exp), "observed": repr(got), "expected": repr(exp)}
        return call

    def post(o, r, n_):
        c = o.circuit
        tags = [m.f["tag"] for m in c.f["measurements"].items]
        bt = o.is_state_batched
        if c.f["shots"].f["total_shots"] is None:
            return match(r, SHAPE(len(tags), None, lambda k, j: MEAS(tags[k], o.state, bt)))
        copies = copies_of([sc.f["copies"] for sc in c.f["shots"].f["shot_vector"]])
        mid = getattr(o, "mid", None) or {}
        nm = len(tags) - len(mid)
        vals = list(mid.values())
        return match(r, SHAPE(len(tags), copies, lambda k, j: RES(tags[k], o.state, bt, jval(j)) if k < nm else vals[k - nm]))

    cases = []
    for n in (1, 2, 3, 4):
        base = lambda pattern, n=n: {"circuit": circuit_T(n, pattern), "state": ghosted("state", Label), "is_state_batched": ghosted("batched", Bool),
                                     "rng": NoneT, "prng_key": NoneT}
        km = {"rng": "rng", "prng_key": "prng_key"}
        cases.append(Case(f"analytic/{n}-measurements", dict(base(None)), ensures=native_post(post), kwargs_map=km, size_bounded=True,
                          native_call=native(n, None, None, False), native_raw=True))
        if n <= 2:
            for M in (0, 1):
                cases.append(Case(f"analytic/{n}-measurements/mid_measurements-given[{M}]:TypeError", dict(base(None), mid=mid_T(M)),
                                  ensures=native_post(lambda o, r, n_: False), raises={"TypeError": lambda o: True},
                                  kwargs_map=dict(km, mid_measurements="mid"), size_bounded=True, native_call=native(n, None, M, True), native_raw=True))
        for pattern in patterns:
            tag = "x".join(map(str, pattern))
            cases.append(Case(f"shots[{tag}]/{n}-measurements", dict(base(pattern), mid=mid_T(None)), ensures=native_post(post),
                              kwargs_map=dict(km, mid_measurements="mid"), size_bounded=True, native_call=native(n, pattern, None, True), native_raw=True))
        for M in (0, 1, 2):
            if M <= n:
                cases.append(Case(f"shots[1]/{n}-measurements/{M}-of-them-mcm-samples", dict(base([1]), mid=mid_T(M)), ensures=native_post(post),
                                  kwargs_map=dict(km, mid_measurements="mid"), size_bounded=True, native_call=native(n, [1], M, True), native_raw=True))
    fc = FnContract(w, "measure_final_state", cases)
    for ob in obligations_for("C32", fc, tier):
        plan.add(ob)
    plan.fn_under_contract(SIM, "measure_final_state")
    plan.assumed_contracts.append("measure(mp, state, is_state_batched): uninterpreted function of its three arguments (analytic leaf); "
                                  "numpy default_rng(rng): opaque")


def mws_spec_value(tags, mid, copies, state, batched):
    """PACKED for measure_with_samples: `tags` of ALL entries of `measurements`; the last len(mid) are the mid-circuit samples"""
    mid = mid or {}
    nm = len(tags) - len(mid)
    vals = list(mid.values())
    bt = batched if isinstance(batched, z3.ExprRef) else z3.BoolVal(bool(batched))
    return PACKED(len(tags), copies, lambda k, j: RES(tags[k], state, bt, jval(j)) if k < nm else vals[k - nm])


# =========================================================================================================================================
def groupings(n):
    """every ordered partition of range(n) into ordered groups: (groups as lists of indices)"""
    out = []
    for perm in itertools.permutations(range(n)):
        for cuts in itertools.product([0, 1], repeat=n - 1):
            groups, cur = [], [perm[0]]
            for i, c in enumerate(cuts):
                if c:
                    groups.append(cur)
                    cur = []
                cur.append(perm[i + 1])
            groups.append(cur)
            out.append(groups)
    return out


def add_measure_with_samples(plan, tier):
    quick = tier != "thorough"
    specials = ["ham", "sum", "shadow", "shadowexp"]

    def helper(name, allowed, singleton, as_list):
        def callee(it, args, kw):
            ctx = it.ctx
            g = ctx.ghost["mws"]
            group, state, shots = args[0], args[1], args[2]
            members = list(group.items) if isinstance(group, PyList) else list(group)
            if singleton:
                ctx.prove(len(members) == 1, f"pre:{name}/group-is-a-single-measurement")
            ctx.prove(all(isinstance(m, Rec) and g["kind_of"].get(id(m.origin)) in allowed for m in members),
                      f"pre:{name}/measurement-kinds-{'|'.join(allowed)}")
            ctx.prove(shots is g["shots"], f"pre:{name}/shots-passed-unchanged")
            ctx.prove(state == g["state"], f"pre:{name}/state-unchanged")
            ctx.prove(kw.get("is_state_batched") == g["batched"], f"pre:{name}/batched-flag-unchanged")
            bt = g["batched"]
            copies = g["copies"]

            def entry(m):
                if copies is None:
                    return RES(m.f["tag"], state, bt, jval(None))
                return tuple(RES(m.f["tag"], state, bt, jval(j)) for j in range(copies))
            vals = [entry(m) for m in members]
            return PyList(vals) if as_list else tuple(vals)
        return callee

    def mk_world(groups):
        def group_model(it, args, kw):
            """havoc of _group_measurements: the enumerated grouping of exactly the given measurements"""
            ctx = it.ctx
            g = ctx.ghost["mws"]
            (mps,) = args
            items = list(mps.items) if isinstance(mps, PyList) else list(mps)
            ctx.prove(len(items) == len(g["mps"]) and all(a is b for a, b in zip(items, g["mps"])), "pre:_group_measurements/the-non-mcm-measurements")
            return (PyList([PyList([g["mps"][i] for i in grp]) for grp in groups]), PyList([PyList(list(grp)) for grp in groups]))
        xb = {"_group_measurements": group_model, "sorted": stable_sorted, "split": split_model,
              "_measure_with_samples_diagonalizing_gates": helper("_measure_with_samples_diagonalizing_gates", ("obs", "noobs"), False, False),
              "_measure_hamiltonian_with_samples": helper("_measure_hamiltonian_with_samples", ("ham",), True, True),
              "_measure_sum_with_samples": helper("_measure_sum_with_samples", ("sum", "ham"), True, True),
              "_measure_classical_shadow": helper("_measure_classical_shadow", ("shadow", "shadowexp"), True, True)}
        return World(SAM, classes=dict(SHOT_CLASSES), stubs=STUBS, functions=["jax_random_split"], extra_builtins=xb,
                     modular={"Shots.__iter__": shots_iter, "Shots.bins": shots_bins})

    def mk_case(groups, kinds, pattern, M, key_given):
        n = len(kinds)
        w = mk_world(groups)
        copies = copies_of(pattern)

        def meas_T():
            def mk(ctx, nm):
                mps = [mk_mp(w, ctx, kinds[k], f"mp{k}") for k in range(n)]
                mcm = [mk_mp(w, ctx, "noobs", f"mcm_mp{i}") for i in range(M or 0)]
                g = ctx.ghost.setdefault("mws", {})
                g["mps"], g["kind_of"], g["copies"] = mps, {id(m): kinds[k] for k, m in enumerate(mps)}, copies
                return PyList(mps + mcm)
            return T("build", mk, gen=lambda rng: None)

        def ghosted(key, t):
            def mk(ctx, nm):
                from vf.pyvc.engine import fresh
                v = fresh(ctx, t, nm)
                ctx.ghost.setdefault("mws", {})[key] = v
                return v
            return T("build", mk, gen=lambda rng: ({"shot_vector": [{"shots": 3 + 2 * i, "copies": c} for i, c in enumerate(pattern)]} if key == "shots" else None))

        def mid_T():
            return T("build", lambda ctx, nm: None if M is None else {f"mcm{i}": z3.Const(ctx.fresh_name(f"mcm_samples{i}"), LabelSort) for i in range(M)},
                     gen=lambda rng: None)

        def post(o, r, n_):
            tags = [m.f["tag"] for m in o.measurements.items]
            return match(r, mws_spec_value(tags, o.mid_measurements, copies, o.state, o.is_state_batched))

        def native(mod, a):
            shots = real_shots(a.get("shots"), pattern)
            mps = [real_mp(kinds[k], k) for k in range(n)]
            mcm = [real_mp("noobs", n + i) for i in range(M or 0)]
            mid = None if M is None else {f"mcm{i}": Marker("mcm", i) for i in range(M)}
            batched = bool(a.get("is_state_batched"))
            log = []

            def fake_group(given):
                log.append(("grouped", [([i for i, m in enumerate(mps) if m is x] or ["?"])[0] for x in given]))
                return [[mps[i] for i in grp] for grp in groups], [list(grp) for grp in groups]

            def fake_helper(name, as_list):
                def f(group, state, shots_, is_state_batched=False, rng=None, prng_key=None):
                    idx = [[i for i, m in enumerate(mps) if m is x][0] for x in group]
                    log.append((name, idx))
                    vals = [Marker("S", i, state, is_state_batched, None) if copies is None else
                            tuple(Marker("S", i, state, is_state_batched, j) for j in range(copies)) for i in idx]
                    return vals if as_list else tuple(vals)
                return f
            with patched(mod, _group_measurements=fake_group,
                         _measure_with_samples_diagonalizing_gates=fake_helper("diagonalizing_gates", False),
                         _measure_hamiltonian_with_samples=fake_helper("hamiltonian", True),
                         _measure_sum_with_samples=fake_helper("sum", True), _measure_classical_shadow=fake_helper("shadow", True)):
                kwargs = {"is_state_batched": batched, "rng": None, "prng_key": None}
                if key_given:
                    kwargs["mid_measurements"] = mid
                got = mod.measure_with_samples(mps + mcm, "STATE", shots, **kwargs)
            exp = PACKED(n + (M or 0), copies, lambda k, j: Marker("S", k, "STATE", batched, j) if k < n else Marker("mcm", k - n))
            return {"native": True, "ok": got == exp and nesting(got) == nesting(exp), "observed": repr(got), "expected": repr(exp), "calls": repr(log)}
        label = (f"{n}-measurements/groups{groups}/kinds[{','.join(kinds)}]/shots[{'x'.join(map(str, pattern))}]"
                 + (f"/{M}-mcm-samples" if M is not None else "")).replace(" ", "")
        params = {"measurements": meas_T(), "state": ghosted("state", Label), "shots": T("build", lambda ctx, nm: _shots_ghost(w, ctx, pattern),
                                                                                            gen=lambda rng: {"shot_vector": [{"shots": 3 + 2 * i, "copies": c} for i, c in enumerate(pattern)]}),
                  "is_state_batched": ghosted("batched", Bool), "rng": NoneT, "prng_key": T("build", lambda ctx, nm: (z3.Const(ctx.fresh_name("prng_key"), LabelSort) if key_given else None), gen=lambda rng: None),
                  "mid_measurements": mid_T()}
        case = Case(label, params, ensures=native_post(post), size_bounded=True, native_call=native, native_raw=True)
        return FnContract(w, "measure_with_samples", [case])

    def _shots_ghost(w, ctx, pattern):
        sh = mk_shots(w, ctx, pattern)
        ctx.ghost.setdefault("mws", {})["shots"] = sh
        return sh

    # ---- enumeration --------------------------------------------------------------------------------------------------------------------
    pats_part = [[2], [1, 2]] if quick else [[2], [1, 1], [3], [1, 2], [2, 1], [1, 1, 1]]
    shapes = []
    count = 0
    for n in (1, 2, 3, 4):
        gs = groupings(n)
        if n == 4:
            gs = [g for i, g in enumerate(gs) if i % (16 if quick else 4) == 5 % (16 if quick else 4)] + [[[0, 1, 2, 3]], [[3], [2], [1], [0]], [[2, 0], [3, 1]]]
        for gi, groups in enumerate(gs):
            singles = [grp[0] for grp in groups if len(grp) == 1]
            kind_sets = [["obs" if (k + gi) % 2 == 0 else "noobs" for k in range(n)]]
            if singles:
                ks = list(kind_sets[0])
                for si, k in enumerate(singles):
                    ks[k] = specials[(si + gi) % 4]
                kind_sets.append(ks)
            for ki, kinds in enumerate(kind_sets):
                count += 1
                pats = [[1]] + ([pats_part[count % len(pats_part)]] if quick else pats_part)
                for pattern in pats:
                    shapes.append((groups, kinds, pattern, None, count % 2 == 0))
                if ki == 0 and (not quick or gi % 3 == 0):
                    for M in (0, 1, 2):
                        shapes.append((groups, kinds, [1], M, True))
    plan.size_bounds.append(f"measure_with_samples: {len(shapes)} shapes = 1-3 measurements x EVERY ordered partition into ordered groups "
                            "(4 measurements: a sample of them) x measurement kinds (pauli observable / no observable in any group; "
                            "Hamiltonian / Sum / classical-shadow / shadow-expval as single-measurement groups) x shot-vector patterns "
                            f"[1] and {pats_part} x 0-2 trailing mid-circuit samples (without a shot vector); markers, shot quantities, state, "
                            "batched flag, prng key symbolic")
    for groups, kinds, pattern, M, key_given in shapes:
        fc = mk_case(groups, kinds, pattern, M, key_given)
        for ob in obligations_for("C32", fc, tier):
            plan.add(ob)
    plan.fn_under_contract(SAM, "measure_with_samples")
    plan.assumed_contracts += [
        "_group_measurements(mps): havocked to the enumerated grouping -- ANY ordered partition of the measurement indices, `indices` "
        "consistent with `groups`, Hamiltonian / Sum / shadow measurements alone in their group (its docstring)",
        "the four measure_fn helpers inside measure_with_samples: uninterpreted, one entry per group member (a tuple with one entry per "
        "shot copy when the shots are partitioned) -- their packing ends are proved separately below; their preconditions (single-"
        "measurement group of the right kind, same shots / state / batched flag) are PROVED at the call site"]
    plan.assumptions.append("mid_measurements together with a shot vector is not a reachable request (simulate_one_shot_native_mcm runs "
                            "shots=[1] circuits; simulate_tree_mcm splits the shot vector first): excluded from the measure_with_samples cases")


# =========================================================================================================================================
# interface layer: pure structural recursion over result batches
AUTOGRAD = "pennylane/workflow/interfaces/autograd.py"
JAX = "pennylane/workflow/interfaces/jax.py"
JAXJIT = "pennylane/workflow/interfaces/jax_jit.py"
TORCH = "pennylane/workflow/interfaces/torch.py"
JPC = "pennylane/workflow/jacobian_products.py"
CONV = z3.Function("C32_converted_leaf", LabelSort, LabelSort)
IS_JAX = z3.Function("C32_leaf_is_already_jax", LabelSort, z3.BoolSort())


def batch_family(quick):
    """result batches: tuple over circuits of SHAPE(n, copies); (n, copies) per circuit"""
    singles = [((n, c),) for n in (1, 2, 3) for c in (None, 2, 3)]
    pairs = [((1, None), (2, 2)), ((3, 3), (1, 2)), ((2, None), (2, None)), ((1, None), (1, None)), ((3, None), (1, 3))]
    fam = singles + pairs + [((1, None), (2, None), (1, 2))]
    return fam if not quick else [f for i, f in enumerate(fam) if i % 2 == 0 or len(f) > 1]


def build_batch(shape, leaf, containers="tuple"):
    """nested value of a batch shape; containers: 'tuple' | 'list' (every level a list) | 'mixed' (batch level list, rest tuples)"""
    def conv(x, depth):
        if isinstance(x, tuple):
            items = [conv(y, depth + 1) for y in x]
            as_list = containers == "list" or (containers == "mixed" and depth == 0)
            return list(items) if as_list else tuple(items)
        return x
    return conv(tuple(SHAPE(n, c, lambda k, j, t=t: leaf(t, k, j)) for t, (n, c) in enumerate(shape)), 0)


def to_sym(x):
    """python nested lists -> PyList (symbolic side)"""
    if isinstance(x, list):
        return PyList([to_sym(y) for y in x])
    if isinstance(x, tuple):
        return tuple(to_sym(y) for y in x)
    return x


def map_leaves(x, f, keep_lists=False):
    if isinstance(x, (tuple, list)):
        items = [map_leaves(y, f, keep_lists) for y in x]
        return list(items) if (keep_lists and isinstance(x, list)) else tuple(items)
    return f(x)


def match_c(r, e):
    """like match, with python lists in the expectation standing for list-typed results"""
    if isinstance(e, list):
        items = r.items if isinstance(r, PyList) else (r if isinstance(r, list) else None)
        if items is None or len(items) != len(e):
            return False
        parts = [match_c(a, b) for a, b in zip(items, e)]
        return False if any(p is False for p in parts) else And(True, *parts)
    if isinstance(e, tuple):
        if not isinstance(r, tuple) or len(r) != len(e):
            return False
        parts = [match_c(a, b) for a, b in zip(r, e)]
        return False if any(p is False for p in parts) else And(True, *parts)
    return match(r, e)


class FakeNS:
    def __init__(self, **kw):
        self.__dict__.update(kw)


def add_interface_converters(plan, tier):
    quick = tier != "thorough"
    fam = batch_family(quick)
    plan.size_bounds.append(f"interface converters (_to_autograd, _to_jax x2, _res_to_torch): {len(fam)} result-batch nestings (1-3 circuits, each "
                            "SHAPE(1-3 measurements, no / 2 / 3 shot copies)) x container types (tuples; lists at every level; list batch of "
                            "tuples) + a counts-dictionary leaf; leaves symbolic")

    def leaf_conv_sym(kind):
        if kind == "jax":
            return lambda x: z3.If(IS_JAX(x), x, CONV(x))
        return lambda x: CONV(x)

    def get_interface(it, args, kw):
        (x,) = args
        return "jax" if it.ctx.branch(IS_JAX(x)) else "numpy"

    def conv_model(it, args, kw):
        return CONV(args[0])

    def type_model(it, args, kw):
        v = args[0]
        from vf.pyvc.engine import FuncRef
        if isinstance(v, tuple):
            return FuncRef("type", "tuple")
        if isinstance(v, PyList):
            return FuncRef("type", "list")
        if isinstance(v, Rec):
            return FuncRef("class", v.cls.name, v.cls)
        raise Unsupp(f"type() of {v!r}")

    specs = [  # (file, function, leaf kind, keeps list type, extra builtins, native patch)
        (AUTOGRAD, "_to_autograd", "plain", False, {"autograd.numpy.array": conv_model},
         lambda mod: dict(autograd=FakeNS(builtins=mod.autograd.builtins, numpy=FakeNS(array=lambda x: Marker("conv", x))))),
        (JAX, "_to_jax", "jax", False, {"jnp.array": conv_model, "qp.math.get_interface": get_interface},
         lambda mod: dict(jnp=FakeNS(array=lambda x: Marker("conv", x)),
                          qp=FakeNS(math=FakeNS(get_interface=lambda x: "jax" if (isinstance(x, Marker) and x.key[-1] == "jax") else "numpy")))),
        (JAXJIT, "_to_jax", "plain", False, {"jnp.array": conv_model}, lambda mod: dict(jnp=FakeNS(array=lambda x: Marker("conv", x)))),
        (TORCH, "_res_to_torch", "plain", True, {"torch.as_tensor": conv_model, "type": type_model},
         lambda mod: dict(torch=FakeNS(as_tensor=lambda x, device=None: Marker("conv", x)))),
    ]
    for file, fname, kind, keeps, xb, patch in specs:
        w = World(file, functions=[fname], extra_builtins=dict(xb), stubs={"TorchCtx": ("class TorchCtx:\n    pass\n", {"torch_device": Label})})
        cases = []
        for shape in fam:
            for cont in (("tuple", "list", "mixed") if len(shape) > 1 or shape[0][0] > 1 else ("tuple", "list")):
                if quick and cont == "mixed" and len(shape) == 1:
                    continue

                def mk(ctx, nm, shape=shape, cont=cont):
                    return to_sym(build_batch(shape, lambda t, k, j: z3.Const(ctx.fresh_name(f"res_c{t}_m{k}_s{j}"), LabelSort), cont))

                def post(o, r, n_, kind=kind, keeps=keeps):
                    def unsym(x):
                        if isinstance(x, PyList):
                            return [unsym(y) for y in x.items]
                        if isinstance(x, tuple):
                            return tuple(unsym(y) for y in x)
                        return x
                    inp = unsym(o.result if hasattr(o, "result") else o.r)
                    return match_c(r, map_leaves(inp, leaf_conv_sym(kind), keeps))

                def native(mod, a, shape=shape, cont=cont, kind=kind, keeps=keeps, patch=patch, fname=fname):
                    inp = build_batch(shape, lambda t, k, j: Marker("res", t, k, j, "jax" if (kind == "jax" and (t + k) % 2 == 0) else "np"), cont)
                    with patched(mod, **patch(mod)):
                        got = getattr(mod, fname)(inp) if fname != "_res_to_torch" else mod._res_to_torch(inp, FakeNS(torch_device=None))   # pylint: disable=protected-access
                    lf = (lambda x: x if (kind == "jax" and x.key[-1] == "jax") else Marker("conv", x))
                    exp = map_leaves(inp, lf, keeps)
                    return {"native": True, "ok": got == exp and type_nesting(got) == type_nesting(exp), "observed": repr(got), "expected": repr(exp)}
                label = "batch[" + ";".join(f"{n}m{'' if c is None else f'x{c}copies'}" for n, c in shape) + f"]/{cont}-containers"
                params = {("result" if fname != "_res_to_torch" else "r"): T("build", mk, gen=lambda rng: None)}
                if fname == "_res_to_torch":
                    params["ctx"] = T("build", lambda ctx, nm: Rec(w.classes["TorchCtx"], {"torch_device": z3.Const(ctx.fresh_name("device"), LabelSort)}), gen=lambda rng: None)
                cases.append(Case(label, params, ensures=native_post(post), size_bounded=True, native_call=native, native_raw=True, max_paths=3000))
        # a counts dictionary is a leaf and passes through untouched
        if fname != "_to_jax" or file == JAX:
            pname = "result" if fname != "_res_to_torch" else "r"

            def mk_d(ctx, nm):
                d = {"00": z3.Int(ctx.fresh_name("count00")), "11": z3.Int(ctx.fresh_name("count11"))}
                ctx.ghost["the_dict"] = d
                return (d, z3.Const(ctx.fresh_name("res"), LabelSort))

            def post_d(o, r, n_, kind=kind, pname=pname):
                inp = getattr(o, pname)
                return And(isinstance(r, tuple) and len(r) == 2 and isinstance(r[0], dict) and set(r[0]) == set(inp[0]),
                           *[r[0][k] == v for k, v in inp[0].items()], match(r[1], leaf_conv_sym(kind)(inp[1])))

            def native_d(mod, a, kind=kind, patch=patch, fname=fname):
                inp = ({"00": 3, "11": 7}, Marker("res", 0, 1, None, "np"))
                with patched(mod, **patch(mod)):
                    got = getattr(mod, fname)(inp) if fname != "_res_to_torch" else mod._res_to_torch(inp, FakeNS(torch_device=None))   # pylint: disable=protected-access
                return {"native": True, "ok": got == ({"00": 3, "11": 7}, Marker("conv", inp[1])) and isinstance(got, tuple), "observed": repr(got)}
            params = {pname: T("build", mk_d, gen=lambda rng: None)}
            if fname == "_res_to_torch":
                params["ctx"] = T("build", lambda ctx, nm: Rec(w.classes["TorchCtx"], {"torch_device": z3.Const(ctx.fresh_name("device"), LabelSort)}), gen=lambda rng: None)
            cases.append(Case("counts-dictionary-leaf-untouched", params, ensures=native_post(post_d), size_bounded=True, native_call=native_d, native_raw=True))
        fc = FnContract(w, fname, cases)
        for ob in obligations_for("C32", fc, tier):
            plan.add(ob)
        plan.fn_under_contract(file, fname)
    plan.assumed_contracts.append("leaf conversions autograd.numpy.array / jnp.array / torch.as_tensor: uninterpreted functions of the leaf; "
                                  "qp.math.get_interface(leaf) == 'jax': uninterpreted predicate of the leaf")


def type_nesting(x):
    if isinstance(x, (tuple, list)):
        return (type(x).__name__,) + tuple(type_nesting(y) for y in x)
    return "*"


# =========================================================================================================================================
# jacobian_products.py: the pure-python assembling of jvps / vjps (shot-vector axis outermost, single measurement unwrapped)
MP_SHAPE = z3.Function("C32_mp_shape", LabelSort, z3.IntSort(), LabelSort)            # mp.shape(shots=s); s = -1 for None
ZEROS = z3.Function("C32_np_zeros", LabelSort, LabelSort, LabelSort)                   # np.zeros(shape, dtype=...)
JVP_F = {True: z3.Function("C32_compute_jvp_multi", LabelSort, LabelSort, LabelSort), False: z3.Function("C32_compute_jvp_single", LabelSort, LabelSort, LabelSort)}
VJP_F = {True: z3.Function("C32_compute_vjp_multi", LabelSort, LabelSort, LabelSort), False: z3.Function("C32_compute_vjp_single", LabelSort, LabelSort, LabelSort)}

JPC_STUBS = {
    "QuantumScript": ("class QuantumScript:\n    pass\n", {"measurements": Int, "shots": Int, "trainable_params": Int}),
    "MeasurementProcess": ("class MeasurementProcess:\n    def shape(self, shots=None, num_device_wires=0):\n        return mp_shape_model(self, shots)\n",
                           {"tag": Label, "numeric_type": Label}),
}


class StackM(Model):
    def __init__(self, items):
        self.items = list(items)


def add_jacobian_products(plan, tier):
    quick = tier != "thorough"

    def sum_fn(c):
        return z3.Function(f"C32_sum_of_stack_{c}", *([LabelSort] * (c + 1)))

    def shots_int(s):
        return z3.IntVal(-1) if s is None else to_int_term(s)
    xb = {"mp_shape_model": lambda it, a, k: MP_SHAPE(a[0].f["tag"], shots_int(a[1])),
          "np.zeros": lambda it, a, k: ZEROS(a[0], k.get("dtype")),
          "qp.gradients.compute_jvp_multi": lambda it, a, k: JVP_F[True](a[0], a[1]),
          "qp.gradients.compute_jvp_single": lambda it, a, k: JVP_F[False](a[0], a[1]),
          "qp.gradients.compute_vjp_multi": lambda it, a, k: VJP_F[True](a[0], a[1]),
          "qp.gradients.compute_vjp_single": lambda it, a, k: VJP_F[False](a[0], a[1]),
          "qp.math.stack": lambda it, a, k: StackM(it.iter_concrete(a[0])),
          "qp.math.sum": lambda it, a, k: _sum_stack(a, k, sum_fn)}
    w = World(JPC, classes=dict(SHOT_CLASSES), stubs=JPC_STUBS, functions=["_zero_jvp_single_shots", "_zero_jvp", "_compute_jvps", "_compute_vjps"],
              extra_builtins=xb, modular={"Shots.__iter__": shots_iter, "Shots.bins": shots_bins})
    MPc, QS = w.classes["MeasurementProcess"], w.classes["QuantumScript"]

    def mk_tape(ctx, n, pattern, trainable, name):
        mps = [Rec(MPc, {"tag": z3.Const(ctx.fresh_name(f"{name}.mp{k}"), LabelSort), "numeric_type": z3.Const(ctx.fresh_name(f"{name}.dtype{k}"), LabelSort)})
               for k in range(n)]
        return Rec(QS, {"measurements": PyList(mps), "shots": mk_shots(w, ctx, pattern, f"{name}.shots"), "trainable_params": PyList(list(range(trainable)))})

    def quantities(tape):
        return [sc.f["shots"] for sc in tape.f["shots"].f["shot_vector"] for _ in range(sc.f["copies"])]

    def zero_expected(tape, pattern):
        mps = tape.f["measurements"].items
        copies = copies_of(pattern)
        qs = quantities(tape)
        tot = tape.f["shots"].f["total_shots"]
        return SHAPE(len(mps), copies, lambda k, j: ZEROS(MP_SHAPE(mps[k].f["tag"], shots_int(tot if j is None else qs[j])), mps[k].f["numeric_type"]))

    def real_tape(n, pattern, trainable, shots_model=None):
        import pennylane as qp
        ms = [qp.probs(wires=list(range(k + 1))) for k in range(n)] if pattern is None else [qp.sample(wires=list(range(k + 1))) for k in range(n)]
        return qp.tape.QuantumScript([qp.RX(0.5, 0)], ms, shots=real_shots(shots_model, pattern), trainable_params=list(range(trainable)))

    def native_zero_expected(tape, pattern):
        copies = copies_of(pattern)
        qs = list(tape.shots)
        return SHAPE(len(tape.measurements), copies,
                     lambda k, j: Marker("zeros", tuple(tape.measurements[k].shape(shots=tape.shots.total_shots if j is None else qs[j]))))

    fake_np = FakeNS(zeros=lambda shape, dtype=None: Marker("zeros", tuple(shape)))
    patterns = [None, [1], [2], [1, 2]] if quick else [None, [1], [2], [1, 1], [3], [1, 2], [1, 1, 1]]
    plan.size_bounds.append(f"_zero_jvp: 1-3 measurements x shots {patterns}; _compute_jvps / _compute_vjps: batches of 1-2 circuits, each "
                            "(1-2 measurements, no / 2 / 3 shot copies, 0 or 1 trainable parameters); jacobians, tangents, cotangents symbolic")

    # ---- _zero_jvp -------------------------------------------------------------------------------------------------------------------------
    cases = []
    for n in (1, 2, 3):
        for pattern in patterns:
            def native(mod, a, n=n, pattern=pattern):
                tape = real_tape(n, pattern, 0, (a.get("tape") or {}).get("shots") if isinstance(a.get("tape"), dict) else None)
                with patched(mod, np=fake_np):
                    got = mod._zero_jvp(tape)        # pylint: disable=protected-access
                exp = native_zero_expected(tape, pattern)
                return {"native": True, "ok": got == exp and nesting(got) == nesting(exp), "observed": repr(got), "expected": repr(exp)}
            cases.append(Case(f"{n}-measurements/shots[{'analytic' if pattern is None else 'x'.join(map(str, pattern))}]",
                              {"tape": T("build", lambda ctx, nm, n=n, pattern=pattern: mk_tape(ctx, n, pattern, 0, "tape"), gen=lambda rng: None)},
                              ensures=native_post(lambda o, r, n_, pattern=pattern: match(r, zero_expected(o.tape, pattern))), size_bounded=True,
                              native_call=native, native_raw=True))
    fc = FnContract(w, "_zero_jvp", cases)
    for ob in obligations_for("C32", fc, tier):
        plan.add(ob)

    # ---- _compute_jvps / _compute_vjps ------------------------------------------------------------------------------------------------------
    tape_kinds = [(1, None, 1), (2, None, 1), (1, [2], 1), (2, [1, 2], 1), (2, [2], 0), (1, None, 0), (1, [1], 1), (2, [1], 0)]
    batches = [(k,) for k in tape_kinds] + [(tape_kinds[0], tape_kinds[3]), (tape_kinds[2], tape_kinds[1]), (tape_kinds[4], tape_kinds[3]), (tape_kinds[6], tape_kinds[5])]
    jcases, vcases = [], []
    for batch in batches:
        label = "batch[" + ";".join(f"{n}m/{'no-vector' if copies_of(p) is None else str(copies_of(p)) + 'copies'}{'' if p is None or copies_of(p) is not None else ''}"
                                    f"/{tr}trainable{'/analytic' if p is None else ''}" for n, p, tr in batch) + "]"

        def mk_jac(ctx, nm, batch=batch):
            out = []
            for t, (n, p, tr) in enumerate(batch):
                c = copies_of(p)
                out.append(z3.Const(ctx.fresh_name(f"{nm}{t}"), LabelSort) if c is None else tuple(z3.Const(ctx.fresh_name(f"{nm}{t}_copy{j}"), LabelSort) for j in range(c)))
            return tuple(out)

        def mk_flat(ctx, nm, batch=batch):
            return tuple(z3.Const(ctx.fresh_name(f"{nm}{t}"), LabelSort) for t in range(len(batch)))

        def mk_tapes(ctx, nm, batch=batch):
            return tuple(mk_tape(ctx, n, p, tr, f"tape{t}") for t, (n, p, tr) in enumerate(batch))

        def jvp_post(o, r, n_, batch=batch):
            exp = []
            for t, (n, p, tr) in enumerate(batch):
                c = copies_of(p)
                if tr == 0:
                    exp.append(zero_expected(o.tapes[t], p))
                elif c is None:
                    exp.append(JVP_F[n > 1](o.tangents[t], o.jacs[t]))
                else:
                    exp.append(tuple(JVP_F[n > 1](o.tangents[t], o.jacs[t][j]) for j in range(c)))
            return match(r, tuple(exp))

        def vjp_post(o, r, n_, batch=batch):
            exp = []
            for t, (n, p, tr) in enumerate(batch):
                c = copies_of(p)
                if c is None:
                    exp.append(VJP_F[n > 1](o.dys[t], o.jacs[t]))
                else:
                    exp.append(sum_fn(c)(*[VJP_F[n > 1](o.dys[t][j], o.jacs[t][j]) for j in range(c)]))
            return match(r, tuple(exp))

        def native_jv(which, batch=batch):
            def call(mod, a):
                tapes = tuple(real_tape(n, p, tr) for n, p, tr in batch)
                jacs = tuple(Marker("jac", t) if copies_of(p) is None else tuple(Marker("jac", t, j) for j in range(copies_of(p))) for t, (n, p, tr) in enumerate(batch))
                fake_qp = FakeNS(gradients=FakeNS(compute_jvp_multi=lambda dx, j: Marker("jvp_multi", dx, j), compute_jvp_single=lambda dx, j: Marker("jvp_single", dx, j),
                                                  compute_vjp_multi=lambda d, j: Marker("vjp_multi", d, j), compute_vjp_single=lambda d, j: Marker("vjp_single", d, j)),
                                 math=FakeNS(stack=lambda xs: ("stack", tuple(xs)), sum=lambda st, axis=None: Marker("sum", st[1], axis)))
                with patched(mod, np=fake_np, qp=fake_qp):
                    if which == "jvp":
                        tangents = tuple(Marker("dx", t) for t in range(len(batch)))
                        got = mod._compute_jvps(jacs, tangents, tapes)          # pylint: disable=protected-access
                        exp = []
                        for t, (n, p, tr) in enumerate(batch):
                            c = copies_of(p)
                            nm = "jvp_multi" if n > 1 else "jvp_single"
                            exp.append(native_zero_expected(tapes[t], p) if tr == 0 else (Marker(nm, tangents[t], jacs[t]) if c is None else
                                                                                          tuple(Marker(nm, tangents[t], jacs[t][j]) for j in range(c))))
                    else:
                        dys = tuple(Marker("dy", t) if copies_of(p) is None else tuple(Marker("dy", t, j) for j in range(copies_of(p))) for t, (n, p, tr) in enumerate(batch))
                        got = mod._compute_vjps(jacs, dys, tapes)               # pylint: disable=protected-access
                        exp = []
                        for t, (n, p, tr) in enumerate(batch):
                            c = copies_of(p)
                            nm = "vjp_multi" if n > 1 else "vjp_single"
                            exp.append(Marker(nm, dys[t], jacs[t]) if c is None else Marker("sum", tuple(Marker(nm, dys[t][j], jacs[t][j]) for j in range(c)), 0))
                exp = tuple(exp)
                return {"native": True, "ok": got == exp and nesting(got) == nesting(exp), "observed": repr(got), "expected": repr(exp)}
            return call
        jcases.append(Case(label, {"jacs": T("build", lambda ctx, nm, f=mk_jac: f(ctx, "jac"), gen=lambda rng: None),
                                   "tangents": T("build", lambda ctx, nm, f=mk_flat: f(ctx, "tangent"), gen=lambda rng: None),
                                   "tapes": T("build", mk_tapes, gen=lambda rng: None)},
                           ensures=native_post(jvp_post), size_bounded=True, native_call=native_jv("jvp"), native_raw=True))
        vcases.append(Case(label, {"jacs": T("build", lambda ctx, nm, f=mk_jac: f(ctx, "jac"), gen=lambda rng: None),
                                   "dys": T("build", lambda ctx, nm, f=mk_jac: f(ctx, "dy"), gen=lambda rng: None),
                                   "tapes": T("build", mk_tapes, gen=lambda rng: None)},
                           ensures=native_post(vjp_post), size_bounded=True, native_call=native_jv("vjp"), native_raw=True))
    for fc in (FnContract(w, "_compute_jvps", jcases), FnContract(w, "_compute_vjps", vcases)):
        for ob in obligations_for("C32", fc, tier):
            plan.add(ob)
    for q in ("_zero_jvp", "_zero_jvp_single_shots", "_compute_jvps", "_compute_vjps"):
        plan.fn_under_contract(JPC, q)
    plan.assumed_contracts.append("qp.gradients.compute_jvp_single/multi, compute_vjp_single/multi, np.zeros, mp.shape, qp.math.sum(qp.math.stack(.), axis=0): "
                                  "uninterpreted functions of their arguments (the per-shot-copy leaf computations)")


def _sum_stack(a, k, sum_fn):
    st = a[0]
    if not isinstance(st, StackM) or k.get("axis") != 0:
        raise Unsupp("qp.math.sum of something that is not stack(...) with axis=0")
    return sum_fn(len(st.items))(*st.items)


# =========================================================================================================================================
# sampling.py: the packing ends of the four measure_fn helpers (what measure_with_samples assumes about them)
from vf.pyvc.interp import Interp          # noqa: E402
from vf.pyvc.engine import FloatV         # noqa: E402
import ast as _ast                         # noqa: E402


class C32Interp(Interp):
    """adds `a[..., lo:hi, :]` (a slice inside a subscript tuple evaluates to a python slice object)"""

    def e_Slice(self, n, env):
        return slice(self.eval(n.lower, env) if n.lower else None, self.eval(n.upper, env) if n.upper else None, self.eval(n.step, env) if n.step else None)


SLICE_F = z3.Function("C32_samples_slice", LabelSort, z3.IntSort(), z3.IntSort(), LabelSort)
PROC_F = z3.Function("C32_process_samples", LabelSort, LabelSort, LabelSort)
SAMPLES_F = z3.Function("C32_sample_state", LabelSort, z3.IntSort(), z3.BoolSort(), LabelSort)
ROT_F = z3.Function("C32_rotated_state", LabelSort, LabelSort)
PSWS_F = z3.Function("C32_process_state_with_shots", LabelSort, LabelSort, z3.IntSort(), LabelSort)
TERM_F = z3.Function("C32_term_expval", LabelSort, z3.IntSort(), z3.RealSort())

_MP_METHODS = ("    def process_samples(self, samples, wire_order):\n        return process_samples_model(self, samples, wire_order)\n"
               "    def process_state_with_shots(self, state, wire_order, shots, rng=None):\n        return psws_model(self, state, wire_order, shots)\n")
HELPER_STUBS = dict(STUBS)
for _nm, (_src, _f) in STUBS.items():
    if "MP" in _nm or _nm in ("MeasurementProcess", "SampleMeasurement"):
        HELPER_STUBS[_nm] = (_src.replace("    pass\n", _MP_METHODS), _f)
HELPER_STUBS["Tensor"] = ("class Tensor:\n    pass\n", {"id": Label, "shape": SeqT(Int)})
HELPER_STUBS["LinearCombination"] = ("class LinearCombination(Sum):\n    def terms(self):\n        return (self.coeffs, self.ops)\n    def __iter__(self):\n        return self.ops\n", {"coeffs": Int, "ops": Int})
HELPER_STUBS["Sum"] = ("class Sum(Observable):\n    def terms(self):\n        return (self.coeffs, self.ops)\n    def __iter__(self):\n        return self.ops\n", {"coeffs": Int, "ops": Int})


class SamplesM(Model):
    def __init__(self, label):
        self.label = label

    def vf_getitem(self, interp, idx, node=None):
        if not (isinstance(idx, tuple) and len(idx) == 3 and idx[0] is Ellipsis and isinstance(idx[1], slice) and idx[1].step is None
                and isinstance(idx[2], slice) and (idx[2].start, idx[2].stop, idx[2].step) == (None, None, None)):
            raise Unsupp(f"samples indexed with {idx!r}")
        return SLICE_F(self.label, to_int_term(idx[1].start), to_int_term(idx[1].stop))


def helper_shape(n_members, copies, leaf, as_list):
    """what measure_with_samples assumes of a helper: one entry per group member; with partitioned shots the entry is a tuple per copy"""
    vals = [leaf(m, None) if copies is None else tuple(leaf(m, j) for j in range(copies)) for m in range(n_members)]
    return list(vals) if as_list else tuple(vals)


def cum_bins(qs):
    out, lo = [], 0
    for q in qs:
        out.append((lo, lo + q))
        lo = lo + q
    return out


def match_h(r, e):
    if isinstance(e, FloatV):
        return isinstance(r, FloatV) and (r.t == e.t)
    if isinstance(e, list):
        items = r.items if isinstance(r, PyList) else (r if isinstance(r, list) else None)
        if items is None or len(items) != len(e):
            return False
        parts = [match_h(a, b) for a, b in zip(items, e)]
        return False if any(p is False for p in parts) else And(True, *parts)
    if isinstance(e, tuple):
        if not isinstance(r, tuple) or len(r) != len(e):
            return False
        parts = [match_h(a, b) for a, b in zip(r, e)]
        return False if any(p is False for p in parts) else And(True, *parts)
    return match(r, e)


def add_sampling_helpers(plan, tier):
    quick = tier != "thorough"
    patterns = [[1], [2], [1, 2]] if quick else [[1], [2], [1, 1], [3], [1, 2], [2, 1], [1, 1, 1]]
    plan.size_bounds.append(f"helper packing ends: groups of 1-3 measurements (diagonalizing gates) / Hamiltonians and Sums of 1-3 terms / one shadow "
                            f"measurement x shot patterns {patterns}; samples, coefficients, term values, shot quantities symbolic")

    def base_builtins(g):
        def apply_diag(it, a, k):
            mps, state, batched = a
            it.ctx.prove(state is g(it)["state"], "pre:_apply_diagonalizing_gates/state")
            rot = Rec(state.cls, {"id": ROT_F(state.f["id"]), "shape": state.f["shape"]})
            g(it)["rotated"] = rot
            return rot

        def sample_state(it, a, k):
            (state,) = a
            gg = g(it)
            it.ctx.prove(state is gg.get("rotated"), "pre:sample_state/the-rotated-state")
            it.ctx.prove(k.get("shots") == gg["shots"].f["total_shots"], "pre:sample_state/all-shots-at-once")
            it.ctx.prove(k.get("is_state_batched") == gg["batched"], "pre:sample_state/batched-flag-unchanged")
            bt = gg["batched"]
            return SamplesM(SAMPLES_F(state.f["id"], to_int_term(k.get("shots")), bt))
        return {"_apply_diagonalizing_gates": apply_diag, "sample_state": sample_state, "split": split_model,
                "qp.wires.Wires": lambda it, a, k: z3.Const("C32_wires", LabelSort),
                "process_samples_model": lambda it, a, k: PROC_F(a[0].f["tag"], a[1]),
                "psws_model": lambda it, a, k: PSWS_F(a[0].f["tag"], a[1].f["id"], to_int_term(a[3]))}

    def ghost(it):
        return it.ctx.ghost.setdefault("hlp", {})

    def common_params(w, pattern):
        def state_T():
            def mk(ctx, nm):
                st = Rec(w.classes["Tensor"], {"id": z3.Const(ctx.fresh_name("state"), LabelSort), "shape": SeqV(z3.Const(ctx.fresh_name("state.shape"), z3.SeqSort(z3.IntSort())), Int, True)})
                ctx.ghost.setdefault("hlp", {})["state"] = st
                return st
            return T("build", mk, gen=lambda rng: None)

        def shots_T_():
            def mk(ctx, nm):
                sh = mk_shots(w, ctx, pattern)
                ctx.ghost.setdefault("hlp", {})["shots"] = sh
                return sh
            return T("build", mk, gen=lambda rng: {"shot_vector": [{"shots": 3 + 2 * i, "copies": c} for i, c in enumerate(pattern)]})

        def batched_T():
            def mk(ctx, nm):
                b = z3.Bool(ctx.fresh_name("is_state_batched"))
                ctx.ghost.setdefault("hlp", {})["batched"] = b
                return b
            return T("build", mk, gen=lambda rng: False)
        return {"state": state_T(), "shots": shots_T_(), "is_state_batched": batched_T(), "rng": NoneT, "prng_key": NoneT}

    def qs_of(shots_rec):
        return [sc.f["shots"] for sc in shots_rec.f["shot_vector"] for _ in range(sc.f["copies"])]

    class FakeState:
        shape = (2, 2)

    class FakeSamples:
        def __getitem__(self, idx):
            return Marker("slice", idx[1].start, idx[1].stop) if (isinstance(idx, tuple) and len(idx) == 3 and idx[0] is Ellipsis and idx[2] == slice(None)) else Marker("bad-index", repr(idx))

    class FakeMP:
        obs = None

        def __init__(self, k):
            self.k = k

        def process_samples(self, samples, wire_order):
            return Marker("proc", self.k, samples)

        def process_state_with_shots(self, state, wire_order, shots, rng=None):
            return Marker("psws", self.k, shots)

    def finish(fc, cases):
        for c in cases:
            c.interp_cls = C32Interp
        for ob in obligations_for("C32", fc, tier):
            plan.add(ob)
        plan.fn_under_contract(SAM, fc.qualname)

    # ---- _measure_with_samples_diagonalizing_gates ---------------------------------------------------------------------------------------------
    w = World(SAM, classes=dict(SHOT_CLASSES), stubs=HELPER_STUBS, functions=["jax_random_split"], extra_builtins=base_builtins(ghost),
              modular={"Shots.__iter__": shots_iter, "Shots.bins": shots_bins})
    cases = []
    for n in (1, 2, 3):
        for pattern in patterns:
            copies = copies_of(pattern)

            def post(o, r, n_, copies=copies):
                tags = [m.f["tag"] for m in o.mps.items]
                bins = cum_bins(qs_of(o.shots))
                S_ = SAMPLES_F(ROT_F(o.state.f["id"]), to_int_term(o.shots.f["total_shots"]), o.is_state_batched)
                return match_h(r, helper_shape(len(tags), copies, lambda m, j: PROC_F(tags[m], SLICE_F(S_, to_int_term(bins[j or 0][0]), to_int_term(bins[j or 0][1]))), False))

            def native(mod, a, n=n, pattern=pattern, copies=copies):
                shots = real_shots(a.get("shots"), pattern)
                bins = list(shots.bins())
                with patched(mod, _apply_diagonalizing_gates=lambda mps, state, b=False: state, sample_state=lambda *aa, **kk: FakeSamples()):
                    got = mod._measure_with_samples_diagonalizing_gates([FakeMP(k) for k in range(n)], FakeState(), shots, is_state_batched=False)   # pylint: disable=protected-access
                exp = helper_shape(n, copies, lambda m, j: Marker("proc", m, Marker("slice", bins[j or 0][0], bins[j or 0][1])), False)
                return {"native": True, "ok": got == exp and type_nesting(got) == type_nesting(exp), "observed": repr(got), "expected": repr(exp)}
            params = dict(mps=T("build", lambda ctx, nm, n=n: PyList([mk_mp(w, ctx, "obs", f"mp{k}") for k in range(n)]), gen=lambda rng: None), **common_params(w, pattern))
            cases.append(Case(f"{n}-measurements/shots[{'x'.join(map(str, pattern))}]", params, ensures=native_post(post), size_bounded=True, native_call=native, native_raw=True))
    finish(FnContract(w, "_measure_with_samples_diagonalizing_gates", cases), cases)

    # ---- _measure_classical_shadow ---------------------------------------------------------------------------------------------------------------
    cases = []
    for pattern in patterns:
        copies = copies_of(pattern)

        def post(o, r, n_, copies=copies):
            tag = o.mp.items[0].f["tag"]
            qs = qs_of(o.shots)
            return match_h(r, helper_shape(1, copies, lambda m, j: PSWS_F(tag, o.state.f["id"], to_int_term(o.shots.f["total_shots"] if j is None else qs[j])), True))

        def native(mod, a, pattern=pattern, copies=copies):
            shots = real_shots(a.get("shots"), pattern)
            qs = list(shots)
            got = mod._measure_classical_shadow([FakeMP(0)], FakeState(), shots)        # pylint: disable=protected-access
            exp = helper_shape(1, copies, lambda m, j: Marker("psws", 0, shots.total_shots if j is None else qs[j]), True)
            return {"native": True, "ok": got == exp and type_nesting(got) == type_nesting(exp), "observed": repr(got), "expected": repr(exp)}
        params = dict(mp=T("build", lambda ctx, nm: PyList([mk_mp(w, ctx, "shadow", "mp0")]), gen=lambda rng: None), **common_params(w, pattern))
        cases.append(Case(f"shots[{'x'.join(map(str, pattern))}]", params, ensures=native_post(post), size_bounded=True, native_call=native, native_raw=True))
    finish(FnContract(w, "_measure_classical_shadow", cases), cases)

    # ---- _measure_hamiltonian_with_samples / _measure_sum_with_samples ---------------------------------------------------------------------------------
    for fname, obs_cls, weighted in (("_measure_hamiltonian_with_samples", "LinearCombination", True), ("_measure_sum_with_samples", "Sum", False)):
        def inner_mws(it, a, k, fname=fname):
            """the recursive call for ONE shot copy: PRE one expval per term in order, an unpartitioned Shots of that copy's quantity"""
            ctx = it.ctx
            gg = ghost(it)
            mlist, state, s = a
            ms = list(mlist.items) if isinstance(mlist, PyList) else list(mlist)
            j = gg.setdefault("calls", 0)
            gg["calls"] = j + 1
            ops = gg["ops"]
            ctx.prove(len(ms) == len(ops) and all(isinstance(m, Rec) and m.cls.name == "ExpectationMP" and m.f.get("tag") is ops[i] for i, m in enumerate(ms)),
                      f"pre:{fname}/inner-measurements-are-the-terms-in-order")
            ctx.prove(state is gg["state"], f"pre:{fname}/state-unchanged")
            ctx.prove(k.get("is_state_batched") == gg["batched"], f"pre:{fname}/batched-flag-unchanged")
            qs = qs_of(gg["shots"])
            ok_shape = isinstance(s, Rec) and s.cls.name == "Shots" and isinstance(s.f.get("shot_vector"), tuple) and len(s.f["shot_vector"]) == 1 \
                and j < len(qs)
            ctx.prove(ok_shape, f"pre:{fname}/one-unpartitioned-Shots-per-copy")
            sc = s.f["shot_vector"][0]
            ctx.prove(z3.And(to_int_term(sc.f["copies"]) == 1, to_int_term(sc.f["shots"]) == qs[j], to_int_term(s.f["total_shots"]) == qs[j]),
                      f"pre:{fname}/copy-{j}-gets-its-own-shot-quantity")
            return tuple(FloatV(TERM_F(op, z3.IntVal(j))) for op in ops)
        xb = dict(base_builtins(ghost), measure_with_samples=inner_mws, **{"math.is_abstract": lambda it, a, k: False})
        wh = World(SAM, classes=dict(SHOT_CLASSES), stubs=HELPER_STUBS, functions=["jax_random_split"], extra_builtins=xb,
                   modular={"Shots.__iter__": shots_iter, "Shots.bins": shots_bins})
        cases = []
        for nterms in (1, 2, 3):
            for pattern in patterns:
                copies = copies_of(pattern)

                def mk_mp_h(ctx, nm, nterms=nterms, wh=wh, obs_cls=obs_cls):
                    ops = [z3.Const(ctx.fresh_name(f"term{i}"), LabelSort) for i in range(nterms)]
                    coeffs = [FloatV(z3.Real(ctx.fresh_name(f"coeff{i}"))) for i in range(nterms)]
                    g_ = ctx.ghost.setdefault("hlp", {})
                    g_["ops"], g_["coeffs"] = ops, coeffs
                    obs = Rec(wh.classes[obs_cls], {"coeffs": PyList(coeffs), "ops": PyList(ops)})
                    return PyList([Rec(wh.classes["ExpectationMP"], {"tag": z3.Const(ctx.fresh_name("mp0"), LabelSort), "obs": obs})])

                def post(o, r, n_, copies=copies, weighted=weighted):
                    obs = o.mp.items[0].f["obs"]
                    ops, cs = obs.f["ops"].items, obs.f["coeffs"].items

                    def val(j):
                        tot = z3.RealVal(0)
                        for c, op in zip(cs, ops):
                            tot = tot + ((c.t * TERM_F(op, z3.IntVal(j))) if weighted else TERM_F(op, z3.IntVal(j)))
                        return FloatV(tot)
                    return match_h(r, helper_shape(1, copies, lambda m, j: val(j or 0), True))

                def native(mod, a, nterms=nterms, pattern=pattern, copies=copies, weighted=weighted, fname=fname):
                    import pennylane as qp
                    from pennylane.core.shots import Shots
                    shots = real_shots(a.get("shots"), pattern)
                    qs = list(shots)
                    coeffs = [0.5 + i for i in range(nterms)]
                    ops = [qp.X(i) for i in range(nterms)]
                    H = qp.Hamiltonian(coeffs, ops) if weighted else qp.sum(*ops) if nterms > 1 else qp.ops.Sum(ops[0])
                    calls = []

                    def fake_mws(measurements, state, s, is_state_batched=False, rng=None, prng_key=None, mid_measurements=None):
                        j = len(calls)
                        calls.append((isinstance(s, Shots) and not s.has_partitioned_shots and s.total_shots, len(measurements)))
                        return tuple(Marker("term", i, j) for i in range(len(measurements)))
                    with patched(mod, measure_with_samples=fake_mws):
                        got = getattr(mod, fname)([qp.expval(H)], FakeState(), shots)

                    def val(j):
                        ms = [Marker("term", i, j) for i in range(nterms)]
                        return sum(c * m for c, m in zip(coeffs, ms)) if weighted else sum(ms)
                    exp = helper_shape(1, copies, lambda m, j: val(j or 0), True)
                    ok = got == exp and type_nesting(got) == type_nesting(exp) and calls == [(q, nterms) for q in qs]
                    return {"native": True, "ok": ok, "observed": repr(got), "expected": repr(exp), "inner_calls": repr(calls)}
                params = dict(mp=T("build", mk_mp_h, gen=lambda rng: None), **common_params(wh, pattern))
                cases.append(Case(f"{nterms}-terms/shots[{'x'.join(map(str, pattern))}]", params, ensures=native_post(post), size_bounded=True, native_call=native, native_raw=True))
        finish(FnContract(wh, fname, cases), cases)
    plan.assumed_contracts += ["_apply_diagonalizing_gates / sample_state / mp.process_samples / mp.process_state_with_shots / qp.wires.Wires: uninterpreted; "
                               "sample_state does not raise (the 'probabilities contain nan' fallback is not explored)",
                               "inside _measure_hamiltonian/_sum_with_samples the recursive measure_with_samples call returns one real number per term "
                               "(its own contract: PACKED without a shot vector); its precondition (one ExpectationMP per term in order, an "
                               "unpartitioned Shots holding that copy's quantity) is PROVED at the call site",
                               "Shots(int) constructor executed from the real Shots.__new__/__init__ (math.is_abstract(.) = False)"]
    plan.assumptions.append("A-float-as-real for the weighted sums of term expectation values in the Hamiltonian / Sum helpers")


# =========================================================================================================================================
# simulate.py: simulate (path without mid-circuit measurements) and the shot-vector split of simulate_tree_mcm
FINAL = z3.Function("C32_final_result", LabelSort, LabelSort, z3.BoolSort(), z3.IntSort(), LabelSort)      # measure_final_state leaf
TREE = z3.Function("C32_tree_result", LabelSort, z3.IntSort(), z3.IntSort(), LabelSort)                    # (measurement, shots of the copy, copy)
FSTATE = z3.Function("C32_final_state", LabelSort, LabelSort)
FBATCH = z3.Function("C32_final_state_is_batched", LabelSort, z3.BoolSort())

SIM_STUBS = dict(STUBS)
SIM_STUBS["QuantumScript"] = ("class QuantumScript:\n    def copy(self, shots=None):\n        return circuit_copy_model(self, shots)\n"
                              "    def map_to_standard_wires(self):\n        return map_wires_model(self)\n",
                              {"id": Label, "measurements": Int, "shots": Int, "operations": Int})
SIM_STUBS["Operator"] = ("class Operator:\n    pass\n", {})


def add_simulate(plan, tier):
    quick = tier != "thorough"
    patterns = [None, [1], [2], [1, 2]] if quick else [None, [1], [2], [1, 1], [3], [1, 2], [1, 1, 1]]
    plan.size_bounds.append(f"simulate (no mid-circuit measurement) and simulate_tree_mcm (shot-vector split): 1-3 measurements x shots {patterns}")
    COPYID = z3.Function("C32_copied_circuit", LabelSort, LabelSort)
    MAPID = z3.Function("C32_wire_mapped_circuit", LabelSort, LabelSort)

    def copy_model(it, a, k):
        c, shots = a
        new_shots = c.f["shots"] if shots is None else shots
        return Rec(c.cls, {"id": COPYID(c.f["id"]), "measurements": PyList(list(c.f["measurements"].items)), "shots": new_shots,
                           "operations": PyList(list(c.f["operations"].items))})

    def map_model(it, a, k):
        (c,) = a
        return Rec(c.cls, {"id": MAPID(c.f["id"]), "measurements": PyList(list(c.f["measurements"].items)), "shots": c.f["shots"],
                           "operations": PyList(list(c.f["operations"].items))})

    def jrs(it, a, k):
        num = k.get("num", a[1] if len(a) > 1 else 2)
        if a[0] is None:
            return (None,) * num
        return tuple(z3.Const(it.ctx.fresh_name("subkey"), LabelSort) for _ in range(num))

    def gfs(it, a, k):
        (c,) = a
        it.ctx.ghost.setdefault("sim", {})["gfs_circuit"] = c
        return (FSTATE(c.f["id"]), FBATCH(c.f["id"]))

    def mfs(it, a, k):
        """callee contract of measure_final_state (proved above): SHAPE over the circuit's own measurements and shots"""
        c, state, batched = a
        g = it.ctx.ghost.setdefault("sim", {})
        it.ctx.prove(c is g.get("gfs_circuit"), "pre:measure_final_state/the-circuit-whose-final-state-was-computed")
        it.ctx.prove(z3.And(state == FSTATE(c.f["id"]), batched == FBATCH(c.f["id"])), "pre:measure_final_state/state-and-batched-flag-of-get_final_state")
        tags = [m.f["tag"] for m in c.f["measurements"].items]
        sh = c.f["shots"]
        copies = None if sh.f["total_shots"] is None else copies_of([sc.f["copies"] for sc in sh.f["shot_vector"]])
        return SHAPE(len(tags), copies, lambda k_, j: FINAL(tags[k_], state, batched, jval(j)))

    w = World(SIM, classes=dict(SHOT_CLASSES), stubs=SIM_STUBS,
              extra_builtins={"circuit_copy_model": copy_model, "map_wires_model": map_model, "jax_random_split": jrs, "get_final_state": gfs,
                              "measure_final_state": mfs, "math.get_deep_interface": lambda it, a, k: "numpy"},
              modular={"Shots.__iter__": shots_iter, "Shots.bins": shots_bins})

    def circuit_T(n, pattern):
        def mk(ctx, nm):
            return Rec(w.classes["QuantumScript"], {"id": z3.Const(ctx.fresh_name("circuit"), LabelSort),
                                                    "measurements": PyList([mk_mp(w, ctx, "obs", f"mp{k}") for k in range(n)]),
                                                    "shots": mk_shots(w, ctx, pattern), "operations": PyList([Rec(w.classes["Operator"], {}), Rec(w.classes["Operator"], {})])})
        return T("build", mk, gen=lambda rng: {"shots": {"shot_vector": [{"shots": 3 + 2 * i, "copies": c} for i, c in enumerate(pattern or [])]}})

    def real_circuit(a, n, pattern):
        import pennylane as qp
        sm = (a.get("circuit") or {}).get("shots") if isinstance(a.get("circuit"), dict) else None
        return qp.tape.QuantumScript([qp.RX(0.3, 0), qp.CNOT([0, 1])], [real_mp("obs", k % 2) if pattern is None else qp.sample(wires=[k % 2]) for k in range(n)],
                                     shots=real_shots(sm, pattern))

    cases = []
    for n in (1, 2, 3):
        for pattern in patterns:
            copies = copies_of(pattern)

            def post(o, r, n_, copies=copies):
                tags = [m.f["tag"] for m in o.circuit.f["measurements"].items]
                cid = MAPID(COPYID(o.circuit.f["id"]))
                return match(r, SHAPE(len(tags), copies, lambda k_, j: FINAL(tags[k_], FSTATE(cid), FBATCH(cid), jval(j))))

            def native(mod, a, n=n, pattern=pattern, copies=copies):
                circuit = real_circuit(a, n, pattern)

                def fake_gfs(c, debugger=None, **kw):
                    return "STATE", "BATCHED?"

                def fake_mfs(c, state, is_state_batched, **kw):
                    cp = None if not c.shots else (c.shots.num_copies if c.shots.has_partitioned_shots else None)
                    return SHAPE(len(c.measurements), cp, lambda k_, j: Marker("final", k_, state, is_state_batched, j))
                with patched(mod, get_final_state=fake_gfs, measure_final_state=fake_mfs):
                    got = mod.simulate(circuit)
                exp = SHAPE(n, copies, lambda k_, j: Marker("final", k_, "STATE", "BATCHED?", j))
                return {"native": True, "ok": got == exp and nesting(got) == nesting(exp), "observed": repr(got), "expected": repr(exp)}
            cases.append(Case(f"no-mcm/{n}-measurements/shots[{'analytic' if pattern is None else 'x'.join(map(str, pattern))}]",
                              {"circuit": circuit_T(n, pattern), "debugger": NoneT, "state_cache": NoneT, "prng_key": NoneT},
                              ensures=native_post(post), kwargs_map={"prng_key": "prng_key"}, size_bounded=True, native_call=native, native_raw=True))
    fc = FnContract(w, "simulate", cases)
    for ob in obligations_for("C32", fc, tier):
        plan.add(ob)
    plan.fn_under_contract(SIM, "simulate")

    # ---- simulate_tree_mcm: the shot-vector split (outer tuple, one recursive call per copy, in order) -----------------------------------------------
    def rec_tree(it, a, k):
        """induction hypothesis for the recursive call on ONE copy: an unpartitioned request returns one(j) (unwrapped when single)"""
        ctx = it.ctx
        g = ctx.ghost.setdefault("tree", {})
        c = a[0]
        j = g.setdefault("calls", 0)
        g["calls"] = j + 1
        s = c.f["shots"]
        ctx.prove(is_intlike(s) and not isinstance(s, bool), "pre:simulate_tree_mcm/recursive-call-gets-one-copy's-shot-quantity")
        tags = [m.f["tag"] for m in c.f["measurements"].items]
        return SHAPE(len(tags), None, lambda k_, _j: TREE(tags[k_], to_int_term(s), z3.IntVal(j)))
    wt = World(SIM, classes=dict(SHOT_CLASSES), stubs=SIM_STUBS,
               extra_builtins={"circuit_copy_model": copy_model, "map_wires_model": map_model, "jax_random_split": jrs, "simulate_tree_mcm": rec_tree},
               modular={"Shots.__iter__": shots_iter, "Shots.bins": shots_bins})
    tcases = []
    for n in (1, 2, 3):
        for pattern in [p for p in patterns if copies_of(p) is not None]:
            copies = copies_of(pattern)

            def mk(ctx, nm, n=n, pattern=pattern):
                return Rec(wt.classes["QuantumScript"], {"id": z3.Const(ctx.fresh_name("circuit"), LabelSort),
                                                         "measurements": PyList([mk_mp(wt, ctx, "obs", f"mp{k}") for k in range(n)]),
                                                         "shots": mk_shots(wt, ctx, pattern), "operations": PyList([])})

            def post(o, r, n_, copies=copies):
                tags = [m.f["tag"] for m in o.circuit.f["measurements"].items]
                qs = [sc.f["shots"] for sc in o.circuit.f["shots"].f["shot_vector"] for _ in range(sc.f["copies"])]
                return match(r, SHAPE(len(tags), copies, lambda k_, j: TREE(tags[k_], to_int_term(qs[j]), z3.IntVal(j))))

            def native(mod, a, n=n, pattern=pattern, copies=copies):
                circuit = real_circuit(a, n, pattern)
                qs = list(circuit.shots)
                calls = []

                def fake_tree(c, debugger=None, **kw):
                    j = len(calls)
                    calls.append(c.shots.total_shots if not c.shots.has_partitioned_shots else "partitioned")
                    return SHAPE(len(c.measurements), None, lambda k_, _j: Marker("tree", k_, c.shots.total_shots, j))
                orig = mod.simulate_tree_mcm
                with patched(mod, simulate_tree_mcm=fake_tree):
                    got = orig(circuit)
                exp = SHAPE(n, copies, lambda k_, j: Marker("tree", k_, qs[j], j))
                return {"native": True, "ok": got == exp and nesting(got) == nesting(exp), "observed": repr(got), "expected": repr(exp), "recursive_calls": repr(calls)}
            tcases.append(Case(f"shot-vector-split/{n}-measurements/shots[{'x'.join(map(str, pattern))}]",
                               {"circuit": T("build", mk, gen=lambda rng, pattern=pattern: {"shots": {"shot_vector": [{"shots": 3 + 2 * i, "copies": c} for i, c in enumerate(pattern)]}}),
                                "debugger": NoneT, "prng_key": NoneT},
                               ensures=native_post(post), kwargs_map={"prng_key": "prng_key"}, size_bounded=True, native_call=native, native_raw=True))
    fct = FnContract(wt, "simulate_tree_mcm", tcases)
    for ob in obligations_for("C32", fct, tier):
        plan.add(ob)
    plan.fn_under_contract(SIM, "simulate_tree_mcm")
    plan.assumed_contracts += ["QuantumScript.copy / map_to_standard_wires: same measurements in the same order, same shots (copy(shots=s): shots s)",
                               "get_final_state(circuit): uninterpreted (state, is_state_batched) of the circuit; inside simulate the call of "
                               "measure_final_state uses the contract proved for it (SHAPE)",
                               "simulate_tree_mcm, recursive call on one shot copy: returns the unpartitioned shape one(j) (induction hypothesis; the "
                               "unpartitioned body -- tree traversal, combine_measurements -- is NOT verified)"]


# =========================================================================================================================================
# bounded native stand-in: the whole stack (default.qubit through device.execute / qp.execute with each interface) against SHAPE
def add_native_standin(plan, tier):
    import os
    BS = 3

    def requests():
        import numpy as np
        import pennylane as qp

        def mps(n, shots, variant):
            pool_a = [qp.expval(qp.Z(0)), qp.probs(wires=[0, 1]), qp.var(qp.X(1)), qp.expval(qp.X(0) @ qp.Z(1))]
            pool_s = [qp.expval(qp.Z(0)), qp.sample(wires=[0]), qp.counts(wires=[0, 1]), qp.probs(wires=[1]), qp.expval(0.5 * qp.X(0) + qp.Y(1)), qp.var(qp.Z(1))]
            pool = pool_a if shots is None else pool_s
            return [pool[(variant + k) % len(pool)] for k in range(n)]
        for n in (1, 2, 3):
            for shots in (None, 10, (10, 20), (5, 5, 7)):
                for bc in (False, True):
                    for variant in range(3 if tier != "thorough" else 6):
                        x = np.array([0.1, 0.2, 0.3]) if bc else 0.1
                        yield n, shots, bc, variant, qp.tape.QuantumScript([qp.RX(x, 0), qp.CNOT([0, 1])], mps(n, shots, variant), shots=shots)

    def norm(res, bc, strict):
        """nesting of a result; a broadcasted counts result (one dictionary per batch element) is ONE leaf -- unless `strict`"""
        if isinstance(res, (list, tuple)) and bc and not strict and len(res) == BS and all(isinstance(x, dict) for x in res):
            return "*"
        if isinstance(res, tuple):
            return tuple(norm(x, bc, strict) for x in res)
        return "*"

    def run(strict):
        import numpy as np
        import pennylane as qp
        dev = qp.device("default.qubit", wires=2)
        count, bad = 0, []
        for n, shots, bc, variant, tape in requests():
            copies = tape.shots.num_copies if tape.shots.has_partitioned_shots else None
            exp = SHAPE(n, copies, lambda k, j: "*")
            for how in ("device.execute", "qp.execute/numpy", "autograd", "jax", "torch"):
                if how == "device.execute":
                    res = dev.execute(tape)
                elif how == "qp.execute/numpy":
                    res = qp.execute([tape], dev, diff_method=None)[0]
                else:
                    res = qp.execute([tape], dev, diff_method=qp.gradients.param_shift, interface=how)[0]
                count += 1
                got = norm(res, bc, strict)
                ok = got == exp
                if ok and bc:
                    # broadcast size is the leading axis of every array leaf
                    def leaves(x):
                        if isinstance(x, tuple):
                            for y in x:
                                yield from leaves(y)
                        else:
                            yield x
                    for lf in leaves(res):
                        if not isinstance(lf, (dict, list)) and (len(np.shape(lf)) == 0 or np.shape(lf)[0] != BS):
                            ok = False
                if not ok:
                    bad.append(dict(measurements=[repr(m) for m in tape.measurements], shots=repr(shots), broadcast=bc, entry_point=how,
                                    nesting=repr(got), expected=repr(exp)))
        return count, bad

    def mk(strict, label):
        def fn():
            try:
                count, bad = run(strict)
            except Exception:  # pylint: disable=broad-except
                import traceback
                return Outcome(UNDECIDED, "native", "bounded stand-in crashed: " + traceback.format_exc()[-1500:])
            if bad:
                return Outcome(REFUTED, "native", f"{len(bad)} of {count} executions return a nesting different from SHAPE", witness=bad[0],
                               replay=dict(confirmed=True, observed=bad[0]["nesting"], expected=bad[0]["expected"], inputs=bad[0], others=bad[1:6]))
            return Outcome(DISCHARGED, "native(bounded)", f"{count} executions: nesting(result) == SHAPE", extra=dict(bounded=True))
        return Obligation(f"C32/execution:execute/bounded-native[{label}]", "bounded", fn, func=("pennylane/workflow/execution.py", "execute"), bounded=True, timeout=900,
                          sample="default.qubit, 1-3 measurements x shots {None, 10, (10,20), (5,5,7)} x broadcast {no, 3} x device.execute / qp.execute with "
                                 "numpy, autograd, jax, torch: nesting(result) == SHAPE(n, copies)")
    plan.add(mk(False, "default.qubit x 5 entry points"))
    # open known finding F38: broadcasted counts are a LIST of dictionaries with numpy / torch and a TUPLE of dictionaries with autograd / jax
    # (_to_autograd / _to_jax turn every list into a tuple) -- interface-dependent nesting; the strict comparison is the finding instance
    strict_ob = mk(True, "default.qubit x 5 entry points, broadcasted counts strict")
    strict_ob.finding = "F38"
    plan.add(strict_ob)


# =========================================================================================================================================
# measure_final_state for ANY number of measurements (symbolic-length measurement list; shot-vector pattern enumerated)
def add_measure_final_state_symbolic(plan, tier):
    patterns = [None, [1], [2], [1, 2]] if tier != "thorough" else [None, [1], [2], [1, 1], [3], [1, 2], [2, 1], [1, 1, 1]]
    SYM_STUBS = dict(STUBS)
    SYM_STUBS["QuantumScript"] = ("class QuantumScript:\n    pass\n", {"measurements": SeqT(Label, tuple=False), "shots": Int})

    def bt_of(v):
        return v if isinstance(v, z3.ExprRef) else z3.BoolVal(bool(v))

    def measure_model(it, args, kw):
        mp, state = args
        return MEAS(mp, state, bt_of(kw["is_state_batched"]))

    def mws_callee(it, args, kw):
        """measure_with_samples for a measurement list of symbolic length: PACKED as a quantified fact"""
        ctx = it.ctx
        g = ctx.ghost["mfs"]
        meas, state = args[0], args[1]
        ctx.prove(isinstance(meas, SeqV) and meas.term.eq(g["circuit"].f["measurements"].term), "pre:measure_with_samples/measurements-are-the-circuit's")
        ctx.prove(kw.get("shots") is g["circuit"].f["shots"], "pre:measure_with_samples/shots-are-the-circuit's")
        ctx.prove(state == g["state"], "pre:measure_with_samples/state-unchanged")
        ctx.prove(kw.get("is_state_batched") == g["batched"], "pre:measure_with_samples/batched-flag-unchanged")
        ctx.prove(kw.get("mid_measurements") is None, "pre:measure_with_samples/no-mid-measurements")
        bt = bt_of(kw.get("is_state_batched"))

        def packed_row(j):
            r = z3.Const(ctx.fresh_name(f"sampled_row{j}"), z3.SeqSort(LabelSort))
            i = z3.Int(ctx.fresh_name("pi"))
            ctx.assume(z3.Length(r) == z3.Length(meas.term))
            ctx.assume(z3.ForAll([i], z3.Implies(z3.And(i >= 0, i < z3.Length(meas.term)), r[i] == RES(meas.term[i], state, bt, jval(j))), patterns=[r[i]]))
            # (a ground instance of the same fact, for the single-measurement path that reads entry 0)
            ctx.assume(z3.Implies(z3.Length(meas.term) > 0, r[0] == RES(meas.term[0], state, bt, jval(j))))
            return SeqV(r, Label, True)
        copies = g["copies"]
        return packed_row(None) if copies is None else tuple(packed_row(j) for j in range(copies))

    w = sim_world({"measure": measure_model, "measure_with_samples": mws_callee})
    w.classes["QuantumScript"] = World(SIM, stubs=SYM_STUBS).classes["QuantumScript"]

    def circuit_T(pattern):
        def mk(ctx, nm):
            c = Rec(w.classes["QuantumScript"], {"measurements": SeqV(z3.Const(ctx.fresh_name("measurements"), z3.SeqSort(LabelSort)), Label, False),
                                                 "shots": mk_shots(w, ctx, pattern)})
            ctx.ghost.setdefault("mfs", {})["circuit"] = c
            ctx.ghost["mfs"]["copies"] = copies_of(pattern)
            # the quantified facts of this obligation (comprehension / callee contract) are used by E-matching on the ground terms of
            # the goal; model-based instantiation only burns the budget on sequence terms
            return c
        return T("build", mk, gen=lambda rng: {"measurements": ["L0"] * rng.choice([0, 1, 1, 2, 3, 5]),
                                               "shots": {"shot_vector": [{"shots": 3 + 2 * i, "copies": c} for i, c in enumerate(pattern or [])]}})

    def ghosted(key, t):
        def mk(ctx, nm):
            from vf.pyvc.engine import fresh
            v = fresh(ctx, t, nm)
            ctx.ghost.setdefault("mfs", {})[key] = v
            return v
        return T("build", mk, gen=lambda rng: False)

    def post(pattern):
        copies = copies_of(pattern)

        def p(o, r, n_):
            m = o.circuit.f["measurements"].term
            n = z3.Length(m)
            bt = o.is_state_batched

            def one(x, leaf):
                if isinstance(x, z3.ExprRef) and x.sort() == LabelSort:
                    return z3.And(n == 1, x == leaf(m[0]))
                if isinstance(x, SeqV) and x.is_tuple:
                    i = z3.Int("C32_i")
                    return z3.And(n != 1, z3.Length(x.term) == n, z3.ForAll([i], z3.Implies(z3.And(i >= 0, i < n), x.term[i] == leaf(m[i]))))
                return False
            if pattern is None:
                return one(r, lambda t: MEAS(t, o.state, bt))
            if copies is None:
                return one(r, lambda t: RES(t, o.state, bt, jval(None)))
            if not isinstance(r, tuple) or len(r) != copies:
                return False
            parts = [one(r[j], lambda t, j=j: RES(t, o.state, bt, jval(j))) for j in range(copies)]
            return False if any(q is False for q in parts) else z3.And(*parts)
        return p

    def native(pattern):
        def call(mod, a):
            import pennylane as qp
            try:
                n = max(0, min(8, len(a["circuit"]["measurements"])))
            except Exception:  # pylint: disable=broad-except
                n = 2
            circuit = qp.tape.QuantumScript([], [real_mp("obs", k) for k in range(n)], shots=real_shots((a.get("circuit") or {}).get("shots"), pattern))
            copies = copies_of(pattern)
            batched = bool(a.get("is_state_batched"))

            def fake_measure(mp, state, is_state_batched=False, **kw):
                return Marker("M", [i for i, m in enumerate(circuit.measurements) if m is mp][0], state, is_state_batched)

            def fake_mws(measurements, state, shots=None, is_state_batched=False, rng=None, prng_key=None, mid_measurements=None):
                return PACKED(len(measurements), copies, lambda k, j: Marker("S", k, state, is_state_batched, j))
            with patched(mod, measure=fake_measure, measure_with_samples=fake_mws):
                got = mod.measure_final_state(circuit, "STATE", batched, rng=None, prng_key=None)
            exp = SHAPE(n, None, lambda k, j: Marker("M", k, "STATE", batched)) if pattern is None else SHAPE(n, copies, lambda k, j: Marker("S", k, "STATE", batched, j))
            return {"native": True, "ok": got == exp and nesting(got) == nesting(exp), "observed": repr(got), "expected": repr(exp), "n_measurements": n}
        return call
    cases = []
    for pattern in patterns:
        tag = "analytic" if pattern is None else "shots[" + "x".join(map(str, pattern)) + "]"
        cases.append(Case(f"any-number-of-measurements/{tag}", {"circuit": circuit_T(pattern), "state": ghosted("state", Label), "is_state_batched": ghosted("batched", Bool),
                                                                "rng": NoneT, "prng_key": NoneT},
                          ensures=native_post(post(pattern)), kwargs_map={"rng": "rng", "prng_key": "prng_key"}, native_call=native(pattern), native_raw=True))
    fc = FnContract(w, "measure_final_state", cases)
    for ob in obligations_for("C32", fc, tier):
        plan.add(ob)
    plan.trusted_base.append("z3 sequence theory + quantifier instantiation (measure_final_state for a measurement list of symbolic length)")
