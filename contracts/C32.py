"""C32 Result structure depends only on the request.

SPEC (written here from the property statement, independent of the code):

    SHAPE(n, copies, leaf)  =  one(None)                                   when copies is None   (no shot vector)
                               (one(0), ..., one(copies-1))                 otherwise             (OUTER tuple: one entry per shot copy)
    one(j)                  =  leaf(0, j)                                   when n == 1           (single measurement: unwrapped)
                               (leaf(0, j), ..., leaf(n-1, j))              otherwise             (tuple in measurement order)

`leaf(k, j)` is the result of measurement k for shot copy j: an UNINTERPRETED marker value, so position and order are checked, not
only lengths.  `copies` is None unless the Shots object has partitioned shots.  The helper `measure_with_samples` never unwraps:

    PACKED(n, copies, leaf) =  (leaf(0), ..., leaf(n-1))  /  ((leaf(0, j), ..., leaf(n-1, j)) for j < copies)

Code under contract (real ASTs read on every run): pennylane/devices/qubit/simulate.py  measure_final_state, simulate (non-MCM path),
simulate_tree_mcm (shot-vector split); pennylane/devices/qubit/sampling.py  measure_with_samples and the packing ends of its four
helpers; pennylane/workflow/interfaces/*.py, jacobian_products.py: the pure-python re-packing helpers.
"""
import contextlib
import itertools

import z3

from vf.common import Plan, Obligation, Outcome, DISCHARGED, REFUTED, UNDECIDED, FAULT
from vf.pyvc.engine import (World, T, Int, Bool, Label, LabelSort, NoneT, Rec, PyList, SeqV, SeqT, Model, Unsupp, RaiseExc, is_intlike,
                            to_int_term)
from vf.pyvc.contract import FnContract, Case, LoopSpec, obligations_for
from vf.pyvc import spec as S
from vf.pyvc.spec import And, Or, Not, Implies, If

SIM = "pennylane/devices/qubit/simulate.py"
SAM = "pennylane/devices/qubit/sampling.py"
SHO = "pennylane/core/shots.py"

# ---- marker values ---------------------------------------------------------------------------------------------------------------
# result of measuring `tag` on `state` (batched flag passed along) for shot copy j (-1: no shot vector)
RES = z3.Function("C32_sampled", LabelSort, LabelSort, z3.BoolSort(), z3.IntSort(), LabelSort)
MEAS = z3.Function("C32_measured", LabelSort, LabelSort, z3.BoolSort(), LabelSort)


class Marker:
    """native marker value: equal iff same key; deliberately NOT a tuple / sequence"""

    def __init__(self, *key):
        self.key = tuple(key)

    def __eq__(self, other):
        return isinstance(other, Marker) and self.key == other.key

    def __hash__(self):
        return hash(self.key)

    def __repr__(self):
        return "R" + repr(self.key)

    # arithmetic used by the summing helpers in a native run: stays a marker
    def __add__(self, other):
        return Marker("+", self, other)

    def __radd__(self, other):
        return Marker("+", other, self)

    def __rmul__(self, other):
        return Marker("*", other, self)


# ---- the specification --------------------------------------------------------------------------------------------------------------
def SHAPE(n, copies, leaf):
    def one(j):
        return leaf(0, j) if n == 1 else tuple(leaf(k, j) for k in range(n))
    return one(None) if copies is None else tuple(one(j) for j in range(copies))


def PACKED(n, copies, leaf):
    if copies is None:
        return tuple(leaf(k, None) for k in range(n))
    return tuple(tuple(leaf(k, j) for k in range(n)) for j in range(copies))


def nesting(x):
    """nesting of a result: tuple structure with leaves erased"""
    if isinstance(x, tuple):
        return tuple(nesting(y) for y in x)
    return "*"


def match(r, e):
    """r has exactly the structure and leaves of e (tuples are tuples, leaves equal); z3 formula or bool"""
    if isinstance(e, tuple):
        if not isinstance(r, tuple) or len(r) != len(e):
            return False
        parts = [match(a, b) for a, b in zip(r, e)]
        if any(p is False for p in parts):
            return False
        return And(True, *parts)
    if isinstance(r, (tuple, list, PyList, SeqV)):
        return False
    if isinstance(e, z3.ExprRef):
        if not isinstance(r, z3.ExprRef) or r.sort() != e.sort():
            return False
        return r == e
    return bool(r == e)


def copies_of(pattern):
    """number of shot copies of a shot-vector pattern (list of `copies` entries) or None when the shots are not partitioned"""
    if pattern is None or list(pattern) == [1]:
        return None
    return sum(pattern)


def jval(j):
    return z3.IntVal(-1 if j is None else j)


# ---- environment: Shots (REAL class, properties executed from its AST), measurement / circuit records (abstract inputs) ----------------
STUBS = {
    "QuantumScript": ("class QuantumScript:\n    pass\n", {"measurements": Int, "shots": Int}),
    "MeasurementProcess": ("class MeasurementProcess:\n    pass\n", {"tag": Label, "obs": Int}),
    "SampleMeasurement": ("class SampleMeasurement(MeasurementProcess):\n    pass\n", {"tag": Label, "obs": Int}),
    "ExpectationMP": ("class ExpectationMP(SampleMeasurement):\n    pass\n", {"tag": Label, "obs": Int}),
    "SampleMP": ("class SampleMP(SampleMeasurement):\n    pass\n", {"tag": Label, "obs": Int}),
    "ClassicalShadowMP": ("class ClassicalShadowMP(MeasurementProcess):\n    pass\n", {"tag": Label, "obs": Int}),
    "ShadowExpvalMP": ("class ShadowExpvalMP(MeasurementProcess):\n    pass\n", {"tag": Label, "obs": Int}),
    "Observable": ("class Observable:\n    pass\n", {}),
    "Sum": ("class Sum(Observable):\n    pass\n", {}),
    "LinearCombination": ("class LinearCombination(Sum):\n    pass\n", {}),
}
SHOT_CLASSES = {"Shots": (SHO, {"total_shots": Int, "shot_vector": Int, "_frozen": Bool}), "ShotCopies": (SHO, {"shots": Int, "copies": Int})}
KINDS = {"obs": ("ExpectationMP", "Observable"), "noobs": ("SampleMP", None), "ham": ("ExpectationMP", "LinearCombination"),
         "sum": ("ExpectationMP", "Sum"), "shadow": ("ClassicalShadowMP", None), "shadowexp": ("ShadowExpvalMP", None)}


def shots_iter(it, args, kw):
    """assumed contract of Shots.__iter__ (verified by C44): the shot quantity of every copy, in order"""
    (sh,) = args
    return PyList([sc.f["shots"] for sc in sh.f["shot_vector"] for _ in range(sc.f["copies"])])


def shots_bins(it, args, kw):
    """assumed contract of Shots.bins (verified by C44): consecutive [lower, upper) per copy"""
    (sh,) = args
    out, lo = [], 0
    for sc in sh.f["shot_vector"]:
        for _ in range(sc.f["copies"]):
            out.append((lo, lo + sc.f["shots"]))
            lo = lo + sc.f["shots"]
    return PyList(out)


def mk_shots(w, ctx, pattern, name="shots"):
    """pattern None: analytic; otherwise list of `copies` (concrete) with SYMBOLIC positive shot quantities, adjacent ones distinct"""
    SHc, SC = w.classes["Shots"], w.classes["ShotCopies"]
    if pattern is None:
        return Rec(SHc, {"total_shots": None, "shot_vector": (), "_frozen": True})
    qs = [z3.Int(ctx.fresh_name(f"{name}.quantity{i}")) for i in range(len(pattern))]
    for i, q in enumerate(qs):
        ctx.assume(q >= 1)
        if i:
            ctx.assume(q != qs[i - 1])
    total = sum(q * c for q, c in zip(qs, pattern))
    return Rec(SHc, {"total_shots": total, "shot_vector": tuple(Rec(SC, {"shots": q, "copies": c}) for q, c in zip(qs, pattern)), "_frozen": True})


def shots_T(w, pattern, name="shots"):
    return T("build", lambda ctx, nm: mk_shots(w, ctx, pattern, name),
             gen=lambda rng: {"shot_vector": [{"shots": 3 + 2 * i, "copies": c} for i, c in enumerate(pattern or [])]})


def real_shots(model_value, pattern):
    """real Shots object of the case's pattern; quantities from the counter-model when they are usable"""
    from pennylane.core.shots import Shots
    if pattern is None:
        return Shots(None)
    qs = []
    try:
        for sc in model_value["shot_vector"]:
            qs.append(int(sc["shots"]))
    except Exception:  # pylint: disable=broad-except
        qs = []
    if len(qs) != len(pattern) or any(q < 1 or q > 50 for q in qs) or any(a == b for a, b in zip(qs, qs[1:])):
        qs = [3 + 2 * i for i in range(len(pattern))]
    return Shots([(q, c) for q, c in zip(qs, pattern)])


def mk_mp(w, ctx, kind, name):
    cls, obs = KINDS[kind]
    return Rec(w.classes[cls], {"tag": z3.Const(ctx.fresh_name(name), LabelSort), "obs": None if obs is None else Rec(w.classes[obs], {})})


def real_mp(kind, k):
    import pennylane as qp
    if kind == "obs":
        return qp.expval(qp.Z(k))
    if kind == "noobs":
        return qp.sample(wires=[k])
    if kind == "ham":
        return qp.expval(qp.Hamiltonian([0.5, 2.0], [qp.X(k), qp.Z(k)]))
    if kind == "sum":
        return qp.expval(qp.X(k) + qp.Y(k))
    if kind == "shadow":
        return qp.classical_shadow(wires=[k])
    return qp.shadow_expval(qp.Z(k))


@contextlib.contextmanager
def patched(mod, **repl):
    saved = {k: getattr(mod, k) for k in repl}
    try:
        for k, v in repl.items():
            setattr(mod, k, v)
        yield
    finally:
        for k, v in saved.items():
            setattr(mod, k, v)


def native_post(post):
    """contract postcondition that also reads the verdict of a native replay (dict produced by the case's native_call)"""
    return lambda o, r, n: (r["ok"] if isinstance(r, dict) and r.get("native") else post(o, r, n))


def stable_sorted(it, args, kw):
    """sorted(xs, key=f) on a list of CONCRETE length: stable insertion sort, forking on symbolic key comparisons (python semantics:
    ascending by key, ties keep input order)"""
    if set(kw) - {"key", "reverse"} or (kw.get("reverse") not in (None, False)):
        raise Unsupp("sorted(..., reverse=...)")
    xs = it.iter_concrete(args[0])
    keyf = kw.get("key")
    out = []
    for x in xs:
        kx = it.call(keyf, [x], {}) if keyf is not None else x
        if not is_intlike(kx):
            raise Unsupp(f"sort key {kx!r} is not an integer")
        pos = len(out)
        for p, (ky, _) in enumerate(out):
            lt = (kx < ky) if isinstance(kx, int) and isinstance(ky, int) else (to_int_term(kx) < to_int_term(ky))
            if it.ctx.branch(lt):
                pos = p
                break
        out.insert(pos, (kx, x))
    return PyList([x for _, x in out])


def split_model(it, args, kw):
    """jax.random.split(key, num): `num` fresh keys (uninterpreted)"""
    num = kw.get("num", args[1] if len(args) > 1 else 2)
    return tuple(z3.Const(it.ctx.fresh_name("subkey"), LabelSort) for _ in range(num))


# =========================================================================================================================================
def build(tier, seed):
    plan = Plan("C32", level="other")
    # (pennylane is NOT imported here: the symbolic obligations do not need it; a worker imports it when it replays a counter-model)
    plan.explanation = ("The real bodies of measure_final_state / measure_with_samples / the packing ends of the sampling helpers / "
                        "simulate are executed symbolically with every per-measurement result an uninterpreted marker value "
                        "R(measurement, shot copy); the returned nested tuple is compared, position by position, with SHAPE / PACKED "
                        "written from the property statement. Shapes (numbers of measurements, groupings, shot copies) are enumerated, "
                        "values (markers, shot quantities, state, batched flag) stay symbolic. Counter-models are replayed on the real "
                        "functions with real QuantumScript / Shots objects and monkeypatched leaf functions returning marker objects.")
    plan.trusted_base = ["vf/pyvc encoder (Python subset semantics)", "z3 (QF_UFLIA)",
                         "contracts/C32.py: stable_sorted (model of sorted(xs, key=f): stable ascending insertion sort)"]
    plan.assumptions = ["per-measurement results are uninterpreted functions of (measurement, state, batched flag, shot copy): leaf values "
                        "carry no structure of their own (array shapes / broadcast axis inside a leaf are not modelled)",
                        "measurement processes and circuits are abstract records (class, tag, obs class); Shots is the REAL class with "
                        "concrete copies per entry and symbolic positive shot quantities (canonical form: adjacent quantities differ)"]
    plan.assumed_contracts = ["Shots.__iter__ / Shots.bins: one entry per shot copy in order (proved by C44)",
                              "jax.random.split(key, num): a tuple of num keys"]
    plan.dropped = ["docstrings, annotations, @debug_logger decorators (logging only)"]
    add_measure_final_state(plan, tier)
    add_measure_with_samples(plan, tier)
    return plan


# =========================================================================================================================================
def sim_world(extra=None, functions=()):
    xb = {"default_rng": lambda it, a, k: (a[0] if a and a[0] is not None else z3.Const(it.ctx.fresh_name("rng"), LabelSort))}
    xb.update(extra or {})
    return World(SIM, classes=dict(SHOT_CLASSES), stubs=STUBS, functions=list(functions), extra_builtins=xb,
                 modular={"Shots.__iter__": shots_iter, "Shots.bins": shots_bins})


SHOT_PATTERNS_Q = [[1], [2], [1, 1], [1, 2], [3]]
SHOT_PATTERNS_T = [[1], [2], [1, 1], [3], [1, 2], [2, 1], [1, 1, 1]]


def add_measure_final_state(plan, tier):
    patterns = SHOT_PATTERNS_Q if tier != "thorough" else SHOT_PATTERNS_T
    plan.size_bounds.append(f"measure_final_state: 1-4 measurements x (analytic | shot-vector patterns {patterns} (copies per entry)) x 0-2 "
                            "trailing mid-circuit-measurement samples (only without a shot vector: the call sites pass mid_measurements with "
                            "shots=[1] circuits only); markers, state, batched flag, shot quantities symbolic")

    def measure_model(it, args, kw):
        mp, state = args
        return MEAS(mp.f["tag"], state, kw["is_state_batched"] if isinstance(kw["is_state_batched"], z3.ExprRef) else z3.BoolVal(kw["is_state_batched"]))

    def mws_callee(it, args, kw):
        """callee contract of measure_with_samples: PRE from its own contract (see add_measure_with_samples), POST = PACKED"""
        ctx = it.ctx
        g = ctx.ghost["mfs"]
        meas, state = args[0], args[1]
        ctx.prove(meas is g["circuit"].f["measurements"], "pre:measure_with_samples/measurements-are-the-circuit's")
        ctx.prove(kw.get("shots") is g["circuit"].f["shots"], "pre:measure_with_samples/shots-are-the-circuit's")
        ctx.prove(state == g["state"], "pre:measure_with_samples/state-unchanged")
        ctx.prove(kw.get("is_state_batched") == g["batched"], "pre:measure_with_samples/batched-flag-unchanged")
        ctx.prove(kw.get("mid_measurements") is g.get("mid"), "pre:measure_with_samples/mid-measurements-passed")
        return mws_spec_value([m.f["tag"] for m in meas.items], g.get("mid"), g["copies"], state, kw.get("is_state_batched"))

    w = sim_world({"measure": measure_model, "measure_with_samples": mws_callee})

    def circuit_T(n, pattern):
        def mk(ctx, nm):
            c = Rec(w.classes["QuantumScript"], {"measurements": PyList([mk_mp(w, ctx, "obs", f"mp{k}") for k in range(n)]),
                                                 "shots": mk_shots(w, ctx, pattern)})
            ctx.ghost.setdefault("mfs", {})["circuit"] = c
            ctx.ghost["mfs"]["copies"] = copies_of(pattern)
            return c
        return T("build", mk, gen=lambda rng: {"shots": {"shot_vector": [{"shots": 3 + 2 * i, "copies": c} for i, c in enumerate(pattern or [])]}})

    def ghosted(key, t):
        def mk(ctx, nm):
            from vf.pyvc.engine import fresh
            v = fresh(ctx, t, nm)
            ctx.ghost.setdefault("mfs", {})[key] = v
            return v
        return T("build", mk, gen=lambda rng: None)

    def mid_T(M):
        def mk(ctx, nm):
            v = None if M is None else {f"mcm{i}": z3.Const(ctx.fresh_name(f"mcm_samples{i}"), LabelSort) for i in range(M)}
            ctx.ghost.setdefault("mfs", {})["mid"] = v
            return v
        return T("build", mk, gen=lambda rng: None)

    def native(n, pattern, M, with_mid_key):
        def call(mod, a):
            import pennylane as qp
            circuit = qp.tape.QuantumScript([], [real_mp("obs", k) for k in range(n)], shots=real_shots((a.get("circuit") or {}).get("shots"), pattern))
            copies = copies_of(pattern)
            mid = None if M is None else {f"mcm{i}": Marker("mcm", i) for i in range(M)}
            batched = bool(a.get("is_state_batched"))

            def fake_measure(mp, state, is_state_batched=False, **kw):
                return Marker("M", [i for i, m in enumerate(circuit.measurements) if m is mp][0], state, is_state_batched)

            def fake_mws(measurements, state, shots=None, is_state_batched=False, rng=None, prng_key=None, mid_measurements=None):
                nm = len(measurements) - (len(mid_measurements) if mid_measurements else 0)

                def leaf(k, j):
                    return Marker("S", k, state, is_state_batched, j) if k < nm else list(mid_measurements.values())[k - nm]
                return PACKED(len(measurements), copies, leaf)
            kwargs = {"rng": None, "prng_key": None}
            if with_mid_key:
                kwargs["mid_measurements"] = mid
            try:
                with patched(mod, measure=fake_measure, measure_with_samples=fake_mws):
                    got = mod.measure_final_state(circuit, "STATE", batched, **kwargs)
            except TypeError as ex:
                ok = pattern is None and with_mid_key and mid is not None
                return {"native": True, "ok": ok, "observed": f"raised TypeError: {ex}"}
            if pattern is None:
                if with_mid_key and mid is not None:
                    return {"native": True, "ok": False, "observed": repr(got), "expected": "TypeError"}
                exp = SHAPE(n, None, lambda k, j: Marker("M", k, "STATE", batched))
            else:
                nm = n - (M or 0)
                exp = SHAPE(n, copies, lambda k, j: Marker("S", k, "STATE", batched, j) if k < nm else Marker("mcm", k - nm))
            return {"native": True, "ok": got == exp and nesting(got) == nesting(exp), "observed": repr(got), "expected": repr(exp)}
        return call

    def post(o, r, n_):
        c = o.circuit
        tags = [m.f["tag"] for m in c.f["measurements"].items]
        bt = o.is_state_batched
        if c.f["shots"].f["total_shots"] is None:
            return match(r, SHAPE(len(tags), None, lambda k, j: MEAS(tags[k], o.state, bt)))
        copies = copies_of([sc.f["copies"] for sc in c.f["shots"].f["shot_vector"]])
        mid = getattr(o, "mid", None) or {}
        nm = len(tags) - len(mid)
        vals = list(mid.values())
        return match(r, SHAPE(len(tags), copies, lambda k, j: RES(tags[k], o.state, bt, jval(j)) if k < nm else vals[k - nm]))

    cases = []
    for n in (1, 2, 3, 4):
        base = lambda pattern, n=n: {"circuit": circuit_T(n, pattern), "state": ghosted("state", Label), "is_state_batched": ghosted("batched", Bool),
                                     "rng": NoneT, "prng_key": NoneT}
        km = {"rng": "rng", "prng_key": "prng_key"}
        cases.append(Case(f"analytic/{n}-measurements", dict(base(None)), ensures=native_post(post), kwargs_map=km, size_bounded=True,
                          native_call=native(n, None, None, False), native_raw=True))
        if n <= 2:
            for M in (0, 1):
                cases.append(Case(f"analytic/{n}-measurements/mid_measurements-given[{M}]:TypeError", dict(base(None), mid=mid_T(M)),
                                  ensures=native_post(lambda o, r, n_: False), raises={"TypeError": lambda o: True},
                                  kwargs_map=dict(km, mid_measurements="mid"), size_bounded=True, native_call=native(n, None, M, True), native_raw=True))
        for pattern in patterns:
            tag = "x".join(map(str, pattern))
            cases.append(Case(f"shots[{tag}]/{n}-measurements", dict(base(pattern), mid=mid_T(None)), ensures=native_post(post),
                              kwargs_map=dict(km, mid_measurements="mid"), size_bounded=True, native_call=native(n, pattern, None, True), native_raw=True))
        for M in (0, 1, 2):
            if M <= n:
                cases.append(Case(f"shots[1]/{n}-measurements/{M}-of-them-mcm-samples", dict(base([1]), mid=mid_T(M)), ensures=native_post(post),
                                  kwargs_map=dict(km, mid_measurements="mid"), size_bounded=True, native_call=native(n, [1], M, True), native_raw=True))
    fc = FnContract(w, "measure_final_state", cases)
    for ob in obligations_for("C32", fc, tier):
        plan.add(ob)
    plan.fn_under_contract(SIM, "measure_final_state")
    plan.assumed_contracts.append("measure(mp, state, is_state_batched): uninterpreted function of its three arguments (analytic leaf); "
                                  "numpy default_rng(rng): opaque")


def mws_spec_value(tags, mid, copies, state, batched):
    """PACKED for measure_with_samples: `tags` of ALL entries of `measurements`; the last len(mid) are the mid-circuit samples"""
    mid = mid or {}
    nm = len(tags) - len(mid)
    vals = list(mid.values())
    bt = batched if isinstance(batched, z3.ExprRef) else z3.BoolVal(bool(batched))
    return PACKED(len(tags), copies, lambda k, j: RES(tags[k], state, bt, jval(j)) if k < nm else vals[k - nm])


# =========================================================================================================================================
def groupings(n):
    """every ordered partition of range(n) into ordered groups: (groups as lists of indices)"""
    out = []
    for perm in itertools.permutations(range(n)):
        for cuts in itertools.product([0, 1], repeat=n - 1):
            groups, cur = [], [perm[0]]
            for i, c in enumerate(cuts):
                if c:
                    groups.append(cur)
                    cur = []
                cur.append(perm[i + 1])
            groups.append(cur)
            out.append(groups)
    return out


def add_measure_with_samples(plan, tier):
    quick = tier != "thorough"
    specials = ["ham", "sum", "shadow", "shadowexp"]

    def helper(name, allowed, singleton, as_list):
        def callee(it, args, kw):
            ctx = it.ctx
            g = ctx.ghost["mws"]
            group, state, shots = args[0], args[1], args[2]
            members = list(group.items) if isinstance(group, PyList) else list(group)
            if singleton:
                ctx.prove(len(members) == 1, f"pre:{name}/group-is-a-single-measurement")
            ctx.prove(all(isinstance(m, Rec) and g["kind_of"].get(id(m.origin)) in allowed for m in members),
                      f"pre:{name}/measurement-kinds-{'|'.join(allowed)}")
            ctx.prove(shots is g["shots"], f"pre:{name}/shots-passed-unchanged")
            ctx.prove(state == g["state"], f"pre:{name}/state-unchanged")
            ctx.prove(kw.get("is_state_batched") == g["batched"], f"pre:{name}/batched-flag-unchanged")
            bt = g["batched"]
            copies = g["copies"]

            def entry(m):
                if copies is None:
                    return RES(m.f["tag"], state, bt, jval(None))
                return tuple(RES(m.f["tag"], state, bt, jval(j)) for j in range(copies))
            vals = [entry(m) for m in members]
            return PyList(vals) if as_list else tuple(vals)
        return callee

    def mk_world(groups):
        def group_model(it, args, kw):
            """havoc of _group_measurements: the enumerated grouping of exactly the given measurements"""
            ctx = it.ctx
            g = ctx.ghost["mws"]
            (mps,) = args
            items = list(mps.items) if isinstance(mps, PyList) else list(mps)
            ctx.prove(len(items) == len(g["mps"]) and all(a is b for a, b in zip(items, g["mps"])), "pre:_group_measurements/the-non-mcm-measurements")
            return (PyList([PyList([g["mps"][i] for i in grp]) for grp in groups]), PyList([PyList(list(grp)) for grp in groups]))
        xb = {"_group_measurements": group_model, "sorted": stable_sorted, "split": split_model,
              "_measure_with_samples_diagonalizing_gates": helper("_measure_with_samples_diagonalizing_gates", ("obs", "noobs"), False, False),
              "_measure_hamiltonian_with_samples": helper("_measure_hamiltonian_with_samples", ("ham",), True, True),
              "_measure_sum_with_samples": helper("_measure_sum_with_samples", ("sum", "ham"), True, True),
              "_measure_classical_shadow": helper("_measure_classical_shadow", ("shadow", "shadowexp"), True, True)}
        return World(SAM, classes=dict(SHOT_CLASSES), stubs=STUBS, functions=["jax_random_split"], extra_builtins=xb,
                     modular={"Shots.__iter__": shots_iter, "Shots.bins": shots_bins})

    def mk_case(groups, kinds, pattern, M, key_given):
        n = len(kinds)
        w = mk_world(groups)
        copies = copies_of(pattern)

        def meas_T():
            def mk(ctx, nm):
                mps = [mk_mp(w, ctx, kinds[k], f"mp{k}") for k in range(n)]
                mcm = [mk_mp(w, ctx, "noobs", f"mcm_mp{i}") for i in range(M or 0)]
                g = ctx.ghost.setdefault("mws", {})
                g["mps"], g["kind_of"], g["copies"] = mps, {id(m): kinds[k] for k, m in enumerate(mps)}, copies
                return PyList(mps + mcm)
            return T("build", mk, gen=lambda rng: None)

        def ghosted(key, t):
            def mk(ctx, nm):
                from vf.pyvc.engine import fresh
                v = fresh(ctx, t, nm)
                ctx.ghost.setdefault("mws", {})[key] = v
                return v
            return T("build", mk, gen=lambda rng: ({"shot_vector": [{"shots": 3 + 2 * i, "copies": c} for i, c in enumerate(pattern)]} if key == "shots" else None))

        def mid_T():
            return T("build", lambda ctx, nm: None if M is None else {f"mcm{i}": z3.Const(ctx.fresh_name(f"mcm_samples{i}"), LabelSort) for i in range(M)},
                     gen=lambda rng: None)

        def post(o, r, n_):
            tags = [m.f["tag"] for m in o.measurements.items]
            return match(r, mws_spec_value(tags, o.mid_measurements, copies, o.state, o.is_state_batched))

        def native(mod, a):
            shots = real_shots(a.get("shots"), pattern)
            mps = [real_mp(kinds[k], k) for k in range(n)]
            mcm = [real_mp("noobs", n + i) for i in range(M or 0)]
            mid = None if M is None else {f"mcm{i}": Marker("mcm", i) for i in range(M)}
            batched = bool(a.get("is_state_batched"))
            log = []

            def fake_group(given):
                log.append(("grouped", [([i for i, m in enumerate(mps) if m is x] or ["?"])[0] for x in given]))
                return [[mps[i] for i in grp] for grp in groups], [list(grp) for grp in groups]

            def fake_helper(name, as_list):
                def f(group, state, shots_, is_state_batched=False, rng=None, prng_key=None):
                    idx = [[i for i, m in enumerate(mps) if m is x][0] for x in group]
                    log.append((name, idx))
                    vals = [Marker("S", i, state, is_state_batched, None) if copies is None else
                            tuple(Marker("S", i, state, is_state_batched, j) for j in range(copies)) for i in idx]
                    return vals if as_list else tuple(vals)
                return f
            with patched(mod, _group_measurements=fake_group,
                         _measure_with_samples_diagonalizing_gates=fake_helper("diagonalizing_gates", False),
                         _measure_hamiltonian_with_samples=fake_helper("hamiltonian", True),
                         _measure_sum_with_samples=fake_helper("sum", True), _measure_classical_shadow=fake_helper("shadow", True)):
                kwargs = {"is_state_batched": batched, "rng": None, "prng_key": None}
                if key_given:
                    kwargs["mid_measurements"] = mid
                got = mod.measure_with_samples(mps + mcm, "STATE", shots, **kwargs)
            exp = PACKED(n + (M or 0), copies, lambda k, j: Marker("S", k, "STATE", batched, j) if k < n else Marker("mcm", k - n))
            return {"native": True, "ok": got == exp and nesting(got) == nesting(exp), "observed": repr(got), "expected": repr(exp), "calls": repr(log)}
        label = (f"{n}-measurements/groups{groups}/kinds[{','.join(kinds)}]/shots[{'x'.join(map(str, pattern))}]"
                 + (f"/{M}-mcm-samples" if M is not None else "")).replace(" ", "")
        params = {"measurements": meas_T(), "state": ghosted("state", Label), "shots": T("build", lambda ctx, nm: _shots_ghost(w, ctx, pattern),
                                                                                            gen=lambda rng: {"shot_vector": [{"shots": 3 + 2 * i, "copies": c} for i, c in enumerate(pattern)]}),
                  "is_state_batched": ghosted("batched", Bool), "rng": NoneT, "prng_key": T("build", lambda ctx, nm: (z3.Const(ctx.fresh_name("prng_key"), LabelSort) if key_given else None), gen=lambda rng: None),
                  "mid_measurements": mid_T()}
        case = Case(label, params, ensures=native_post(post), size_bounded=True, native_call=native, native_raw=True)
        return FnContract(w, "measure_with_samples", [case])

    def _shots_ghost(w, ctx, pattern):
        sh = mk_shots(w, ctx, pattern)
        ctx.ghost.setdefault("mws", {})["shots"] = sh
        return sh

    # ---- enumeration --------------------------------------------------------------------------------------------------------------------
    pats_part = [[2], [1, 2]] if quick else [[2], [1, 1], [3], [1, 2], [2, 1], [1, 1, 1]]
    shapes = []
    count = 0
    for n in (1, 2, 3, 4):
        gs = groupings(n)
        if n == 4:
            gs = [g for i, g in enumerate(gs) if i % (16 if quick else 4) == 5 % (16 if quick else 4)] + [[[0, 1, 2, 3]], [[3], [2], [1], [0]], [[2, 0], [3, 1]]]
        for gi, groups in enumerate(gs):
            singles = [grp[0] for grp in groups if len(grp) == 1]
            kind_sets = [["obs" if (k + gi) % 2 == 0 else "noobs" for k in range(n)]]
            if singles:
                ks = list(kind_sets[0])
                for si, k in enumerate(singles):
                    ks[k] = specials[(si + gi) % 4]
                kind_sets.append(ks)
            for ki, kinds in enumerate(kind_sets):
                count += 1
                pats = [[1]] + ([pats_part[count % len(pats_part)]] if quick else pats_part)
                for pattern in pats:
                    shapes.append((groups, kinds, pattern, None, count % 2 == 0))
                if ki == 0 and (not quick or gi % 3 == 0):
                    for M in (0, 1, 2):
                        shapes.append((groups, kinds, [1], M, True))
    plan.size_bounds.append(f"measure_with_samples: {len(shapes)} shapes = 1-3 measurements x EVERY ordered partition into ordered groups "
                            "(4 measurements: a sample of them) x measurement kinds (pauli observable / no observable in any group; "
                            "Hamiltonian / Sum / classical-shadow / shadow-expval as single-measurement groups) x shot-vector patterns "
                            f"[1] and {pats_part} x 0-2 trailing mid-circuit samples (without a shot vector); markers, shot quantities, state, "
                            "batched flag, prng key symbolic")
    for groups, kinds, pattern, M, key_given in shapes:
        fc = mk_case(groups, kinds, pattern, M, key_given)
        for ob in obligations_for("C32", fc, tier):
            plan.add(ob)
    plan.fn_under_contract(SAM, "measure_with_samples")
    plan.assumed_contracts += [
        "_group_measurements(mps): havocked to the enumerated grouping -- ANY ordered partition of the measurement indices, `indices` "
        "consistent with `groups`, Hamiltonian / Sum / shadow measurements alone in their group (its docstring)",
        "the four measure_fn helpers inside measure_with_samples: uninterpreted, one entry per group member (a tuple with one entry per "
        "shot copy when the shots are partitioned) -- their packing ends are proved separately below; their preconditions (single-"
        "measurement group of the right kind, same shots / state / batched flag) are PROVED at the call site"]
    plan.assumptions.append("mid_measurements together with a shot vector is not a reachable request (simulate_one_shot_native_mcm runs "
                            "shots=[1] circuits; simulate_tree_mcm splits the shot vector first): excluded from the measure_with_samples cases")
