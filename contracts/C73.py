"""C73 The execution tracker counts what was executed.

Code under contract (real ASTs, read on every run):
  pennylane/devices/tracker.py                      Tracker.{__init__, __enter__, __exit__, update, reset, record}
  pennylane/devices/modifiers/simulator_tracking.py the seven `_track_*.<locals>.*` wrapper closures and `simulator_tracking`
  pennylane/devices/qubit/sampling.py               get_num_shots_and_executions (the per-circuit executions / shots the wrappers record)

Abstract view.  A tracker is (totals, history, latest, active, persistent, callback).  The SPECIFICATION of one `update(**kw)` is
written here independently of the code: history[k] := history.get(k, []) ++ [v]; totals[k] := v + totals.get(k, 0) for numeric v
(int / bool / float, `numbers.Number`), untouched otherwise; latest := kw.  A wrapper call is specified as the tracker state obtained by
folding that specification over the list of updates the property statement prescribes (one `batches=1`, then one entry per circuit in
batch order ...), the wrapped device method being an uninterpreted function that must be called exactly once with the same
arguments and whose result must be returned unchanged; with an inactive tracker the list of updates is empty (no write at all).
"""
import numbers
from fractions import Fraction

import z3

from vf.common import Plan, find_def
from vf.pyvc.engine import (World, T, Int, Bool, Float, Label, LabelSort, NoneT, RecT, SeqT, TupleT, ListT, Rec, SeqV, PyList, FloatV,
                            FuncRef, fresh, real_of, to_int_term, is_sym_bool, is_sym_int, seq_of, Unsupp, RaiseExc)
from vf.pyvc.contract import FnContract, Case, LoopSpec, obligations_for
from vf.pyvc.spec import And, Or, Not, Implies

TR = "pennylane/devices/tracker.py"
ST = "pennylane/devices/modifiers/simulator_tracking.py"
SA = "pennylane/devices/qubit/sampling.py"


class SnapDict(dict):
    """python dict with concrete keys and symbolic values that takes part in the old/new snapshots of the engine"""

    def snapshot(self):
        return SnapDict({k: (v.snapshot() if hasattr(v, "snapshot") else v) for k, v in self.items()})


ELEM = {"int": Int, "bool": Bool, "float": Float, "obj": Label}
VALT = {"int": Int, "bool": Bool, "float": Float, "obj": Label, "none": NoneT}
CB = FuncRef("builtin", "user_callback")


def cb_model(it, args, kw):
    """the user's callback: an arbitrary function; every call is logged (ghost state of the path)"""
    it.ctx.ghost.setdefault("cblog", []).append((tuple(args), dict(kw)))
    return None


def kind_of(v):
    if v is None:
        return "none"
    if isinstance(v, bool) or is_sym_bool(v):
        return "bool"
    if isinstance(v, int) or is_sym_int(v):
        return "int"
    if isinstance(v, (FloatV, float)):
        return "float"
    return "obj"


def veq(a, b):
    """equality of two tracker entries (python bool or z3 formula)"""
    if a is None or b is None:
        return a is None and b is None
    ka, kb = kind_of(a), kind_of(b)
    if ka != kb:
        return False
    if ka == "float":
        return real_of(a) == real_of(b)
    if ka == "int":
        return to_int_term(a) == to_int_term(b)
    if ka == "bool":
        return a == b if (isinstance(a, bool) and isinstance(b, bool)) else ((z3.BoolVal(a) if isinstance(a, bool) else a) == (z3.BoolVal(b) if isinstance(b, bool) else b))
    if isinstance(a, z3.ExprRef) and isinstance(b, z3.ExprRef) and a.sort() == b.sort():
        return a == b
    return a is b


def box(v, kind):
    if kind == "float":
        return real_of(v)
    if kind == "int":
        return to_int_term(v)
    if kind == "bool":
        return z3.BoolVal(v) if isinstance(v, bool) else v
    return v


def sort_of_kind(kind):
    return {"int": z3.IntSort(), "bool": z3.BoolSort(), "float": z3.RealSort(), "obj": LabelSort}[kind]


def num(v):
    """numeric value of an int / bool / float entry as (term, is_real)"""
    k = kind_of(v)
    if k == "float":
        return real_of(v), True
    return to_int_term(v), False


def zor(*xs):
    xs = [x for x in xs if x is not False]
    if any(x is True for x in xs):
        return True
    if not xs:
        return False
    return xs[0] if len(xs) == 1 else z3.Or(*xs)


def zand(a, b):
    if a is True:
        return b
    if b is True:
        return a
    if a is False or b is False:
        return False
    return z3.And(a, b)


def znot(a):
    return (not a) if isinstance(a, bool) else z3.Not(a)


# ---- specification of the tracker state after a list of updates (symbolic side) -------------------------------------------------
class SpecState:
    """hist[k] = dict(mode='seq', term, kind, present) | dict(mode='list', items, present); tot[k] = dict(val, real, present);
    latest[k] = dict(val, present).  `present` is a python bool or a z3 formula (keys written only under a condition)."""

    def __init__(self, tr):
        self.hist, self.tot, self.latest = {}, {}, {}
        self.bad = []
        for k, v in tr.f["history"].items():
            if isinstance(v, SeqV):
                kind = next(kd for kd, t in ELEM.items() if t.kind == v.elem.kind)
                self.hist[k] = dict(mode="seq", term=v.term, kind=kind, present=True)
            else:
                self.hist[k] = dict(mode="list", items=list(v.items), present=True)
        for k, v in tr.f["totals"].items():
            t, real = num(v)
            self.tot[k] = dict(val=t, real=real, present=True)
        for k, v in tr.f["latest"].items():
            self.latest[k] = dict(val=v, present=True)

    def update(self, entries):
        """entries: list of (key, value, cond)"""
        self.latest = {}
        for k, v, c in entries:
            self.latest[k] = dict(val=v, present=c)
            kind = kind_of(v)
            h = self.hist.get(k)
            if h is None:
                h = dict(mode="list", items=[], present=False) if kind == "none" else \
                    dict(mode="seq", term=z3.Empty(z3.SeqSort(sort_of_kind(kind))), kind=kind, present=False)
                self.hist[k] = h
            if h["mode"] == "list":
                if c is not True:
                    self.bad.append(f"conditional append to a concrete list ({k})")
                h["items"].append(v)
                h["present"] = True
            elif kind != h["kind"]:
                self.bad.append(f"value kind {kind} appended to a history of {h['kind']} ({k})")
            else:
                app = z3.Concat(h["term"], z3.Unit(box(v, kind)))
                h["term"] = app if c is True else z3.If(c, app, h["term"])
                h["present"] = zor(h["present"], c)
            if kind in ("int", "bool", "float"):
                t, real = num(v)
                cur = self.tot.get(k) or dict(val=z3.IntVal(0), real=False, present=False)
                a, b = cur["val"], t
                if real or cur["real"]:
                    a = a if cur["real"] else z3.ToReal(a)
                    b = b if real else z3.ToReal(b)
                s = b + a
                self.tot[k] = dict(val=s if c is True else z3.If(c, s, a), real=real or cur["real"], present=zor(cur["present"], c))

    def matches(self, tr):
        """the tracker record `tr` is in this state"""
        out = list(not b for b in self.bad)
        hist, tot, lat = tr.f["history"], tr.f["totals"], tr.f["latest"]
        if not all(isinstance(d, dict) for d in (hist, tot, lat)):
            return False
        for k in list(dict.fromkeys(list(self.hist) + list(hist))):
            sp, ac = self.hist.get(k), hist.get(k)
            if sp is None:
                out.append(False)
            elif k not in hist:
                out.append(znot(sp["present"]))
            else:
                out.append(sp["present"])
                if sp["mode"] == "list":
                    items = ac.items if isinstance(ac, PyList) else None
                    if items is None or len(items) != len(sp["items"]):
                        out.append(False)
                    else:
                        out += [veq(x, y) for x, y in zip(items, sp["items"])]
                else:
                    if isinstance(ac, SeqV):
                        term = ac.term
                    elif isinstance(ac, PyList) and all(kind_of(x) == sp["kind"] for x in ac.items):
                        term = seq_of([box(x, sp["kind"]) for x in ac.items], sort_of_kind(sp["kind"]))
                    else:
                        out.append(False)
                        continue
                    out.append(term == sp["term"] if term.sort() == sp["term"].sort() else False)
        for k in list(dict.fromkeys(list(self.tot) + list(tot))):
            sp = self.tot.get(k)
            if sp is None:
                out.append(False)
            elif k not in tot:
                out.append(znot(sp["present"]))
            else:
                out.append(sp["present"])
                ac = tot[k]
                if kind_of(ac) not in ("int", "bool", "float"):
                    out.append(False)
                    continue
                t, real = num(ac)
                if real != sp["real"]:
                    out.append(False)     # an int total never becomes a float one (or vice versa) unless the spec says so
                else:
                    out.append(t == sp["val"])
        for k in list(dict.fromkeys(list(self.latest) + list(lat))):
            sp = self.latest.get(k)
            if sp is None:
                out.append(False)
            elif k not in lat:
                out.append(znot(sp["present"]))
            else:
                out.append(sp["present"])
                out.append(veq(lat[k], sp["val"]))
        return And(*out) if out else True


def native_state(tr):
    return dict(history={k: list(v) for k, v in tr.history.items()}, totals=dict(tr.totals), latest=dict(tr.latest))


def native_apply(state, updates):
    """the same specification on real python data"""
    hist = {k: list(v) for k, v in state["history"].items()}
    tot, lat = dict(state["totals"]), dict(state["latest"])
    for entries in updates:
        lat = {}
        for k, v, c in entries:
            if not c:
                continue
            lat[k] = v
            hist[k] = hist.get(k, []) + [v]
            if v is not None and isinstance(v, numbers.Number):
                tot[k] = v + tot.get(k, 0)
    return dict(history=hist, totals=tot, latest=lat)


def is_sym(x):
    return isinstance(x, Rec)


def state_after(old_tr, new_tr, updates):
    """new_tr is old_tr after the list of updates (each a list of (key, value, cond)) -- symbolic or native"""
    if is_sym(old_tr):
        sp = SpecState(old_tr)
        for u in updates:
            sp.update(u)
        return sp.matches(new_tr)
    return native_state(new_tr) == native_apply(native_state(old_tr), updates)


def cblog(tr):
    return tr.f["__ctx"].ghost.get("cblog", []) if is_sym(tr) else tr._cblog


def same(a, b):
    """identity of python objects / equality of symbolic atoms"""
    if a is b:
        return True
    if isinstance(a, tuple) and isinstance(b, tuple) and len(a) == len(b):
        return And(*[same(x, y) for x, y in zip(a, b)]) if a else True
    if isinstance(a, z3.ExprRef) and isinstance(b, z3.ExprRef) and a.sort() == b.sort():
        return a == b
    if isinstance(a, FloatV) and isinstance(b, FloatV):
        return a.t == b.t
    if isinstance(a, (str, int, float)) and not isinstance(a, bool) and type(a) is type(b):
        return a == b            # replayed atoms (labels are strings, numbers)
    return False


def flags_same(o_tr, n_tr, active=None):
    """persistent / callback untouched; active untouched unless a new value is prescribed"""
    if is_sym(o_tr):
        a0, a1, p0, p1, c0, c1 = o_tr.f["active"], n_tr.f["active"], o_tr.f["persistent"], n_tr.f["persistent"], o_tr.f["callback"], n_tr.f["callback"]
    else:
        a0, a1, p0, p1, c0, c1 = o_tr.active, n_tr.active, o_tr.persistent, n_tr.persistent, o_tr.callback, n_tr.callback
    okc = (c0 is c1) or (callable(c0) and callable(c1) and not is_sym(o_tr))
    return And(veq(p0, p1), okc, veq(a1, a0 if active is None else active))


def build(tier, seed):
    plan = Plan("C73", level="proof")
    plan.explanation = (
        "The real bodies of Tracker.{__init__,__enter__,__exit__,update,reset,record}, of the seven _track_* wrapper closures, of "
        "simulator_tracking and of get_num_shots_and_executions are executed symbolically along every path. History lists have SYMBOLIC "
        "length and symbolic contents (z3 sequences), totals are unbounded ints / reals; dictionaries have concrete key sets (enumerated "
        "shapes). Postcondition = the tracker state equals the fold of an independently written specification of `update` over the "
        "list of updates the property prescribes; the wrapped device method is an uninterpreted function (logged: exactly one call, "
        "same arguments, result returned unchanged); inactive tracker => state unchanged and no callback. Batches: concrete sizes "
        "0..3 with symbolic contents (size-bounded cases) AND batches of symbolic length: the loops of execute / execute_and_compute_* are "
        "cut by invariants over recursively defined spec functions (prefix maps / prefix sums, used only through instances of their "
        "defining equations at the loop index); dictionary shapes that change inside a loop are covered by a havoc that forks over "
        "the shapes the invariant allows. compute_derivatives / compute_jvp / compute_vjp have no loop and are proved for any batch length.")
    plan.trusted_base = ["vf/pyvc encoder (Python subset semantics: dicts with concrete keys, lists, closures' free variables bound to models)",
                         "z3 sequence + linear arithmetic theories",
                         "the specification of update()/numeric in this file (SpecState.update / native_apply): append, add-if-Number, latest := kwargs",
                         "the recursive definitions of the spec functions ones / E / S / R / P / sumE / sumS / any (spec_defs): they ARE the meaning of "
                         "'one entry per circuit in batch order' for symbolic-length batches; the loop-cut rule (init, preservation, use) of the engine"]
    plan.assumptions = [
        "A-float-as-real for float-valued tracker entries (totals of floats are exact reals in the proof; the replay uses binary64)",
        "A-homogeneous-history: in the symbolic model the EARLIER entries of history[k] have the type category (int/bool/float/None/object) "
        "of the value being appended (the code never inspects earlier entries)",
        "A-wrapped-method-pure-wrt-tracker: the undecorated device method does not itself touch device.tracker and returns one result per "
        "circuit (Device.execute contract); it is otherwise arbitrary (uninterpreted)",
        "A-circuit-abstraction: a circuit is used by the wrappers only through isinstance(., QuantumScript), truthiness of .shots, "
        ".specs['resources'] and get_num_shots_and_executions(.): modelled as a record of those abstract values",
        "A-callback-arbitrary: the user callback is an uninterpreted function that does not modify the tracker",
    ]
    plan.dropped = ["docstrings, annotations, functools.wraps decoration of the closures (metadata only), Tracker.__repr__"]

    # =====================================================================================================================
    # worlds
    TRACKER_FIELDS = {"persistent": Bool, "active": Bool, "callback": NoneT, "totals": NoneT, "history": NoneT, "latest": NoneT}
    STUB_DEV = "class Dev:\n    pass\n\nclass BareDev:\n    pass\n"

    def b_hasattr(it, args, kw):
        o, name = args
        if isinstance(o, Rec):
            return name in o.f or name in o.cls.methods or name in o.cls.props
        raise Exception("hasattr model: not a record")

    w_t = World(TR, classes={"Tracker": dict(TRACKER_FIELDS)},
                stubs={"Dev": (STUB_DEV, {"tracker": NoneT}), "BareDev": (STUB_DEV, {})},
                extra_builtins={"user_callback": cb_model, "hasattr": b_hasattr})

    # a circuit's len() is the number of its operations and measurements: a symbolic integer >= 0, in general != 1 -- a wrapper that
    # counts len(circuits) without normalising a bare circuit to a one-element batch records that number
    STUB_QS = ("class QuantumScript:\n"
               "    @property\n"
               "    def specs(self):\n"
               "        return {'resources': self.res}\n"
               "\n"
               "    def __len__(self):\n"
               "        return self.nlen\n")
    QS_FIELDS = {"ident": Label, "shots": Bool, "res": Label, "nexec": Int, "nshots": Int, "nlen": Int}
    STUB_DEVICE = "class Device:\n    pass\n"

    def untracked(it, args, kw):
        """the undecorated device method: uninterpreted -- logs the call, returns the device's abstract result"""
        dev = args[0]
        if not isinstance(dev, Rec) or "__log" not in dev.f:
            raise Exception("untracked-method model: first argument is not the device")
        dev.f["__log"].append((tuple(args), dict(kw)))
        return dev.f["ret"]

    WRAPPED = ["untracked_execute", "untracked_compute_derivatives", "untracked_execute_and_compute_derivatives", "untracked_compute_jvp",
               "untracked_execute_and_compute_jvp", "untracked_compute_vjp", "untracked_execute_and_compute_vjp"]
    holder_s = {}

    def cb_model_s(it, args, kw):
        """the user's callback inside the wrappers: logged, and counted in a ghost field of the device's tracker (a counter can be
        carried through a loop cut, a python list of calls cannot)"""
        cb_model(it, args, kw)
        tr = holder_s["dev"].f["tracker"]
        tr.f["__cbcount"] = tr.f.get("__cbcount", 0) + 1
        return None

    xb = {"user_callback": cb_model_s, "get_num_shots_and_executions": lambda it, a, k: (a[0].f["nexec"], a[0].f["nshots"])}
    for nm in WRAPPED:
        xb[nm] = untracked
    w_s = World(ST, classes={"Tracker": (TR, dict(TRACKER_FIELDS))},
                stubs={"QuantumScript": (STUB_QS, QS_FIELDS), "Device": (STUB_DEVICE, {"tracker": RecT("Tracker"), "ret": Label})},
                extra_builtins=xb)
    QS = RecT("QuantumScript")

    # =====================================================================================================================
    # symbolic trackers
    def tracker_t(world, hist, totals, latest, active=None, persistent=None, callback=True):
        """hist: {key: kind | ('none', n)}, totals: {key: 'int'|'float'}, latest: {key: kind}"""
        ci = world.classes["Tracker"]

        def mk(ctx, name):
            h = SnapDict()
            for k, kd in hist.items():
                if isinstance(kd, tuple):
                    h[k] = PyList([None] * kd[1])
                else:
                    h[k] = fresh(ctx, SeqT(ELEM[kd]), f"{name}.history[{k}]")
            return Rec(ci, {
                "persistent": fresh(ctx, Bool, name + ".persistent") if persistent is None else persistent,
                "active": fresh(ctx, Bool, name + ".active") if active is None else active,
                "callback": CB if callback else None,
                "totals": SnapDict({k: fresh(ctx, Float if kd == "float" else Int, f"{name}.totals[{k}]") for k, kd in totals.items()}),
                "history": h,
                "latest": SnapDict({k: fresh(ctx, VALT[kd], f"{name}.latest[{k}]") for k, kd in latest.items()}),
                "__ctx": ctx, "__cbcount": 0})

        def gen(rng):
            def val(kd):
                return {"int": rng.randint(-3, 9), "bool": rng.random() < 0.5, "float": rng.choice([0.5, 1.25, -2.0, 3.0]),
                        "obj": f"L{rng.randint(0, 9)}", "none": None}[kd]
            return {"__class__": "Tracker", "persistent": rng.random() < 0.5 if persistent is None else persistent,
                    "active": rng.random() < 0.5 if active is None else active, "callback": "CB" if callback else None,
                    "totals": {"__map__": [[k, val(kd)] for k, kd in totals.items()]},
                    "history": {"__map__": [[k, [None] * kd[1] if isinstance(kd, tuple) else [val(kd) for _ in range(rng.randint(0, 3))]]
                                            for k, kd in hist.items()]},
                    "latest": {"__map__": [[k, val(kd)] for k, kd in latest.items()]}}
        return T("build", mk, gen=gen)

    # ---- replay: model data -> real objects -------------------------------------------------------------------------------
    def fix_model(rng, m, tuple_params=()):
        def fix(d, key=None):
            if isinstance(d, dict) and "__classref__" in d:
                return "CB"
            if isinstance(d, dict):
                return {k: fix(v, k) for k, v in d.items()}
            if isinstance(d, list):
                return [fix(x) for x in d]
            if isinstance(d, tuple):
                return tuple(fix(x) for x in d)
            if isinstance(d, str) and key != "__class__" and d and (d[0].isdigit() or d[0] == "-") and d.replace("/", "").replace("-", "").replace(".", "").isdigit():
                return float(Fraction(d))           # real-valued sequence entries are rendered as strings by the model reader
            return d
        out = {k: fix(v) for k, v in m.items()}
        for p in tuple_params:
            if isinstance(out.get(p), list):
                out[p] = tuple(out[p])
        return out

    def real_tracker(f):
        from pennylane.devices.tracker import Tracker
        t = object.__new__(Tracker)
        t.persistent, t.active = f.get("persistent", False), f.get("active", False)
        t.totals, t.history, t.latest = dict(f.get("totals") or {}), {k: list(v) for k, v in (f.get("history") or {}).items()}, dict(f.get("latest") or {})
        t._cblog = []
        if f.get("callback") == "CB":
            def recorder(*a, _t=t, **kw):
                _t._cblog.append((a, kw))
            t.callback = recorder
        else:
            t.callback = None
        return t

    class FakeDev:
        def __init__(self, tracker, ret):
            self.tracker, self._ret, self._log = tracker, ret, []

        def __deepcopy__(self, memo):
            import copy
            return FakeDev(copy.deepcopy(self.tracker, memo), self._ret)

    def real_circuit(f):
        """a REAL QuantumScript with len(.) == the model's number of operations and measurements, finite shots iff the model's flag is
        set; the abstract per-circuit executions / shots of the model ride along as attributes (read by the harness' stand-in for
        get_num_shots_and_executions)"""
        import pennylane as qp
        n = max(0, int(f.get("nlen") or 0))
        meas = [qp.expval(qp.Z(0))] if n >= 1 else []
        ops = [qp.RX(0.1 * (j + 1), wires=j % 2) for j in range(n - len(meas))]
        c = qp.tape.QuantumScript(ops, meas, shots=(10 if f.get("shots") else None))
        c._nexec, c._nshots, c._ident = f.get("nexec"), f.get("nshots"), f.get("ident")
        return c

    w_t.stub_realize = {"Tracker": real_tracker}
    w_s.stub_realize = {"Tracker": real_tracker, "QuantumScript": real_circuit,
                        "Device": lambda f: FakeDev(f.get("tracker"), f.get("ret"))}

    contracts = []

    # =====================================================================================================================
    # Tracker.update
    def upd_case(label, keys, other=True, size_bounded=True):
        """keys: list of (name, kind, history present?, totals present? ('int'/'float'/None))"""
        hist, tot = {}, {}
        for nm, kd, hp, tp in keys:
            if hp:
                hist[nm] = ("none", 2) if kd == "none" else kd
            if tp:
                tot[nm] = tp
        if other:
            hist["zz_other"], tot["zz_other"] = "int", "int"
        params = {"self": tracker_t(w_t, hist, tot, {"zz_prev": "int"})}
        km = {}
        for nm, kd, _, _ in keys:
            params["v_" + nm] = VALT[kd]
            km[nm] = "v_" + nm

        def ens(o, r, n):
            ups = [[(nm, getattr(o, "v_" + nm), True) for nm, _, _, _ in keys]]
            return And(r is None, state_after(o.self, n.self, ups), flags_same(o.self, n.self), len(cblog(n.self)) == 0)
        return Case(label, params, kwargs_map=km, ensures=ens, size_bounded=size_bounded, native_gen=fix_model,
                    native_call=lambda mod, a: mod.Tracker.update(a["self"], **{k: a[p] for k, p in km.items()}))

    ucases = [upd_case("no-keywords", [])]
    for kd in ("int", "bool", "float", "none", "obj"):
        tps = [None, "int"] if kd in ("none", "obj", "bool") else ([None, "int"] if kd == "int" else [None, "float", "int"])
        for hp in (False, True):
            for tp in tps:
                ucases.append(upd_case(f"1key-{kd}-hist{'P' if hp else 'A'}-tot{tp or 'A'}", [("a", kd, hp, tp)]))
    two = [(("a", "int", True, "int"), ("b", "int", False, None)), (("a", "int", False, None), ("b", "obj", True, None)),
           (("a", "float", True, "float"), ("b", "none", True, None)), (("a", "bool", False, None), ("b", "int", True, "int")),
           (("a", "obj", False, None), ("b", "none", False, None)), (("a", "int", True, None), ("b", "float", False, "int"))]
    for ka, kb in two:
        ucases.append(upd_case(f"2keys-{ka[1]}{'P' if ka[2] else 'A'}{ka[3] or 'A'}-{kb[1]}{'P' if kb[2] else 'A'}{kb[3] or 'A'}", [ka, kb]))
    ucases.append(upd_case("3keys-int-obj-float", [("a", "int", True, "int"), ("b", "obj", False, None), ("c", "float", False, None)]))
    ucases.append(upd_case("5keys-execute-shaped", [("simulations", "int", True, "int"), ("executions", "int", True, "int"),
                                                    ("results", "float", True, "float"), ("shots", "int", False, None),
                                                    ("resources", "obj", True, None)]))
    contracts.append(FnContract(w_t, "Tracker.update", ucases))
    plan.size_bounds.append("Tracker.update: keyword sets of 0, 1 (all value categories x key present/absent in history/totals), 2 (6 mixed "
                            "configurations), 3 and 5 keys; values, earlier history (symbolic length) and totals unbounded")

    # ---- reset / __enter__ / __exit__ / record / __init__ ---------------------------------------------------------------------
    FULL = dict(hist={"batches": "int", "results": "float", "resources": "obj"}, totals={"batches": "int", "results": "float"},
                latest={"results": "float", "resources": "obj"})
    EMPTY = dict(hist={}, totals={}, latest={})

    def dicts_empty(tr):
        if is_sym(tr):
            return all(isinstance(tr.f[k], dict) and len(tr.f[k]) == 0 for k in ("totals", "history", "latest"))
        return tr.totals == {} and tr.history == {} and tr.latest == {}

    for shape_name, shape in (("populated", FULL), ("empty", EMPTY)):
        contracts.append(FnContract(w_t, "Tracker.reset", [
            Case(shape_name, {"self": tracker_t(w_t, **shape)}, native_gen=fix_model,
                 ensures=lambda o, r, n: And(r is None, dicts_empty(n.self), flags_same(o.self, n.self), len(cblog(n.self)) == 0))]))
        contracts.append(FnContract(w_t, "Tracker.__enter__", [
            Case(shape_name, {"self": tracker_t(w_t, **shape)}, native_gen=fix_model,
                 ensures=lambda o, r, n: And(r is n.self, flags_same(o.self, n.self, active=True), len(cblog(n.self)) == 0,
                                             Or(And(o.self.persistent, state_after(o.self, n.self, [])),
                                                And(Not(o.self.persistent), dicts_empty(n.self)))))]))
        contracts.append(FnContract(w_t, "Tracker.__exit__", [
            Case(shape_name, {"self": tracker_t(w_t, **shape), "exc_type": NoneT, "exc_value": NoneT, "exc_traceback": NoneT},
                 native_gen=fix_model,
                 ensures=lambda o, r, n: And(flags_same(o.self, n.self, active=False), state_after(o.self, n.self, []),
                                             len(cblog(n.self)) == 0)),
            Case(shape_name + "-exception-in-flight", {"self": tracker_t(w_t, **shape), "exc_type": Label, "exc_value": Label, "exc_traceback": Label},
                 native_gen=fix_model,
                 ensures=lambda o, r, n: And(Not(r) if not isinstance(r, z3.ExprRef) else False,      # never swallows the exception
                                             flags_same(o.self, n.self, active=False), state_after(o.self, n.self, []),
                                             len(cblog(n.self)) == 0))]))

        def rec_ens(o, r, n):
            log = cblog(n.self)
            if len(log) != 1:
                return False
            a, kw = log[0]
            tr = n.self
            d = (tr.f if is_sym(tr) else vars(tr))
            return And(r is None, len(a) == 0, set(kw) == {"totals", "history", "latest"}, kw.get("totals") is d["totals"],
                       kw.get("history") is d["history"], kw.get("latest") is d["latest"],
                       state_after(o.self, n.self, []), flags_same(o.self, n.self))
        contracts.append(FnContract(w_t, "Tracker.record", [
            Case(shape_name + "-with-callback", {"self": tracker_t(w_t, **shape)}, ensures=rec_ens, native_gen=fix_model),
            Case(shape_name + "-no-callback", {"self": tracker_t(w_t, callback=False, **shape)}, native_gen=fix_model,
                 ensures=lambda o, r, n: And(r is None, state_after(o.self, n.self, []), flags_same(o.self, n.self),
                                             len(cblog(n.self)) == 0))]))

    def init_ens(dev_kind):
        def ens(o, r, n):
            tr = n.self
            if is_sym(tr):
                ok = And(veq(tr.f["persistent"], o.persistent), tr.f["callback"] is o.callback, tr.f["active"] is False, dicts_empty(tr))
                return And(ok, n.dev.f["tracker"] is tr) if dev_kind == "dev" else ok
            ok = tr.persistent == o.persistent and tr.active is False and dicts_empty(tr) and \
                ((tr.callback is None) == (o.callback is None))
            return ok and (n.dev.tracker is tr if dev_kind == "dev" else True)
        return ens

    def bare_tracker(ctx, name):
        return Rec(w_t.classes["Tracker"], {"__ctx": ctx})

    def call_init(mod, a):
        t = object.__new__(mod.Tracker)
        a["self"] = t
        mod.Tracker.__init__(t, a["dev"], None if a["callback"] is None else (lambda **kw: None), a["persistent"])
        return None

    class _Dev:
        tracker = None

    class _Bare:
        short_name = "bare"
    w_t.stub_realize.update({"Dev": lambda f: _Dev(), "BareDev": lambda f: _Bare()})
    BARE = T("build", bare_tracker, gen=lambda rng: {"__class__": "Tracker"})
    for cbn, cbt in (("callback", T("const", CB)), ("no-callback", NoneT)):
        contracts.append(FnContract(w_t, "Tracker.__init__", [
            Case(f"dev-None-{cbn}", {"self": BARE, "dev": NoneT, "callback": cbt, "persistent": Bool}, ensures=init_ens("none"),
                 native_gen=fix_model, native_call=call_init),
            Case(f"dev-with-tracker-{cbn}", {"self": BARE, "dev": RecT("Dev"), "callback": cbt, "persistent": Bool}, ensures=init_ens("dev"),
                 native_gen=fix_model, native_call=call_init),
            Case(f"dev-without-tracker-{cbn}", {"self": BARE, "dev": RecT("BareDev"), "callback": cbt, "persistent": Bool},
                 ensures=lambda o, r, n: False, raises={"ValueError": lambda o: True}, native_gen=fix_model, native_call=call_init)]))

    # =====================================================================================================================
    # the wrappers
    STEADY_H = {"batches": "int", "simulations": "int", "executions": "int", "shots": "int", "results": "obj", "resources": "obj",
                "derivative_batches": "int", "derivatives": "int", "execute_and_derivative_batches": "int", "jvp_batches": "int",
                "jvps": "int", "execute_and_jvp_batches": "int", "vjp_batches": "int", "vjps": "int", "execute_and_vjp_batches": "int",
                "zz_other": "obj"}

    def tr_shape(name, results_kind="obj"):
        if name == "fresh":
            return dict(hist={}, totals={}, latest={})
        h = dict(STEADY_H, results=results_kind)
        if name == "noshots":
            h.pop("shots")
        t = {k: "int" for k, kd in h.items() if kd == "int"}
        if results_kind == "float":
            t["results"] = "float"
        t["zz_other"] = "int"
        return dict(hist=h, totals=t, latest={"simulations": "int", "executions": "int", "results": results_kind, "resources": "obj"})

    def device_t(shape, ret_mk, ret_gen):
        tt = tracker_t(w_s, **shape)
        ci = w_s.classes["Device"]

        def mk(ctx, name):
            dev = Rec(ci, {"tracker": tt.args[0](ctx, name + ".tracker"), "ret": ret_mk(ctx), "__log": []})
            holder_s["dev"] = dev
            return dev

        def gen(rng):
            return {"__class__": "Device", "tracker": tt.kw["gen"](rng), "ret": ret_gen(rng)}
        return T("build", mk, gen=gen)

    def lab(ctx, nm):
        return z3.Const(ctx.fresh_name(nm), LabelSort)

    def ret_one(kind):
        if kind == "float":
            return (lambda ctx: fresh(ctx, Float, "ret")), (lambda rng: rng.choice([0.5, -1.25, 2.0]))
        return (lambda ctx: lab(ctx, "ret")), (lambda rng: f"L{rng.randint(20, 40)}")

    def ret_many(kind, n):
        one, g1 = ret_one(kind)
        return (lambda ctx: tuple(one(ctx) for _ in range(n))), (lambda rng: tuple(g1(rng) for _ in range(n)))

    def tr_of(dev):
        return dev.f["tracker"] if is_sym(dev) else dev.tracker

    def log_of(dev):
        return dev.f["__log"] if is_sym(dev) else dev._log

    def ret_of(dev):
        return dev.f["ret"] if is_sym(dev) else dev._ret

    def cbcount(tr):
        """number of callback invocations (record() calls with a callback installed)"""
        return tr.f["__cbcount"] if is_sym(tr) else len(tr._cblog)

    def circuits_list(c):
        """python list of the circuits of a concrete-shape argument (single circuit / tuple / list)"""
        if isinstance(c, Rec) or type(c).__name__ == "QuantumScript":
            return [c]
        return list(c.items) if isinstance(c, PyList) else list(c)

    def cE(c):
        return c.f["nexec"] if is_sym(c) else c._nexec

    def cS(c):
        return c.f["nshots"] if is_sym(c) else c._nshots

    def cOn(c):
        return c.f["shots"] if is_sym(c) else bool(c.shots)

    def cRes(c):
        return c.f["res"] if is_sym(c) else c.specs["resources"]

    def called_once(o, n, names):
        """the wrapped method was called exactly once with (self, <the wrapper's arguments in order>) and no keyword"""
        log = log_of(n.self)
        if len(log) != 1:
            return False
        a, kw = log[0]
        if len(kw) != 0 or len(a) != 1 + len(names):
            return False
        return And(a[0] is n.self, *[same(a[1 + i], getattr(n, p)) for i, p in enumerate(names)])

    def wrapper_post(o, r, n, names, updates, n_records):
        """common postcondition of the seven wrappers"""
        otr, ntr = tr_of(o.self), tr_of(n.self)
        act = otr.f["active"] if is_sym(otr) else otr.active
        ncb = cbcount(ntr)
        return And(same(r, ret_of(n.self)), called_once(o, n, names), flags_same(otr, ntr),
                   Implies(act, And(state_after(otr, ntr, updates), veq(ncb, n_records))),
                   Implies(Not(act), And(state_after(otr, ntr, []), veq(ncb, 0))))

    def native_wrapper(outer, names):
        def call(mod, a):
            def untracked_method(self, *args, **kw):
                self._log.append(((self,) + args, kw))
                return self._ret
            wrapped = getattr(mod, outer)(untracked_method)
            saved = mod.get_num_shots_and_executions
            mod.get_num_shots_and_executions = lambda c: (c._nexec, c._nshots)     # the abstract per-circuit quantities of the model
            try:
                return wrapped(a["self"], *[a[p] for p in names])
            finally:
                mod.get_num_shots_and_executions = saved
        return call

    def circ_t(shape):
        """shape: 'single' | ('tuple', n) | ('list', n) | 'seq'"""
        if shape == "single":
            return T("rec", "QuantumScript", where=lambda v: v.f["nlen"] >= 0)
        if shape == "seq":
            return SeqT(QS, tuple=True)
        return TupleT(*[QS] * shape[1]) if shape[0] == "tuple" else ListT(QS, shape[1])

    def shape_name(shape):
        return shape if isinstance(shape, str) else f"{shape[0]}{shape[1]}"

    def n_of(o):
        """number of circuits of the call (symbolic for symbolic-length batches)"""
        c = o.circuits
        if isinstance(c, SeqV):
            return z3.Length(c.term)
        return len(circuits_list(c))

    # ---- execute -------------------------------------------------------------------------------------------------------------
    def exec_updates(o, ret):
        cs = circuits_list(o.circuits)
        single = isinstance(o.circuits, Rec) or type(o.circuits).__name__ == "QuantumScript"
        rs = [ret] if single else list(ret)
        ups = [[("batches", 1, True)]]
        for c, r_ in zip(cs, rs):
            ups.append([("simulations", 1, True), ("executions", cE(c), True), ("results", r_, True), ("shots", cS(c), cOn(c)),
                        ("resources", cRes(c), True)])
        return ups

    NM2 = ("circuits", "execution_config")
    ecases = []
    MAXB = 3 if tier == "quick" else 4
    shapes = ["single"] + [("tuple", k) for k in range(MAXB + 1)] + [("list", 2)]
    for shape in shapes:
        k = 1 if shape == "single" else shape[1]
        for trn, rk in (("fresh", "obj"), ("steady", "obj"), ("noshots", "obj"), ("steady", "float"), ("fresh", "float")):
            if rk == "float" and shape not in ("single", ("tuple", 2)):
                continue
            rm, rg = ret_one(rk) if shape == "single" else ret_many(rk, k)
            ecases.append(Case(f"{shape_name(shape)}-tracker-{trn}-results-{rk}",
                               {"self": device_t(tr_shape(trn, rk), rm, rg), "circuits": circ_t(shape), "execution_config": Label},
                               ensures=lambda o, r, n, k=k: wrapper_post(o, r, n, NM2, exec_updates(o, ret_of(n.self)), 1 + k),
                               size_bounded=True, native_gen=fix_model, native_call=native_wrapper("_track_execute", NM2), max_paths=800))
    contracts.append(FnContract(w_s, "_track_execute.<locals>.execute", ecases))
    plan.size_bounds.append(f"_track_execute: a single circuit, tuples of 0..{MAXB} circuits and a list of 2 circuits (every circuit's "
                            "executions / shots / shots-flag / resources / result symbolic), tracker key sets: fresh (empty), steady "
                            "(all keys present), steady without 'shots'; earlier history of symbolic length")

    # ---- wrappers without a loop: any batch length (symbolic) ----------------------------------------------------------------
    def simple_updates(batch_key, count_key):
        def ups(o):
            single = isinstance(o.circuits, Rec) or type(o.circuits).__name__ == "QuantumScript"
            cnt = 1 if single else n_of(o)
            return [[(batch_key, 1, True), (count_key, cnt, True)]]
        return ups

    one_m, one_g = ret_one("obj")
    for outer, inner, names, bk, ck in (
            ("_track_compute_derivatives", "compute_derivatives", NM2, "derivative_batches", "derivatives"),
            ("_track_compute_jvp", "compute_jvp", ("circuits", "tangents", "execution_config"), "jvp_batches", "jvps"),
            ("_track_compute_vjp", "compute_vjp", ("circuits", "cotangents", "execution_config"), "vjp_batches", "vjps")):
        cases = []
        ups = simple_updates(bk, ck)
        for shape in ("single", "seq", ("tuple", 0), ("list", 2)):
            for trn in ("fresh", "steady"):
                params = {"self": device_t(tr_shape(trn), one_m, one_g), "circuits": circ_t(shape)}
                for p in names[1:]:
                    params[p] = Label
                cases.append(Case(f"{shape_name(shape)}-tracker-{trn}", params,
                                  ensures=lambda o, r, n, names=names, ups=ups: wrapper_post(o, r, n, names, ups(o), 1),
                                  native_gen=lambda rng, m: fix_model(rng, m, ("circuits",)) if True else m,
                                  native_call=native_wrapper(outer, names)))
        contracts.append(FnContract(w_s, f"{outer}.<locals>.{inner}", cases))

    # ---- execute_and_compute_*: a loop over the batch (resources), then one summary update -----------------------------------
    def loop_updates(batch_key, count_key):
        def ups(o):
            cs = circuits_list(o.circuits)
            return [[("resources", cRes(c), True)] for c in cs] + [[(batch_key, 1, True), ("executions", len(cs), True), (count_key, len(cs), True)]]
        return ups

    for outer, inner, names, bk, ck in (
            ("_track_execute_and_compute_derivatives", "execute_and_compute_derivatives", NM2, "execute_and_derivative_batches", "derivatives"),
            ("_track_execute_and_compute_jvp", "execute_and_compute_jvp", ("circuits", "tangents", "execution_config"), "execute_and_jvp_batches", "jvps"),
            ("_track_execute_and_compute_vjp", "execute_and_compute_vjp", ("circuits", "cotangents", "execution_config"), "execute_and_vjp_batches", "vjps")):
        cases = []
        ups = loop_updates(bk, ck)
        for shape in shapes:
            for trn in ("fresh", "steady"):
                params = {"self": device_t(tr_shape(trn), one_m, one_g), "circuits": circ_t(shape)}
                for p in names[1:]:
                    params[p] = Label
                cases.append(Case(f"{shape_name(shape)}-tracker-{trn}", params,
                                  ensures=lambda o, r, n, names=names, ups=ups: wrapper_post(o, r, n, names, ups(o), 1),
                                  size_bounded=True, native_gen=fix_model, native_call=native_wrapper(outer, names)))
        contracts.append(FnContract(w_s, f"{outer}.<locals>.{inner}", cases))
    plan.size_bounds.append(f"_track_execute_and_compute_{{derivatives,jvp,vjp}}: single circuit, tuples of 0..{MAXB} circuits, list of 2 "
                            "(size-bounded cases); NOT size-bounded: batches of any length for _track_compute_{derivatives,jvp,vjp} (all tracker "
                            "shapes), for _track_execute (tracker key sets fresh / steady / steady-without-shots, opaque results) and for "
                            "_track_execute_and_compute_* (fresh / steady); float-valued results and list-typed batches only in the size-bounded cases")

    # =====================================================================================================================
    # batches of ANY length through the loops of execute / execute_and_compute_*: loop invariants over spec functions.
    # Spec functions (uninterpreted; only instances of their defining equations are assumed, at the loop index):
    #   ones(i) = [1]*i;  E(b,i) = [nexec(c) for c in b[:i]];  S(b,i) = [nshots(c) for c in b[:i] if c.shots];  R(b,i) = [res(c) for c in b[:i]]
    #   P(r,i) = r[:i];  sumE(b,i) = sum(E(b,i));  sumS(b,i) = sum(S(b,i));  any(b,i) = any(c.shots for c in b[:i])
    # Dictionary SHAPES change inside the loops (`latest` is replaced by every update, keys are created by the first iteration): the havoc
    # of the loop cut FORKS over the finitely many shapes the invariant allows (entry shape with i == 0 / shapes after an iteration), so the
    # cut covers every reachable state; a key that is still absent is specified as "nothing appended yet".
    QSs = w_s.sort_of(QS)
    SQ, ISs, LSs = z3.SeqSort(QSs), z3.SeqSort(z3.IntSort()), z3.SeqSort(LabelSort)
    fidx = {f_: k_ for k_, f_ in enumerate(QS_FIELDS)}

    def qf(term, field):
        return QSs.accessor(0, fidx[field])(term)
    PAIR = TupleT(Label, QS)
    PS = w_s.sort_of(PAIR)
    mkp = PS.constructor(0)
    I_ = z3.IntSort()
    ONES = z3.Function("ones", I_, ISs)
    EXS, SHS, RES = z3.Function("E_prefix", SQ, I_, ISs), z3.Function("S_prefix", SQ, I_, ISs), z3.Function("R_prefix", SQ, I_, LSs)
    PRE = z3.Function("P_prefix", LSs, I_, LSs)
    SUME, SUMS = z3.Function("sumE_prefix", SQ, I_, I_), z3.Function("sumS_prefix", SQ, I_, I_)
    ANY = z3.Function("any_shots_prefix", SQ, I_, z3.BoolSort())

    def spec_defs(b, r, k):
        """instances of the defining equations at index k"""
        k = to_int_term(k)
        inb = z3.And(k >= 0, k < z3.Length(b))
        c = b[k]
        on = qf(c, "shots")
        out = [ONES(0) == z3.Empty(ISs), z3.Implies(k >= 0, ONES(k + 1) == z3.Concat(ONES(k), z3.Unit(z3.IntVal(1)))),
               EXS(b, 0) == z3.Empty(ISs), z3.Implies(inb, EXS(b, k + 1) == z3.Concat(EXS(b, k), z3.Unit(qf(c, "nexec")))),
               SHS(b, 0) == z3.Empty(ISs),
               z3.Implies(inb, SHS(b, k + 1) == z3.If(on, z3.Concat(SHS(b, k), z3.Unit(qf(c, "nshots"))), SHS(b, k))),
               RES(b, 0) == z3.Empty(LSs), z3.Implies(inb, RES(b, k + 1) == z3.Concat(RES(b, k), z3.Unit(qf(c, "res")))),
               SUME(b, 0) == 0, z3.Implies(inb, SUME(b, k + 1) == SUME(b, k) + qf(c, "nexec")),
               SUMS(b, 0) == 0, z3.Implies(inb, SUMS(b, k + 1) == SUMS(b, k) + z3.If(on, qf(c, "nshots"), 0)),
               z3.Not(ANY(b, 0)), z3.Implies(inb, ANY(b, k + 1) == z3.Or(ANY(b, k), on))]
        if r is not None:
            out += [PRE(r, 0) == z3.Empty(LSs), z3.Implies(z3.And(k >= 0, k < z3.Length(r)), PRE(r, k + 1) == z3.Concat(PRE(r, k), z3.Unit(r[k])))]
        return out

    def b_zip(it, args, kw):
        """zip(results, batch, strict=True) over two symbolic-length sequences: the sequence of pairs (element facts are supplied as
        instances at the loop index by the loop contract)"""
        if not any(isinstance(a, SeqV) for a in args):
            return it.b_zip(args, kw, None)
        if len(args) != 2 or not all(isinstance(a, SeqV) for a in args) or not kw.get("strict"):
            raise Unsupp("symbolic zip: only zip(a, b, strict=True) of two symbolic-length sequences is modelled")
        a, b = args
        if not it.ctx.branch(z3.Length(a.term) == z3.Length(b.term)):
            raise RaiseExc("ValueError")
        z = z3.Const(it.ctx.fresh_name("zipped"), z3.SeqSort(PS))
        it.ctx.assume(z3.Length(z) == z3.Length(a.term))
        it.ctx.ghost["zip"] = (z, a.term, b.term)
        it.ctx.havocked = True
        return SeqV(z, PAIR, False)
    w_s.extra_builtins["zip"] = b_zip

    def havoc_tracker(shapes):
        """a tracker whose dictionaries have one of the given shapes dict(hist, totals, latest) (the path forks over them)"""
        ci = w_s.classes["Tracker"]

        def mk(ctx, name):
            pick = len(shapes) - 1
            for j in range(len(shapes) - 1):
                if ctx.branch(z3.Bool(ctx.fresh_name(f"dict_shape_{j}"))):
                    pick = j
                    break
            sh = shapes[pick]
            return Rec(ci, {
                "persistent": fresh(ctx, Bool, name + ".persistent"), "active": fresh(ctx, Bool, name + ".active"), "callback": CB,
                "totals": SnapDict({k: fresh(ctx, Int, f"{name}.totals[{k}]") for k in sh["totals"]}),
                "history": SnapDict({k: fresh(ctx, SeqT(ELEM[kd]), f"{name}.history[{k}]") for k, kd in sh["hist"].items()}),
                "latest": SnapDict({k: fresh(ctx, VALT[kd], f"{name}.latest[{k}]") for k, kd in sh["latest"].items()}),
                "__ctx": ctx, "__cbcount": fresh(ctx, Int, name + ".cbcount")})
        return T("build", mk, gen=lambda rng: None)

    def as_seq_term(x, sort):
        """z3 sequence of a history list (symbolic-length value or a concrete list created on this path)"""
        if isinstance(x, SeqV):
            return x.term if x.term.sort() == sort else None
        if isinstance(x, PyList):
            try:
                items = [to_int_term(v) if sort == ISs else v for v in x.items]
                if not all(isinstance(v, z3.ExprRef) and z3.SeqSort(v.sort()) == sort for v in items):
                    return None
                return seq_of(items, sort.basis())
            except Unsupp:
                return None
        return None

    def frame(tr, T0, exp_h, exp_t):
        """tr is T0 with, for every key of exp_h, the sequence exp_h[key][0] appended to its history (exp_t: the amount added to its
        total); the second component is the condition under which at least one entry was appended -- a key T0 does not have exists in
        tr exactly under that condition (and nothing was appended otherwise); every other key and the flags are untouched"""
        H, H0, TT, TT0 = tr.f["history"], T0.f["history"], tr.f["totals"], T0.f["totals"]
        conj = [veq(tr.f["active"], T0.f["active"]), veq(tr.f["persistent"], T0.f["persistent"]), tr.f["callback"] is T0.f["callback"]]
        for k in list(dict.fromkeys(list(H0) + list(H) + list(exp_h))):
            add = exp_h.get(k)
            if k in H0:
                if k not in H:
                    return False
                t0 = as_seq_term(H0[k], H0[k].term.sort()) if isinstance(H0[k], SeqV) else None
                t1 = as_seq_term(H[k], t0.sort()) if t0 is not None else None
                if t0 is None or t1 is None:
                    return False
                conj.append(t1 == (z3.Concat(t0, add[0]) if add is not None else t0))
            elif add is None:
                return False                                   # a key appeared that nothing was to be recorded under
            elif k in H:
                t1 = as_seq_term(H[k], add[0].sort())
                if t1 is None:
                    return False
                conj += [add[1], t1 == add[0]]
            else:
                conj += [znot(add[1]), add[0] == z3.Empty(add[0].sort())]
        for k in list(dict.fromkeys(list(TT0) + list(TT) + list(exp_t))):
            add = exp_t.get(k)
            if k in TT0:
                if k not in TT:
                    return False
                conj.append(to_int_term(TT[k]) == (to_int_term(TT0[k]) + add[0] if add is not None else to_int_term(TT0[k])))
            elif add is None:
                return False
            elif k in TT:
                conj += [add[1], to_int_term(TT[k]) == add[0]]
            else:
                conj += [znot(add[1]), add[0] == 0]
        return And(*conj)

    def latest_is(tr, shapes):
        """shapes: list of (condition, {key: value}); the python-level key set selects the candidates"""
        lat = tr.f["latest"]
        alts = []
        for cond, d in shapes:
            if set(lat) == set(d):
                alts.append(And(cond, *[veq(lat[k], v) for k, v in d.items()]))
        return Or(*alts) if alts else False

    # ---- execute ---------------------------------------------------------------------------------------------------------------
    def exec_state(tr, T0, b, r, i):
        i = to_int_term(i)
        last = b[i - 1]
        some = i >= 1
        per_circuit = {"simulations": 1, "executions": qf(last, "nexec"), "results": r[i - 1], "resources": qf(last, "res")}
        return And(frame(tr, T0,
                         {"batches": (z3.Unit(z3.IntVal(1)), True), "simulations": (ONES(i), some), "executions": (EXS(b, i), some),
                          "results": (PRE(r, i), some), "resources": (RES(b, i), some), "shots": (SHS(b, i), ANY(b, i))},
                         {"batches": (z3.IntVal(1), True), "simulations": (i, some), "executions": (SUME(b, i), some), "shots": (SUMS(b, i), ANY(b, i))}),
                   veq(tr.f["__cbcount"], 1 + i),
                   latest_is(tr, [(i == 0, {"batches": 1}),
                                  (z3.And(some, z3.Not(qf(last, "shots"))), per_circuit),
                                  (z3.And(some, qf(last, "shots")), dict(per_circuit, shots=qf(last, "nshots")))]))

    def exec_inv(v):
        dev = v.self
        return And(len(dev.f["__log"]) == 1, exec_state(dev.f["tracker"], v.old.self.f["tracker"], v.batch.term, v.batch_results.term, v._i0))

    def loop_axioms(with_results):
        def ax(v):
            b = v.batch.term
            r = v.batch_results.term if with_results else None
            out = spec_defs(b, r, v._i0)
            zp = getattr(v.ghost, "zip", None)
            if zp is not None:
                z, a_, b_ = zp
                i = to_int_term(v._i0)
                out.append(z3.Implies(z3.And(i >= 0, i < z3.Length(z)), z[i] == mkp(a_[i], b_[i])))
            return out
        return ax

    PER = {"simulations": "int", "executions": "int", "results": "obj", "resources": "obj"}

    def exec_havoc(shape):
        h0, t0 = shape["hist"], shape["totals"]
        hA, tA = dict(h0, batches="int"), dict(t0, batches="int")
        hB, tB = dict(hA, **PER), dict(tA, simulations="int", executions="int")
        hS, tS = dict(hB, shots="int"), dict(tB, shots="int")
        shapes = [dict(hist=hA, totals=tA, latest={"batches": "int"}), dict(hist=hS, totals=tS, latest=dict(PER, shots="int")),
                  dict(hist=hS, totals=tS, latest=PER)]
        if "shots" not in h0:
            shapes.append(dict(hist=hB, totals=tB, latest=PER))
        return havoc_tracker(shapes)

    def exec_seq_ens(o, r, n):
        if not is_sym(o.self):
            return wrapper_post(o, r, n, NM2, exec_updates(o, ret_of(n.self)), 1 + len(o.circuits))
        otr, ntr = tr_of(o.self), tr_of(n.self)
        act = otr.f["active"]
        b, rr = o.circuits.term, ret_of(n.self).term
        return And(same(r, ret_of(n.self)), called_once(o, n, NM2),
                   Implies(act, exec_state(ntr, otr, b, rr, z3.Length(b))),
                   Implies(Not(act), And(state_after(otr, ntr, []), flags_same(otr, ntr), veq(cbcount(ntr), 0))))

    seq_ret = (lambda ctx: fresh(ctx, SeqT(Label, tuple=True), "ret")), (lambda rng: tuple(f"L{rng.randint(20, 40)}" for _ in range(2)))
    SEQ_SHAPES = ("fresh", "steady", "noshots")
    contracts.append(FnContract(w_s, "_track_execute.<locals>.execute", [
        Case(f"seq-tracker-{trn}-results-obj", {"self": device_t(tr_shape(trn), *seq_ret), "circuits": circ_t("seq"), "execution_config": Label},
             requires=lambda a: (z3.Length(ret_of(a.self).term) == z3.Length(a.circuits.term)) if is_sym(a.self) else len(ret_of(a.self)) == len(a.circuits),
             ensures=exec_seq_ens,
             loops={0: LoopSpec(exec_inv, types={"self.tracker": exec_havoc(tr_shape(trn))}, axioms=loop_axioms(True))},
             native_gen=lambda rng, m: fix_model(rng, m, ("circuits",)), native_call=native_wrapper("_track_execute", NM2), max_paths=800)
        for trn in SEQ_SHAPES]))

    # ---- execute_and_compute_{derivatives, jvp, vjp} ------------------------------------------------------------------------------
    def res_inv(v):
        dev = v.self
        T0 = v.old.self.f["tracker"]
        b = v.batch.term
        i = to_int_term(v._i0)
        tr = dev.f["tracker"]
        return And(len(dev.f["__log"]) == 0, frame(tr, T0, {"resources": (RES(b, i), i >= 1)}, {}), veq(tr.f["__cbcount"], 0),
                   latest_is(tr, [(i == 0, dict(T0.f["latest"])), (i >= 1, {"resources": qf(b[i - 1], "res")})]))

    def res_havoc(shape):
        return havoc_tracker([shape, dict(hist=dict(shape["hist"], resources="obj"), totals=shape["totals"], latest={"resources": "obj"})])

    for outer, inner, names, bk, ck in (
            ("_track_execute_and_compute_derivatives", "execute_and_compute_derivatives", NM2, "execute_and_derivative_batches", "derivatives"),
            ("_track_execute_and_compute_jvp", "execute_and_compute_jvp", ("circuits", "tangents", "execution_config"), "execute_and_jvp_batches", "jvps"),
            ("_track_execute_and_compute_vjp", "execute_and_compute_vjp", ("circuits", "cotangents", "execution_config"), "execute_and_vjp_batches", "vjps")):
        def ens(o, r, n, names=names, bk=bk, ck=ck):
            if not is_sym(o.self):
                return wrapper_post(o, r, n, names, loop_updates(bk, ck)(o), 1)
            otr, ntr = tr_of(o.self), tr_of(n.self)
            act = otr.f["active"]
            b = o.circuits.term
            nn = z3.Length(b)
            return And(same(r, ret_of(n.self)), called_once(o, n, names),
                       Implies(act, And(frame(ntr, otr, {"resources": (RES(b, nn), nn >= 1), bk: (z3.Unit(z3.IntVal(1)), True),
                                                         "executions": (z3.Unit(nn), True), ck: (z3.Unit(nn), True)},
                                              {bk: (z3.IntVal(1), True), "executions": (nn, True), ck: (nn, True)}),
                                        veq(cbcount(ntr), 1), latest_is(ntr, [(True, {bk: 1, "executions": nn, ck: nn})]))),
                       Implies(Not(act), And(state_after(otr, ntr, []), flags_same(otr, ntr), veq(cbcount(ntr), 0))))
        cases = []
        for trn in ("fresh", "steady"):
            params = {"self": device_t(tr_shape(trn), one_m, one_g), "circuits": circ_t("seq")}
            for p in names[1:]:
                params[p] = Label
            cases.append(Case(f"seq-tracker-{trn}", params, ensures=ens,
                              loops={0: LoopSpec(res_inv, types={"self.tracker": res_havoc(tr_shape(trn))}, axioms=loop_axioms(False))},
                              native_gen=lambda rng, m: fix_model(rng, m, ("circuits",)), native_call=native_wrapper(outer, names)))
        contracts.append(FnContract(w_s, f"{outer}.<locals>.{inner}", cases))

    # =====================================================================================================================
    # simulator_tracking: the class decorator wires every overridden entry point to ITS wrapper
    NAMES = ["compute_derivatives", "execute_and_compute_derivatives", "compute_jvp", "execute_and_compute_jvp", "compute_vjp",
             "execute_and_compute_vjp"]
    holder = {}

    def b_getattr(it, args, kw):
        o, name = args[0], args[1]
        if isinstance(o, FuncRef) and o.name == "Device":
            return holder["cls"].f["__dev_" + name]          # the base class' default implementation (an abstract identity)
        if isinstance(o, Rec) and name in o.f:
            return o.f[name]
        raise Exception(f"getattr model: {o!r}.{name}")

    def b_setattr(it, args, kw):
        o, name, v = args
        o.f[name] = v
        return None

    def mk_modifier(nm):
        return lambda it, a, k: ("wrapped", nm, a[0])

    xb_d = {"Device": lambda it, a, k: None, "getattr": b_getattr, "setattr": b_setattr, "hasattr": b_hasattr,
            "issubclass": lambda it, a, k: a[0].f["__is_device"]}
    for nm in ["_track_execute"] + ["_track_" + n_ for n_ in NAMES]:
        xb_d[nm] = mk_modifier(nm)
    w_d = World(ST, stubs={"DevClass": ("class DevClass:\n    pass\n", {})}, extra_builtins=xb_d)

    def devclass_t(is_device, has_mods):
        def mk(ctx, name):
            f = {"execute": lab(ctx, "cls.execute"), "__is_device": is_device}
            for nm in NAMES:
                f[nm] = lab(ctx, "cls." + nm)
                f["__dev_" + nm] = lab(ctx, "Device." + nm)
            if has_mods:
                f["_applied_modifiers"] = PyList([lab(ctx, "earlier_modifier")])
            r = Rec(w_d.classes["DevClass"], f)
            holder["cls"] = r
            return r

        def gen(rng):
            d = {"__class__": "DevClass", "execute": "L0", "__is_device": is_device}
            for i, nm in enumerate(NAMES):
                d["__dev_" + nm] = f"L{10 + i}"
                d[nm] = rng.choice([f"L{10 + i}", f"L{20 + i}"])
            if has_mods:
                d["_applied_modifiers"] = ["L99"]
            return d
        return T("build", mk, gen=gen)

    def real_devclass(f):
        from pennylane.devices import Device

        ns = {"execute": lambda self, circuits, execution_config=None: 0}
        for nm in NAMES:
            if f.get(nm) != f.get("__dev_" + nm):
                ns[nm] = (lambda nm: (lambda self, *a, **k: nm))(nm)
        base = Device if f.get("__is_device") else object
        cls = type("ModelDevice", (base,), ns)
        if "_applied_modifiers" in f:
            cls._applied_modifiers = ["earlier"]
        cls._orig = {nm: getattr(cls, nm, None) for nm in ["execute"] + NAMES}
        cls._orig_mods = list(getattr(cls, "_applied_modifiers", []))
        return cls
    w_d.stub_realize = {"DevClass": real_devclass}

    def deco_ens(o, r, n):
        c0, c1 = o.cls, n.cls
        if is_sym(c1):
            def wrapped(v, nm, orig):
                return isinstance(v, tuple) and len(v) == 3 and v[0] == "wrapped" and v[1] == nm and v[2] is orig
            out = [r is c1, wrapped(c1.f["execute"], "_track_execute", c0.f["execute"])]
            for nm in NAMES:
                over = c0.f[nm] != c0.f["__dev_" + nm]
                out.append(Implies(over, wrapped(c1.f[nm], "_track_" + nm, c0.f[nm])))
                out.append(Implies(Not(over), c1.f[nm] is c0.f[nm]))
            mods = c1.f.get("_applied_modifiers")
            before = list(c0.f["_applied_modifiers"].items) if "_applied_modifiers" in c0.f else []
            out.append(isinstance(mods, PyList) and len(mods.items) == len(before) + 1 and all(a is b for a, b in zip(mods.items, before))
                       and isinstance(mods.items[-1], FuncRef) and mods.items[-1].name == "simulator_tracking")
            return And(*out)
        from pennylane.devices import Device
        import pennylane.devices.modifiers.simulator_tracking as stm

        def wrapped(v, nm, orig):
            return getattr(v, "__wrapped__", None) is orig and v.__code__.co_name == nm.replace("_track_", "") \
                and v.__code__.co_freevars == (nm.replace("_track_", "untracked_"),)
        ok = r is c1 and wrapped(c1.execute, "_track_execute", c1._orig["execute"])
        for nm in NAMES:
            if c1._orig[nm] is not getattr(Device, nm):
                ok = ok and wrapped(getattr(c1, nm), "_track_" + nm, c1._orig[nm])
            else:
                ok = ok and getattr(c1, nm) is c1._orig[nm]
        return ok and c1._applied_modifiers == c1._orig_mods + [stm.simulator_tracking]

    contracts.append(FnContract(w_d, "simulator_tracking", [
        Case("device-subclass-first-modifier", {"cls": devclass_t(True, False)}, ensures=deco_ens, max_paths=200),
        Case("device-subclass-already-modified", {"cls": devclass_t(True, True)}, ensures=deco_ens, max_paths=200),
        Case("not-a-device", {"cls": devclass_t(False, False)}, ensures=lambda o, r, n: False, raises={"ValueError": lambda o: True})]))

    # =====================================================================================================================
    # get_num_shots_and_executions: the per-circuit executions / shots the execute wrapper records
    STUB_MP = ("class Sum:\n    pass\n\nclass LinearCombination(Sum):\n    pass\n\nclass PauliZ:\n    pass\n\n"
               "class ExpectationMP:\n    pass\n\nclass SampleMP:\n    pass\n\nclass ClassicalShadowMP:\n    pass\n\n"
               "class ShadowExpvalMP:\n    pass\n\n"
               "class Shots:\n    def __bool__(self):\n        return self.total_shots is not None\n\n"
               "class Tape:\n    pass\n")
    w_g = World(SA, stubs={"Sum": (STUB_MP, {"nterms": Int}), "LinearCombination": (STUB_MP, {"nterms": Int}), "PauliZ": (STUB_MP, {}),
                           "ExpectationMP": (STUB_MP, {}), "SampleMP": (STUB_MP, {}), "ClassicalShadowMP": (STUB_MP, {}),
                           "ShadowExpvalMP": (STUB_MP, {}), "Shots": (STUB_MP, {"total_shots": Int}), "Tape": (STUB_MP, {})},
                extra_builtins={"_group_measurements": lambda it, a, k: (a[0], None),
                                "_get_num_executions_for_expval_H": lambda it, a, k: a[0].f["nterms"],
                                "_get_num_executions_for_sum": lambda it, a, k: a[0].f["nterms"]})
    GK = ["H", "S", "shadow", "shadowexp", "expval", "sample"]

    def tape_t(kinds, finite, bs):
        """kinds: the kind of the first measurement of each group; finite: finite shots?; bs: None | 'int'"""
        C = w_g.classes

        def mk(ctx, name):
            groups = []
            for i, kd in enumerate(kinds):
                if kd in ("H", "S"):
                    obs = Rec(C["LinearCombination" if kd == "H" else "Sum"], {"nterms": fresh(ctx, Int, f"g{i}.nterms")})
                    mp = Rec(C["ExpectationMP"], {"obs": obs})
                elif kd == "expval":
                    mp = Rec(C["ExpectationMP"], {"obs": Rec(C["PauliZ"], {})})
                else:
                    mp = Rec(C[{"shadow": "ClassicalShadowMP", "shadowexp": "ShadowExpvalMP", "sample": "SampleMP"}[kd]], {})
                groups.append(PyList([mp, Rec(C["SampleMP"], {})]))
            return Rec(C["Tape"], {"measurements": PyList(groups),
                                   "shots": Rec(C["Shots"], {"total_shots": fresh(ctx, Int, "total_shots") if finite else None}),
                                   "batch_size": fresh(ctx, Int, "batch_size") if bs == "int" else None})

        def gen(rng):
            def g(kd):
                if kd in ("H", "S"):
                    first = {"__class__": "ExpectationMP", "obs": {"__class__": "LinearCombination" if kd == "H" else "Sum", "nterms": rng.randint(0, 5)}}
                elif kd == "expval":
                    first = {"__class__": "ExpectationMP", "obs": {"__class__": "PauliZ"}}
                else:
                    first = {"__class__": {"shadow": "ClassicalShadowMP", "shadowexp": "ShadowExpvalMP", "sample": "SampleMP"}[kd]}
                return [first, {"__class__": "SampleMP"}]
            return {"__class__": "Tape", "measurements": [g(kd) for kd in kinds],
                    "shots": {"__class__": "Shots", "total_shots": rng.randint(1, 50) if finite else None},
                    "batch_size": rng.randint(1, 4) if bs == "int" else None}
        return T("build", mk, gen=gen)

    def real_of_stub(clsname):
        def mkreal(f):
            import types
            import pennylane as qp
            from pennylane import measurements as M
            if clsname == "Tape":
                return types.SimpleNamespace(measurements=f["measurements"], shots=f["shots"], batch_size=f.get("batch_size"))
            if clsname == "Shots":
                from pennylane.core.shots import Shots as RealShots
                return RealShots(f.get("total_shots"))
            real = {"Sum": qp.ops.Sum, "LinearCombination": qp.ops.LinearCombination, "PauliZ": qp.PauliZ, "ExpectationMP": M.ExpectationMP,
                    "SampleMP": M.SampleMP, "ClassicalShadowMP": M.ClassicalShadowMP, "ShadowExpvalMP": M.ShadowExpvalMP}[clsname]
            o = object.__new__(real)
            for k, v in f.items():
                object.__setattr__(o, "_nterms" if k == "nterms" else k, v)
            return o
        return mkreal
    w_g.stub_realize = {nm: real_of_stub(nm) for nm in ["Tape", "Shots", "Sum", "LinearCombination", "PauliZ", "ExpectationMP", "SampleMP",
                                                        "ClassicalShadowMP", "ShadowExpvalMP"]}

    def call_counts(mod, a):
        saved = (mod._group_measurements, mod._get_num_executions_for_expval_H, mod._get_num_executions_for_sum)
        mod._group_measurements = lambda mps: (mps, None)
        mod._get_num_executions_for_expval_H = lambda obs: obs._nterms
        mod._get_num_executions_for_sum = lambda obs: obs._nterms
        try:
            return mod.get_num_shots_and_executions(a["tape"])
        finally:
            mod._group_measurements, mod._get_num_executions_for_expval_H, mod._get_num_executions_for_sum = saved

    def counts_spec(kinds, finite, bs):
        def ens(o, r, n):
            t = o.tape
            if is_sym(t):
                T_ = t.f["shots"].f["total_shots"]
                groups = [g.items[0] for g in t.f["measurements"].items]
                nterms = [g.f["obs"].f["nterms"] if kd in ("H", "S") else None for g, kd in zip(groups, kinds)]
                b = t.f["batch_size"]
            else:
                T_ = t.shots.total_shots
                nterms = [g[0].obs._nterms if kd in ("H", "S") else None for g, kd in zip(t.measurements, kinds)]
                b = t.batch_size
            ex, sh = 0, 0
            for kd, nt in zip(kinds, nterms):
                e = nt if kd in ("H", "S") else (T_ if kd in ("shadow", "shadowexp") else 1)      # executions of this group
                ex = ex + e
                if finite:
                    sh = sh + (T_ * nt if kd in ("H", "S") else T_)                                # shots of this group
            if b is not None:
                ex, sh = ex * b, sh * b
            return And(isinstance(r, tuple) and len(r) == 2, veq(r[0], ex), veq(r[1], sh))
        return ens

    def counts_req(finite, bs):
        def req(a):
            t = a.tape
            conds = []
            if finite:
                conds.append((t.f["shots"].f["total_shots"] if is_sym(t) else t.shots.total_shots) >= 1)
            if bs == "int":
                conds.append((t.f["batch_size"] if is_sym(t) else t.batch_size) >= 1)
            return And(*conds) if conds else True
        return req

    MAXG = 2 if tier == "quick" else 3
    import itertools
    gcases = []
    for ng in range(MAXG + 1):
        for kinds in itertools.product(GK, repeat=ng):
            if ng == 2 and "shadowexp" in kinds and kinds != ("shadowexp", "H"):
                continue            # ShadowExpvalMP shares its branch with ClassicalShadowMP: exercised in single-group tapes and once in a pair
            for finite in (True, False):
                if not finite and any(kd.startswith("shadow") for kd in kinds):
                    continue        # classical-shadow measurements need finite shots (documented domain; the code adds None there)
                for bs in ((None, "int") if ng <= 1 or kinds[0] == kinds[1] else ("int",)):
                    gcases.append(Case(f"groups-{'+'.join(kinds) or 'none'}-{'finite' if finite else 'analytic'}-batch-{bs or 'None'}",
                                       {"tape": tape_t(kinds, finite, bs)}, requires=counts_req(finite, bs), ensures=counts_spec(kinds, finite, bs),
                                       size_bounded=True, native_call=call_counts))
    contracts.append(FnContract(w_g, "get_num_shots_and_executions", gcases))
    plan.size_bounds.append(f"get_num_shots_and_executions: tapes of 0..{MAXG} measurement groups, every combination of group kinds "
                            "(Hamiltonian expval, Sum expval, classical shadow, shadow expval, other expval, sample), finite / analytic "
                            "shots, batched / unbatched; term counts, shot counts and batch sizes symbolic (nonlinear integer arithmetic)")

    for fc in contracts:
        for ob in obligations_for("C73", fc, tier):
            plan.add(ob)
        plan.fn_under_contract(fc.world.file, fc.qualname)

    plan.assumed_contracts = [
        "_group_measurements (grouping of a tape's measurements) and _get_num_executions_for_expval_H / _get_num_executions_for_sum "
        "(number of term groups of a Hamiltonian / Sum observable): uninterpreted, the counting loop is verified relative to them",
        "Shots.__bool__ == (total_shots is not None) (verified under C44)",
        "wrapped (undecorated) device methods: uninterpreted, one result per circuit, do not touch device.tracker",
        "user callback: uninterpreted, does not modify the tracker",
    ]
    plan.unverified = [
        "that every device class is decorated with simulator_tracking / that devices without the decorator track (device-side wiring)",
        "QNode-level batching and transform-produced batches (which circuits reach Device.execute)",
        "exceptions raised by the wrapped device method (tracking order relative to a failing execution)",
        "heterogeneous history lists (numeric and non-numeric values under the same key)",
    ]
    return plan
