"""C02 Named gates implement their documented unitaries.

Contract on every named gate's `compute_matrix` / `matrix`:  ensures result == REF(params)  (refs/gates.py, the
documented formula), for ALL real parameter values (exact Laurent-polynomial identity), plus the lemma REF.REF^dagger = I.
"""
import inspect
import itertools
import os
import re

import numpy as np
import pennylane as qp

from vf.common import Plan, Obligation, Outcome, DISCHARGED, REFUTED, REPO
from vf.symx.oblig import identity_obligation, lemma_obligation, unitary_lhs, float_constants_log
from vf.symx.scalar import sym, symarray, Sym, poly_matrix, pm_eye
from refs import gates as G

PNAMES = ["a", "b", "c"]

FIXED = ["Identity", "PauliX", "PauliY", "PauliZ", "Hadamard", "S", "T", "SX", "CNOT", "CZ", "CY", "CH", "SWAP", "ISWAP",
         "SISWAP", "ECR", "CSWAP", "Toffoli", "CCZ", "RX", "RY", "RZ", "PhaseShift", "U1", "U2", "U3", "Rot", "CRX",
         "CRY", "CRZ", "CRot", "ControlledPhaseShift", "CPhaseShift00", "CPhaseShift01", "CPhaseShift10", "IsingXX",
         "IsingYY", "IsingZZ", "IsingXY", "PSWAP", "SingleExcitation", "SingleExcitationMinus", "SingleExcitationPlus",
         "FermionicSWAP", "DoubleExcitation", "DoubleExcitationPlus", "DoubleExcitationMinus", "OrbitalRotation"]


# batched kernels that cast an object array to complex128 (np.asarray(...).astype(complex)) cannot carry symbolic
# scalars: outside reach, covered by a labelled bounded stand-in only
BATCH_OUT_OF_REACH = set()


def relfile(cls):
    return os.path.relpath(inspect.getsourcefile(cls), REPO)


def where_compute_matrix(cls):
    """(file, qualname) of the compute_matrix actually used by cls"""
    for k in cls.__mro__:
        if "compute_matrix" in k.__dict__:
            try:
                return relfile(k), f"{k.__name__}.compute_matrix"
            except TypeError:
                break
    return relfile(cls), f"{cls.__name__}.compute_matrix"


def build(tier, seed):
    plan = Plan("C02", level="proof")
    plan.explanation = ("Each named gate's real compute_matrix/matrix is executed on exact symbolic scalars (Sym over "
                        "Q(zeta_96)[params][exp(i*param/48)]) and compared entrywise, as Laurent polynomials, with the "
                        "documented formula; equality of normal forms is equality for every real parameter value.")
    plan.trusted_base = ["vf/symx (Sym scalar, cyclotomic/Laurent ring: exact arithmetic, ~500 lines)",
                         "numpy/autoray structural operations executed as-is on object arrays",
                         "refs/gates.py = hand transcription of the documented formulas"]
    plan.assumptions = ["A-float-as-real: rounding error of float execution is not verified",
                        "A-float-constants: float literals in the source are mapped to exact constants (logged)",
                        "coverage is for the numpy-interface, non-batched control path plus batch size 2 (size-bounded)"]
    plan.unverified = ["other interfaces (torch/jax/autograd branches of compute_matrix)", "batch sizes other than 2",
                       "variable-arity gates beyond the enumerated wire counts", "sparse matrices"]
    n_var = 3 if tier == "quick" else 4

    for name in FIXED:
        cls = getattr(qp, name)
        npar, nw, ref = G.REF[name]
        names = PNAMES[:npar]
        func = where_compute_matrix(cls)
        plan.fn_under_contract(*func)

        def traced(S, cls=cls, names=names):
            return cls.compute_matrix(*[S[n] for n in names])

        def reference(S, ref=ref, names=names):
            return ref(*[S[n] for n in names])

        def native(env, cls=cls, names=names):
            return cls.compute_matrix(*[env[n] for n in names])

        plan.add(identity_obligation(f"C02/{func[0].split('/')[-1][:-3]}:{name}.compute_matrix/post", "post", names,
                                     traced, reference, native, seed=seed, func=func,
                                     sample=f"compute_matrix({', '.join(names)}) == documented {name} matrix, all entries"))
        plan.add(lemma_obligation(f"C02/{name}/lemma:unitary", names, unitary_lhs(reference),
                                  lambda S, nw=nw: pm_eye(2 ** nw), sample="REF.REF^dagger == I"))

        # operator instance on permuted, non-contiguous wire labels: first listed wire is the most significant one
        if nw >= 2:
            wires = list(range(nw))[::-1] if nw == 2 else ([1, 2, 0] if nw == 3 else [2, 0, 3, 1])

            def traced_w(S, cls=cls, names=names, wires=wires, nw=nw):
                return qp.matrix(cls(*[S[n] for n in names], wires=wires), wire_order=list(range(nw)))

            def reference_w(S, ref=ref, names=names, wires=wires, nw=nw):
                return G.on_wires(ref(*[S[n] for n in names]), wires, nw)

            def native_w(env, cls=cls, names=names, wires=wires, nw=nw):
                return qp.matrix(cls(*[env[n] for n in names], wires=wires), wire_order=list(range(nw)))

            plan.add(identity_obligation(f"C02/{name}.matrix(wires={wires})/post", "post", names, traced_w, reference_w,
                                         native_w, seed=seed, func=func, size_bounded=True,
                                         sample="matrix on permuted wires == documented matrix re-indexed, first wire most significant"))
        # broadcast (batch of 2 symbolic parameter sets): size-bounded
        if npar >= 1:
            bnames = [f"{n}{k}" for n in names for k in (0, 1)]

            def traced_b(S, cls=cls, names=names):
                args = [symarray([S[n + "0"], S[n + "1"]]) for n in names]
                return np.asarray(cls.compute_matrix(*args), dtype=object)

            def reference_b(S, ref=ref, names=names):
                return np.stack([ref(*[S[n + str(k)] for n in names]) for k in (0, 1)])

            def native_b(env, cls=cls, names=names):
                return cls.compute_matrix(*[np.array([env[n + "0"], env[n + "1"]]) for n in names])

            plan.add(identity_obligation(f"C02/{name}.compute_matrix[batch=2]/post", "post", bnames, traced_b,
                                         reference_b, native_b, seed=seed, func=func, size_bounded=True,
                                         bounded=(name in BATCH_OUT_OF_REACH)))

    # ---- variable-arity gates: size-bounded enumeration
    for n in range(1, n_var + 1):
        func = where_compute_matrix(qp.MultiRZ)
        plan.fn_under_contract(*func)
        plan.add(identity_obligation(
            f"C02/MultiRZ[n={n}].matrix/post", "post", ["a"],
            lambda S, n=n: qp.MultiRZ(S["a"], wires=list(range(n))).matrix(),
            lambda S, n=n: G.MultiRZ(S["a"], n),
            lambda env, n=n: qp.MultiRZ(env["a"], wires=list(range(n))).matrix(), seed=seed, func=func, size_bounded=True))
        plan.add(lemma_obligation(f"C02/MultiRZ[n={n}]/lemma:unitary", ["a"], unitary_lhs(lambda S, n=n: G.MultiRZ(S["a"], n)),
                                  lambda S, n=n: pm_eye(2 ** n), size_bounded=True))
    func = where_compute_matrix(qp.PauliRot)
    plan.fn_under_contract(*func)
    for n in range(1, (2 if tier == "quick" else 3) + 1):
        for word in map("".join, itertools.product("IXYZ", repeat=n)):
            plan.add(identity_obligation(
                f"C02/PauliRot[{word}].matrix/post", "post", ["a"],
                lambda S, word=word: qp.PauliRot(S["a"], word, wires=list(range(len(word)))).matrix(),
                lambda S, word=word: G.PauliRot(S["a"], word),
                lambda env, word=word: qp.PauliRot(env["a"], word, wires=list(range(len(word)))).matrix(),
                seed=seed, func=func, size_bounded=True))
            if n <= 2:
                plan.add(lemma_obligation(f"C02/PauliRot[{word}]/lemma:unitary", ["a"],
                                          unitary_lhs(lambda S, word=word: G.PauliRot(S["a"], word)),
                                          lambda S, n=n: pm_eye(2 ** n), size_bounded=True))
    func = where_compute_matrix(qp.MultiControlledX)
    plan.fn_under_contract(*func)
    for nc in range(1, n_var + 1):
        for cv in itertools.product([0, 1], repeat=nc):
            plan.add(identity_obligation(
                f"C02/MultiControlledX[cv={''.join(map(str, cv))}].matrix/post", "post", [],
                lambda S, nc=nc, cv=cv: qp.MultiControlledX(wires=list(range(nc + 1)), control_values=list(cv)).matrix(),
                lambda S, nc=nc, cv=cv: G.MultiControlledX(nc, cv),
                lambda env, nc=nc, cv=cv: qp.MultiControlledX(wires=list(range(nc + 1)), control_values=list(cv)).matrix(),
                seed=seed, func=func, size_bounded=True))
    func = where_compute_matrix(qp.GlobalPhase)
    plan.fn_under_contract(*func)
    for n in range(1, 3):
        plan.add(identity_obligation(
            f"C02/GlobalPhase.matrix(wire_order=range({n}))/post", "post", ["a"],
            lambda S, n=n: qp.matrix(qp.GlobalPhase(S["a"]), wire_order=list(range(n))),
            lambda S, n=n: G.GlobalPhase(S["a"], n),
            lambda env, n=n: qp.matrix(qp.GlobalPhase(env["a"]), wire_order=list(range(n))), seed=seed, func=func, size_bounded=True))
    plan.add(lemma_obligation("C02/GlobalPhase/lemma:unitary", ["a"], unitary_lhs(lambda S: G.GlobalPhase(S["a"], 1)),
                              lambda S: pm_eye(2)))
    func = where_compute_matrix(qp.Identity)
    for n in range(1, 3):
        plan.add(identity_obligation(
            f"C02/Identity[n={n}].matrix/post", "post", [],
            lambda S, n=n: qp.Identity(wires=list(range(n))).matrix(), lambda S, n=n: G.Identity(n),
            lambda env, n=n: qp.Identity(wires=list(range(n))).matrix(), seed=seed, func=func, size_bounded=True))

    # ---- the reference table is tied to the docstrings where a formula is given as a basis-state map
    plan.add(Obligation("C02/docstring:DoubleExcitation-family-sign-convention", "doc-consistency",
                        _doc_sign_check, func=("pennylane/ops/qubit/qchem_ops.py", "DoubleExcitationPlus"),
                        sample="docstring basis-state map has the sign pattern of the reference table"))
    plan.size_bounds = [f"MultiRZ wires<= {n_var}", f"PauliRot words of length <= {2 if tier == 'quick' else 3}",
                        f"MultiControlledX controls <= {n_var} (all control values)", "GlobalPhase/Identity wires <= 2",
                        "broadcast batch size 2", "one permuted wire placement per multi-wire gate"]
    plan.notes["float_constants_recognised"] = "see per-run log in worker processes (A-float-constants)"
    return plan


def _doc_sign_check():
    """The documented transformation |0011> -> cos|0011> (+/-) sin|1100> of the three double-excitation gates must carry
    the sign used in refs/gates.py (+ for |0011>, - for |1100>)."""
    bad = []
    for cls in (qp.DoubleExcitation, qp.DoubleExcitationPlus, qp.DoubleExcitationMinus):
        doc = cls.__doc__ or ""
        m1 = re.search(r"\|0011\\rangle \\rightarrow \\cos\(\\phi/2\) \|0011\\rangle ([+-]) \\sin\(\\phi/2\) \|1100\\rangle", doc)
        m2 = re.search(r"\|1100\\rangle \\rightarrow \\cos\(\\phi/2\) \|1100\\rangle ([+-]) \\sin\(\\phi/2\) \|0011\\rangle", doc)
        if not m1 or not m2:
            bad.append(f"{cls.__name__}: documented map not found")
        elif (m1.group(1), m2.group(1)) != ("+", "-"):
            bad.append(f"{cls.__name__}: documents |0011>->cos|0011>{m1.group(1)}sin|1100>, |1100>->cos|1100>{m2.group(1)}sin|0011>")
    if bad:
        # replay on the real code: the matrix entry [12,3] (amplitude of |1100> from |0011>) at phi=pi/2
        phi = 1.0
        obs = {c.__name__: float(np.real(c.compute_matrix(phi)[12, 3])) for c in
               (qp.DoubleExcitation, qp.DoubleExcitationPlus, qp.DoubleExcitationMinus)}
        return Outcome(REFUTED, "docstring-regex", "; ".join(bad), witness=dict(phi=phi, entry=[12, 3]),
                       replay=dict(confirmed=True, observed=obs,
                                   expected="documented sign of the |1100> amplitude produced from |0011>",
                                   note="code and documented formula disagree in sign"))
    return Outcome(DISCHARGED, "docstring-regex", "documented sign convention equals reference table")
