"""C66 Local decomposition-rule contexts are isolated.

Real code of pennylane/decomposition/decomposition_rule.py, executed on registries of enumerated SHAPE (operator names, rule names and
the number of entries are concrete, the objects are records with python identity) -- a frame / aliasing check:

* `local_decomps` (a generator context manager) is run with an ADVERSARIAL with-body substituted at its `yield`: the body looks at what
  the two ContextVars hold (fresh registries: the dict, every DecompCollection and every inner `_decomps` dict are new objects, the
  contents are the outer contents), then mutates EVERYTHING reachable from the inner registries and may raise.  Normal and
  exceptional postcondition: both ContextVars hold the outer objects again and the outer registries (identity and contents, deeply)
  are exactly what they were.
* `add_decomps` / `_fix_decomp` write only into the registry that `*_var.get()` returns at that moment, `get_fixed_decomp` /
  `list_decomps` / `has_decomp` read from it, `list_decomps` hands out a copy; DecompCollection.{__init__, copy, append, extend}
  never alias their argument's or another collection's dict.
* contextvars.ContextVar is an ASSUMED stdlib contract: a cell per context with get / set -> token / reset(token) (reset restores
  the value the variable had before the matching set).  Isolation between threads and asyncio tasks is exactly this assumption:
  every thread / task has its own cell, so the schedule quantifier of the property statement is discharged by the assumption and
  not explored.
"""
import contextvars
import importlib

import z3

from vf.common import Plan
from vf.pyvc.engine import World, T, Rec, PyList, FuncRef, Model, Unsupp, RaiseExc
from vf.pyvc.contract import FnContract, Case, obligations_for
from vf.pyvc.spec import And

PID = "C66"
DR = "pennylane/decomposition/decomposition_rule.py"
DMOD = "pennylane.decomposition.decomposition_rule"
NoneV = T("const", None)
DVAR, FVAR = "_decompositions_var", "_fixed_decomps_var"

SHAPES = {
    "empty registries": dict(decomps={}, fixed={}),
    "one operator": dict(decomps={"opA": ["r1"]}, fixed={}),
    "two operators, one fixed": dict(decomps={"opA": ["r1", "r2"], "opB": ["r3"]}, fixed={"opA": "r2"}),
    # an entry that a mere look-up on the defaultdict created (independent seed C66_1: empty collections must be copied too)
    "an operator with an empty entry": dict(decomps={"opA": [], "opB": ["r1"]}, fixed={}),
}


# ---------------------------------------------------------------------------------------------- views that work on both sides
def inner(c):
    """the `_decomps` dict of a DecompCollection (symbolic record or real object)"""
    return c.f["_decomps"] if isinstance(c, Rec) else c._decomps          # pylint: disable=protected-access


def is_coll(c):
    return (isinstance(c, Rec) and c.cls.name == "DecompCollection") or type(c).__name__ == "DecompCollection"


def ident(x):
    """python identity that survives the pre-state snapshot (`old`): records carry their origin, copied real objects remember the
    live object they were copied from"""
    if isinstance(x, Rec):
        return id(x.origin)
    return id(getattr(x, "_vf_origin", x))


def freeze(reg):
    """identity + contents of a registry name -> DecompCollection, deeply"""
    return tuple((k, ident(c), id(inner(c)), tuple((n, ident(r)) for n, r in inner(c).items())) for k, c in reg.items())


def freeze_fixed(fx):
    return tuple((k, ident(r)) for k, r in fx.items())


def contents(c):
    return [(n, ident(r)) for n, r in inner(c).items()]


class DefaultDict(dict):
    """symbolic-side collections.defaultdict(factory, mapping): a python dict whose missing keys are created by the factory"""

    def __init__(self, factory, mapping=()):
        super().__init__(mapping)
        self.factory = factory

    def vf_missing(self, interp, key):
        v = interp.call(self.factory, [], {})
        self[key] = v
        return v


class Token(Model):
    def __init__(self, var, old):
        self.var, self.old, self.used = var, old, False


class Cell:
    """ASSUMED contract of contextvars.ContextVar within one context"""

    def __init__(self, name, value):
        self.name, self.value, self.tokens = name, value, []

    def get(self, it, args, kw):
        return self.value

    def set(self, it, args, kw):
        tok = Token(self, self.value)
        self.tokens.append(tok)
        self.value = args[0]
        return tok

    def reset(self, it, args, kw):
        tok = args[0]
        if not isinstance(tok, Token) or tok.var is not self:
            raise RaiseExc("ValueError")          # token was created by a different ContextVar
        if tok.used:
            raise RaiseExc("RuntimeError")        # token has already been used once
        tok.used = True
        self.value = tok.old
        return None


class BodyError(Exception):
    pass


def build(tier, seed):
    plan = Plan(PID, level="other")
    plan.explanation = (
        "Frame / aliasing obligations on the real registry code: each function is executed (all paths) on registries of enumerated shape "
        "whose objects carry python identity; local_decomps is executed with an adversarial with-body (inspects, mutates everything "
        "reachable from the inner registries, may raise) substituted at its yield, try/finally with full semantics; postconditions compare "
        "identities and deep contents of the outer registries before and after, on normal and exceptional exit.")
    plan.trusted_base = ["vf/pyvc encoder (python dicts with concrete keys, records with identity, `with`/generator substitution, strict finally)",
                         "the enumeration of shapes is representative: the code never branches on the NUMBER of entries except through "
                         "iteration / membership (checked shapes: 0, 1, 2 operators; 0..2 rules per operator; 0..1 fixed rules)"]
    plan.assumptions = ["A-contextvars: ContextVar.get/set/reset behave as a per-context cell with tokens (stdlib); threads and asyncio tasks "
                        "each own a separate cell -- the thread/schedule quantifier of the property is discharged by this assumption",
                        "to_name(op) of a canonical operator name string is that string (utils.to_name / translate_op_alias not under contract)"]
    plan.assumed_contracts = ["contextvars.ContextVar.{get, set, reset}", "collections.defaultdict(factory, mapping): new dict with the mapping's "
                              "items; a missing key is created by the factory on lookup", "dict.copy / dict.items / dict.get / dict |= dict (in place)",
                              "builtins next(iterator, default), iter(values)"]
    plan.dropped = ["docstrings, annotations, exception messages, __repr__/__str__, inspect_decomps and the _DecompInfo pretty printers"]
    plan.size_bounds = ["registries of three enumerated shapes (0 / 1 / 2 operators, up to 2 rules per operator, 0..1 fixed rule); operator and "
                        "rule names concrete; every case checks identities and deep contents"]
    plan.unverified = ["interleavings of several threads / tasks (assumed through contextvars)", "to_name / translate_op_alias aliases",
                       "DecompositionRule construction (register_resources / register_condition)", "DecompCollection.__getitem__/__add__/__iadd__"]

    cell = {}

    class State:
        """the symbolic world of one path: rules, the module-level default registries, the registries the ContextVars hold now"""

        def __init__(self, shape):
            ci_r, ci_c = w.classes["DecompositionRule"], w.classes["DecompCollection"]
            self.rules = {}

            def rule(n):
                if n not in self.rules:
                    self.rules[n] = Rec(ci_r, {"name": n})
                return self.rules[n]
            self.rule = rule
            fac = FuncRef("class", "DecompCollection", ci_c)
            self.private = DefaultDict(fac)
            self.private_fixed = {}
            self.outer = DefaultDict(fac, {op: Rec(ci_c, {"_decomps": {n: rule(n) for n in names}}) for op, names in shape["decomps"].items()})
            self.fixed = {op: rule(n) for op, n in shape["fixed"].items()}
            self.cells = {DVAR: Cell(DVAR, self.outer), FVAR: Cell(FVAR, self.fixed)}
            self.before = (freeze(self.outer), freeze_fixed(self.fixed), freeze(self.private), freeze_fixed(self.private_fixed))

        def untouched(self, except_outer=False, except_fixed=False):
            now = (freeze(self.outer), freeze_fixed(self.fixed), freeze(self.private), freeze_fixed(self.private_fixed))
            return all(a == b for i, (a, b) in enumerate(zip(now, self.before)) if not ((i == 0 and except_outer) or (i == 1 and except_fixed)))

        def vars_hold_outer(self):
            return self.cells[DVAR].value is self.outer and self.cells[FVAR].value is self.fixed

    def var_method(var, meth):
        return lambda it, args, kw: getattr(cell["st"].cells[var], meth)(it, args, kw)

    def b_defaultdict(it, args, kw):
        fac = args[0]
        mapping = args[1] if len(args) > 1 else {}
        if not isinstance(mapping, dict):
            raise Unsupp("defaultdict of a non-dict")
        return DefaultDict(fac, mapping)

    def b_next(it, args, kw):
        items = it.iter_concrete(args[0])
        if items:
            return items[0]
        if len(args) > 1:
            return args[1]
        raise RaiseExc("StopIteration")

    def b_to_name(it, args, kw):
        if isinstance(args[0], str):
            return args[0]
        raise Unsupp("to_name of a non-string")
    xb = {"defaultdict": b_defaultdict, "next": b_next, "to_name": b_to_name, "iter": lambda it, a, k: a[0],
          DVAR: lambda it, a, k: None, FVAR: lambda it, a, k: None}
    for v in (DVAR, FVAR):
        for m_ in ("get", "set", "reset"):
            xb[f"{v}.{m_}"] = var_method(v, m_)
    w = World(DR, classes={"DecompCollection": {"_decomps": NoneV}, "DecompositionRule": {"name": NoneV}},
              functions=["add_decomps", "list_decomps", "has_decomp", "local_decomps", "_fix_decomp", "get_fixed_decomp"], extra_builtins=xb)
    w.strict_finally = True

    def state_for(ctx, shape):
        """the symbolic state of this path (created when the first parameter value or the ghost hook asks for it)"""
        if cell.get("st_ctx") is not ctx:
            cell["st_ctx"], cell["st"] = ctx, State(shape)
        return cell["st"]

    def ghost_for(shape, extra=None):
        def ghost(ctx, a):
            cell["ctx"] = ctx
            st = state_for(ctx, shape)
            if extra:
                extra(ctx, a, st)
        return ghost

    # ---------------------------------------------------------------------------------------------- native side
    class NativeWorld:
        """real registries of a shape inside a private contextvars.Context"""

        def __init__(self, shape):
            self.mod = mod = importlib.import_module(DMOD)
            self.rules = {}
            self.ctx = contextvars.copy_context()
            self.outer = __import__("collections").defaultdict(mod.DecompCollection, {op: mod.DecompCollection([self.rule(n) for n in names])
                                                                                     for op, names in shape["decomps"].items()})
            self.fixed = {op: self.rule(n) for op, n in shape["fixed"].items()}
            self.private, self.private_fixed = mod._decompositions_private, mod._fixed_decomps_private
            self.before = None

        def rule(self, n):
            if n not in self.rules:
                def fn(*_, **__):
                    return None
                fn.__name__ = n
                self.rules[n] = self.mod.DecompositionRule(fn, resources={}, name=n)
            return self.rules[n]

        def run(self, fn):
            def go():
                self.mod._decompositions_var.set(self.outer)
                self.mod._fixed_decomps_var.set(self.fixed)
                self.before = (freeze(self.outer), freeze_fixed(self.fixed), freeze(self.private), freeze_fixed(self.private_fixed))
                try:
                    return fn()
                finally:
                    self.after_vars = (self.mod._decompositions_var.get() is self.outer, self.mod._fixed_decomps_var.get() is self.fixed)
            return self.ctx.run(go)

        def untouched(self, except_outer=False, except_fixed=False):
            now = (freeze(self.outer), freeze_fixed(self.fixed), freeze(self.private), freeze_fixed(self.private_fixed))
            return all(a == b for i, (a, b) in enumerate(zip(now, self.before)) if not ((i == 0 and except_outer) or (i == 1 and except_fixed)))

        def vars_hold_outer(self):
            return all(self.after_vars)

    class Carrier:
        """carries the native world through replay_case"""

        def __init__(self, nw_, value=None):
            self.c66, self.value = nw_, value

    def world_of(ns):
        for v in vars(ns).values():
            if isinstance(v, Carrier):
                return v.c66
        return None

    def native_gen_for(shape, rule_params=None, carrier="op", op=None):
        def gen(rng, m):
            m = dict(m)
            nwld = NativeWorld(shape)
            for k, n in (rule_params or {}).items():
                m[k] = nwld.rule(n)
            m[carrier] = Carrier(nwld, op)
            return m
        return gen

    def val(x):
        return x.value if isinstance(x, Carrier) else x

    def native_call_for(fname, argnames):
        def call(mod, args):
            nwld = next(v.c66 for v in args.values() if isinstance(v, Carrier))
            return nwld.run(lambda: getattr(mod, fname)(*[val(args[k]) for k in argnames]))
        return call

    def st_of(o):
        """the state (symbolic State or NativeWorld) the case runs in"""
        return world_of(o) or cell["st"]

    contracts = []

    # ============================================================================================== DecompCollection
    def coll_type(names, shape=None):
        return T("build", lambda ctx, nm: Rec(w.classes["DecompCollection"],
                                              {"_decomps": {n: state_for(ctx, shape or SHAPES["empty registries"]).rule(n) for n in names}}),
                 gen=lambda rng: {"__coll__": list(names)})

    def rule_type(n, shape=None):
        return T("build", lambda ctx, nm: state_for(ctx, shape or SHAPES["empty registries"]).rule(n),
                 gen=lambda rng: {"__class__": "DecompositionRule", "name": n})

    def coll_native(colls=None, rules=None):
        """native inputs of the case's concrete shape: colls = {param: rule names of the collection}, rules = {param: name | tuple/list of names}"""
        def gen(rng, m):
            m = dict(m)
            nwld = NativeWorld(SHAPES["empty registries"])
            for k, names in (colls or {}).items():
                m[k] = nwld.mod.DecompCollection([nwld.rule(n) for n in names])
            for k, spec in (rules or {}).items():
                m[k] = nwld.rule(spec) if isinstance(spec, str) else type(spec)(nwld.rule(n) for n in spec)
            return m
        return gen
    EMPTY = SHAPES["empty registries"]

    def post_copy(o, r, nw):
        return is_coll(r) and r is not nw.self and inner(r) is not inner(nw.self) and contents(r) == contents(nw.self) and \
            contents(nw.self) == contents(o.self) and [n for n, _ in contents(r)] == list(inner(r).keys())
    for names in ([], ["r1"], ["r1", "r2"]):
        contracts.append(FnContract(w, "DecompCollection.copy", [
            Case(f"{len(names)} rules", {"self": coll_type(names)}, ghost=ghost_for(EMPTY), ensures=post_copy, native_gen=coll_native(colls={"self": names}),
                 size_bounded=True)]))

    def fresh_self():
        return T("build", lambda ctx, nm: Rec(w.classes["DecompCollection"], {}), gen=lambda rng: {"__coll__": []})

    def init_call(mod, args):
        args["self"] = mod.DecompCollection(args["decomps"])
        return None

    def init_post_list(o, r, nw):
        d = inner(nw.self)
        given = list(nw.decomps.items if isinstance(nw.decomps, PyList) else nw.decomps)
        return isinstance(d, dict) and list(d.keys()) == [(x.f["name"] if isinstance(x, Rec) else x.name) for x in given] and \
            all(d[k] is x for k, x in zip(d.keys(), given))

    def list_of(names):
        return T("build", lambda ctx, nm: PyList([state_for(ctx, EMPTY).rule(n) if i == names.index(n) else Rec(w.classes["DecompositionRule"], {"name": n})
                                                  for i, n in enumerate(names)]),
                 gen=lambda rng: [{"__class__": "DecompositionRule", "name": n} for n in names])

    def init_native(names):
        def gen(rng, m):
            wld = NativeWorld(EMPTY)
            rules = []
            for i, n in enumerate(names):
                r = wld.rule(n)
                rules.append(r if i == names.index(n) else wld.mod.DecompositionRule(r._impl, resources={}, name=n))      # a DIFFERENT rule of that name
            return dict(m, self=None, decomps=rules)
        return gen
    contracts.append(FnContract(w, "DecompCollection.__init__", [
        Case("from a list of two rules", {"self": fresh_self(), "decomps": list_of(["r1", "r2"])}, ghost=ghost_for(EMPTY), ensures=init_post_list,
             native_call=init_call, native_gen=init_native(["r1", "r2"]), size_bounded=True),
        Case("from a list with a repeated name", {"self": fresh_self(), "decomps": list_of(["r1", "r2", "r1"])}, ghost=ghost_for(EMPTY),
             ensures=lambda o, r, nw: False, raises={"ValueError": lambda o: True}, must_return=lambda o: False, native_call=init_call,
             native_gen=init_native(["r1", "r2", "r1"]), size_bounded=True),
        Case("from None", {"self": fresh_self(), "decomps": NoneV}, ghost=ghost_for(EMPTY), native_call=init_call,
             ensures=lambda o, r, nw: isinstance(inner(nw.self), dict) and not inner(nw.self), native_gen=lambda rng, m: dict(m, self=None),
             size_bounded=True)]))

    def dict_of(names):
        return T("build", lambda ctx, nm: {n: state_for(ctx, EMPTY).rule(n) for n in names}, gen=lambda rng: {"__dict__": list(names)})

    def init_dict_gen(rng, m):
        wld = NativeWorld(EMPTY)
        return dict(m, self=None, decomps={n: wld.rule(n) for n in ("r1", "r2")})
    contracts.append(FnContract(w, "DecompCollection.__init__", [
        Case("from a dict: the dict is copied, never aliased", {"self": fresh_self(), "decomps": dict_of(["r1", "r2"])}, ghost=ghost_for(EMPTY),
             ensures=lambda o, r, nw: inner(nw.self) is not nw.decomps and list(inner(nw.self).items()) == list(nw.decomps.items()),
             native_call=init_call, native_gen=init_dict_gen, size_bounded=True)]))

    def name_of(x):
        return x.f["name"] if isinstance(x, Rec) else x.name

    def post_append(o, r, nw):
        before = contents(o.self)
        return r is None and [n for n, _ in contents(nw.self)] == [n for n, _ in before] + [name_of(nw.rule)] and \
            inner(nw.self)[name_of(nw.rule)] is nw.rule

    def has_name(o):
        return name_of(o.rule) in inner(o.self)
    for names, new in ((["r1"], "r2"), (["r1", "r2"], "r2"), ([], "r1")):
        cs = Case(f"{names} + {new}", {"self": coll_type(names), "rule": rule_type(new)}, ghost=ghost_for(EMPTY), ensures=post_append,
                  raises={"ValueError": has_name}, must_return=lambda o: not has_name(o), native_gen=coll_native(colls={"self": names}, rules={"rule": new}),
                  size_bounded=True)
        cs.exc_ensures = lambda name, o, nw: [n for n, _ in contents(nw.self)] == [n for n, _ in contents(o.self)]
        contracts.append(FnContract(w, "DecompCollection.append", [cs]))

    def ext_items(x):
        if is_coll(x):
            return list(inner(x).values())
        return list(x.items) if isinstance(x, PyList) else list(x)

    def ext_dup(o):
        return any(name_of(x) in inner(o.self) for x in ext_items(o.rules))

    def post_extend(o, r, nw):
        want = [n for n, _ in contents(o.self)] + [name_of(x) for x in ext_items(nw.rules)]
        ok = r is None and [n for n, _ in contents(nw.self)] == want and all(inner(nw.self)[name_of(x)] is x for x in ext_items(nw.rules))
        if is_coll(nw.rules):
            ok = ok and inner(nw.self) is not inner(nw.rules) and [name_of(x) for x in ext_items(nw.rules)] == [name_of(x) for x in ext_items(o.rules)]
        return ok
    def tuple_of(names):
        return T("build", lambda ctx, nm: tuple(state_for(ctx, EMPTY).rule(n) for n in names),
                 gen=lambda rng: tuple({"__class__": "DecompositionRule", "name": n} for n in names))
    for lab, names, rules_t, colls, rls in (
            ("tuple of new rules", ["r1"], tuple_of(["r2", "r3"]), {"self": ["r1"]}, {"rules": ("r2", "r3")}),
            ("tuple with an existing name", ["r1", "r2"], tuple_of(["r3", "r2"]), {"self": ["r1", "r2"]}, {"rules": ("r3", "r2")}),
            ("another DecompCollection", ["r1"], coll_type(["r2", "r3"]), {"self": ["r1"], "rules": ["r2", "r3"]}, {})):
        cs = Case(lab, {"self": coll_type(names), "rules": rules_t}, ghost=ghost_for(EMPTY), ensures=post_extend, raises={"ValueError": ext_dup},
                  must_return=lambda o: not ext_dup(o), native_gen=coll_native(colls=colls, rules=rls), size_bounded=True)
        cs.exc_ensures = lambda name, o, nw: [n for n, _ in contents(nw.self)] == [n for n, _ in contents(o.self)]
        contracts.append(FnContract(w, "DecompCollection.extend", [cs]))

    # ============================================================================================== registry functions
    OP = lambda name: T("const", name)

    def current(st):
        """(registry, fixed) the ContextVars hold now"""
        if isinstance(st, NativeWorld):
            return st.outer, st.fixed
        return st.cells[DVAR].value, st.cells[FVAR].value

    for shape_name, shape in SHAPES.items():
        ops_known = list(shape["decomps"])
        for op in (ops_known[:1] + ["opNEW"]):
            # ---- add_decomps: extends exactly current_registry[name]; nothing else changes (not the module-level default registry either)
            def post_add(o, r, nw, op=op, shape=shape):
                st = st_of(nw)
                reg, fx = current(st)
                before_names = list(shape["decomps"].get(op, []))
                coll = reg.get(op) if op in reg else None
                if coll is None:
                    return False
                names_now = [n for n, _ in contents(coll)]
                others_same = tuple(x for x in freeze(reg) if x[0] != op) == tuple(x for x in st.before[0] if x[0] != op)
                return r is None and names_now == before_names + ["rX", "rY"] and inner(coll).get("rX") is val(nw.d0) and others_same and \
                    st.untouched(except_outer=True) and st.vars_hold_outer() and len(reg) == len(shape["decomps"]) + (0 if op in shape["decomps"] else 1)
            cs = Case(f"{shape_name}: add two rules to {op}", {"op_type": OP(op), "d0": rule_type("rX", shape), "d1": rule_type("rY", shape)},
                      ghost=ghost_for(shape), ensures=post_add, native_gen=native_gen_for(shape, {"d0": "rX", "d1": "rY"}, "op_type", op),
                      native_call=native_call_for("add_decomps", ["op_type", "d0", "d1"]), size_bounded=True)
            contracts.append(FnContract(w, "add_decomps", [cs]))

            # ---- _fix_decomp / get_fixed_decomp
            def post_fix(o, r, nw, op=op, shape=shape):
                st = st_of(nw)
                reg, fx = current(st)
                want = dict((k, v) for k, v in st.before[1])
                return r is None and fx.get(op) is val(nw.rule) and {k: id(v) for k, v in fx.items() if k != op} == {k: v for k, v in want.items() if k != op} \
                    and st.untouched(except_fixed=True) and st.vars_hold_outer()
            contracts.append(FnContract(w, "_fix_decomp", [
                Case(f"{shape_name}: fix {op}", {"op": OP(op), "rule": rule_type("rX", shape)}, ghost=ghost_for(shape), ensures=post_fix,
                     native_gen=native_gen_for(shape, {"rule": "rX"}, "op", op), native_call=native_call_for("_fix_decomp", ["op", "rule"]),
                     size_bounded=True)]))

            def post_get_fixed(o, r, nw, op=op, shape=shape):
                st = st_of(nw)
                reg, fx = current(st)
                return (r is not None and r is fx.get(op) if op in shape["fixed"] else r is None) and st.untouched() and st.vars_hold_outer()
            contracts.append(FnContract(w, "get_fixed_decomp", [
                Case(f"{shape_name}: {op}", {"op": OP(op)}, ghost=ghost_for(shape), ensures=post_get_fixed,
                     native_gen=native_gen_for(shape, None, "op", op), native_call=native_call_for("get_fixed_decomp", ["op"]), size_bounded=True)]))

            # ---- list_decomps hands out a copy (or the one fixed rule); has_decomp
            def post_list(o, r, nw, op=op, shape=shape):
                st = st_of(nw)
                reg, fx = current(st)
                if not is_coll(r):
                    return False
                if op in shape["fixed"]:
                    return [n for n, _ in contents(r)] == [shape["fixed"][op]] and inner(r).get(shape["fixed"][op]) is fx.get(op) and fx.get(op) is not None and st.untouched() and \
                        st.vars_hold_outer()
                src = reg.get(op) if op in reg else None
                fresh_ = src is not None and r is not src and inner(r) is not inner(src) and contents(r) == contents(src)
                # a lookup of an unknown operator may create an EMPTY collection in the current registry (defaultdict), nothing else
                if op in shape["decomps"]:
                    same = st.untouched()
                else:
                    same = src is not None and not inner(src) and st.untouched(except_outer=True) and \
                        tuple(x for x in freeze(reg) if x[0] != op) == st.before[0]
                return fresh_ and same and st.vars_hold_outer() and [n for n, _ in contents(r)] == list(shape["decomps"].get(op, []))
            contracts.append(FnContract(w, "list_decomps", [
                Case(f"{shape_name}: {op}", {"op": OP(op)}, ghost=ghost_for(shape), ensures=post_list,
                     native_gen=native_gen_for(shape, None, "op", op), native_call=native_call_for("list_decomps", ["op"]), size_bounded=True)]))

            def post_has(o, r, nw, op=op, shape=shape):
                st = st_of(nw)
                want = True if op in shape["fixed"] else len(shape["decomps"].get(op, [])) > 0
                return r is want and st.vars_hold_outer() and st.untouched(except_outer=op not in shape["decomps"])
            contracts.append(FnContract(w, "has_decomp", [
                Case(f"{shape_name}: {op}", {"op": OP(op)}, ghost=ghost_for(shape), ensures=post_has,
                     native_gen=native_gen_for(shape, None, "op", op), native_call=native_call_for("has_decomp", ["op"]), size_bounded=True)]))

    # ============================================================================================== local_decomps
    def observe_inner(reg_in, fx_in, reg_out, fx_out):
        """inside the context: fresh registries that alias nothing of the outer ones, with the outer contents"""
        outer_objs = {id(reg_out), id(fx_out)} | {id(c) for c in reg_out.values()} | {id(inner(c)) for c in reg_out.values()}
        inner_objs = [reg_in, fx_in] + list(reg_in.values()) + [inner(c) for c in reg_in.values()]
        no_alias = all(id(x) not in outer_objs for x in inner_objs)
        same_contents = list(reg_in.keys()) == list(reg_out.keys()) and all(contents(reg_in[k]) == contents(reg_out[k]) for k in reg_out) and \
            freeze_fixed(fx_in) == freeze_fixed(fx_out) and all(is_coll(c) for c in reg_in.values())
        return no_alias and same_contents

    def local_ghost(shape):
        def extra(ctx, a, st):
            obs = cell["obs"] = []

            def hook(it, value, genv):
                reg_in, fx_in = st.cells[DVAR].value, st.cells[FVAR].value
                obs.append(observe_inner(reg_in, fx_in, st.outer, st.fixed) and value is None and isinstance(reg_in, DefaultDict))
                # adversarial body: mutate everything reachable from the inner registries (through the objects, as add_decomps /
                # _fix_decomp / DecompCollection.append would)
                for c in list(reg_in.values()):
                    inner(c)["r_body"] = st.rule("r_body")
                    for k in list(inner(c))[:1]:
                        del inner(c)[k]
                reg_in["op_body"] = Rec(w.classes["DecompCollection"], {"_decomps": {"r_body": st.rule("r_body")}})
                for k in list(fx_in):
                    fx_in[k] = st.rule("r_body")
                fx_in["op_body"] = st.rule("r_body")
                if it.ctx.branch(z3.Bool(it.ctx.fresh_name("with_body_raises"))):
                    raise RaiseExc("BodyError")
            ctx.yield_hook = hook
        return ghost_for(shape, extra)

    def local_post(o, r, nw):
        wld = cell.pop("native_local_ran", None)
        if wld is not None:
            return wld.obs == [True] and wld.vars_hold_outer() and wld.untouched()
        st = cell["st"]
        toks = st.cells[DVAR].tokens + st.cells[FVAR].tokens
        return cell["obs"] == [True] and st.vars_hold_outer() and st.untouched() and len(toks) == 2 and all(t.used for t in toks)

    for shape_name, shape in SHAPES.items():
        def native_local(mod, args, shape=shape):
            wld = cell["native_local"]
            cell["native_local_ran"] = wld

            def go():
                with mod.local_decomps() as value:
                    reg_in, fx_in = mod._decompositions_var.get(), mod._fixed_decomps_var.get()
                    wld.obs = [observe_inner(reg_in, fx_in, wld.outer, wld.fixed) and value is None]
                    for c in list(reg_in.values()):
                        c._decomps["r_body"] = wld.rule("r_body")
                        for k in list(c._decomps)[:1]:
                            del c._decomps[k]
                    mod.add_decomps("op_body", wld.rule("r_body"))
                    for k in list(fx_in):
                        fx_in[k] = wld.rule("r_body")
                    mod._fix_decomp("op_body", wld.rule("r_body"))
                    if wld.raise_in_body:
                        raise BodyError("with-body raises")
            return wld.run(go)

        def gen_local(rng, m, shape=shape):
            wld = NativeWorld(shape)
            wld.raise_in_body = bool(rng.random() < 0.5) if rng is not None else True
            wld.obs = []
            cell["native_local"] = wld
            return dict(m, __w__=wld)
        cs = Case(f"{shape_name}: adversarial with-body, may raise", {}, ghost=local_ghost(shape), ensures=local_post,
                  raises={"BodyError": lambda o: True}, native_call=native_local, native_gen=gen_local, size_bounded=True)
        cs.exc_ensures = lambda name, o, nw: local_post(o, None, nw)
        contracts.append(FnContract(w, "local_decomps", [cs]))

    for fc in contracts:
        plan.fn_under_contract(fc.world.file, fc.qualname)
        for ob in obligations_for(PID, fc, tier):
            plan.add(ob)
    return plan
